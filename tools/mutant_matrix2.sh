#!/bin/bash
# like mutant_matrix.sh, for a glob of seeded changes (default: round 2)
cd /verif
for d in ${1:-seeded/C*_2/}; do
  m=$(basename $d); c=${m:0:3}
  out=$(./tools/try_mutant.sh $m $c 2>&1 | tail -1)
  echo "$out"
  python3 - "$m" "$out" <<'PY'
import json,sys,re
m,out=sys.argv[1:]
p=f"/verif/seeded/{m}/meta.json"; j=json.load(open(p))
det="rc=1" in out and re.search(r"[1-9] violation", out) is not None
j["detected_by"]=[m[:3]] if det else []
j["detection_run"]=out
j["no_failing_input_found"]="no-failing-input-found" in out
json.dump(j,open(p,"w"),indent=1)
PY
done
git -C /repo status --short | head -3
