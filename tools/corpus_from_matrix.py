#!/usr/bin/env python3
"""Keep the failing input that detected a seeded change as a corpus case of that property (run first by the
schedule checks), so that the detection does not depend on the generators' random stream."""
import glob, json, os, re
for mp in sorted(glob.glob("/verif/seeded/C*/meta.json")):
    m = os.path.basename(os.path.dirname(mp))
    j = json.load(open(mp))
    run = j.get("detection_run") or ""
    dst = f"/verif/corpus/{m[:3]}/seeded_{m}.json"
    if os.path.exists(dst):
        continue
    for rp in re.findall(r"replay=(\S+\.json)", run):
        if not os.path.exists(rp):
            continue
        r = json.load(open(rp))
        ap = r.get("abstract_project")
        if isinstance(ap, dict) and "tasks" in ap and "dur" in ap:
            os.makedirs(os.path.dirname(dst), exist_ok=True)
            json.dump(ap, open(dst, "w"), indent=1)
            print("corpus", dst)
            break
