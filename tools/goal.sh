#!/bin/bash
# goal.sh <file.v> <line> : print the proof state after <line> lines of the file
f=$1; n=$2
head -n $n $f > /tmp/_goal.v; echo "Show." >> /tmp/_goal.v
cd /verif/coq && coqc -R . SP /tmp/_goal.v 2>&1 | head -${3:-60}
