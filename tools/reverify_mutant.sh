#!/bin/bash
# re-verify a (rebased) mutant against the current /repo HEAD in /tmp/rebase_wt
id=$1; wt=/tmp/rebase_wt
cd $wt && git checkout -q -- . && git apply /verif/seeded/$id/patch.diff || { echo "$id apply failed"; exit 1; }
if grep -q '\.pyx' /verif/seeded/$id/patch.diff; then rm -f scriptplan/_cython/*.so; /venv/bin/python setup.py build_ext --inplace >/dev/null 2>&1; fi
tests=$(/venv/bin/python -m pytest -q -p no:cacheprovider -n 6 -x 2>&1 | tail -1)
( cd /verif/seeded/$id && PYTHONPATH=$wt timeout 300 /venv/bin/python demo.py > demo_with.log 2>&1 ); w=$?
( cd /verif/seeded/$id && PYTHONPATH=/repo timeout 300 /venv/bin/python demo.py > demo_without.log 2>&1 ); wo=$?
git checkout -q -- . ; git status --short | grep -v '^??' | head -3
if grep -q '\.pyx' /verif/seeded/$id/patch.diff; then cp /repo/scriptplan/_cython/*.so scriptplan/_cython/; fi
echo "$id | $tests | with=$w without=$wo"
python3 - "$id" "$tests" "$w" "$wo" <<'PY'
import json,sys
id,tests,w,wo=sys.argv[1:]
p=f"/verif/seeded/{id}/meta.json"; m=json.load(open(p))
m.update({"patch_applies_to_repo_head":True,"test_suite_with_patch":tests.strip(),"demo_exit_with_patch":int(w),"demo_exit_without_patch":int(wo),
 "confirmed":"383 passed" in tests and int(w)==1 and int(wo)==0,"reverified_against_repo_head":True})
json.dump(m,open(p,"w"),indent=1)
PY
