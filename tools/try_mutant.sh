#!/bin/bash
# try_mutant.sh <mutant id> <check id> [tier]: apply the seeded change to /repo, run the check, undo it.
# The evidence file of the check is put back afterwards: committed evidence must describe the unchanged tree.
m=$1; c=$2; tier=${3:-quick}
git -C /repo apply /verif/seeded/$m/patch.diff || { echo "$m: patch does not apply"; exit 2; }
cp /verif/evidence/$c.json /tmp/.evidence_$c.json 2>/dev/null
out=$(cd /verif && timeout 2400 ./check $c --tier $tier 2>&1); rc=$?
git -C /repo checkout -- .
[ -f /tmp/.evidence_$c.json ] && mv /tmp/.evidence_$c.json /verif/evidence/$c.json
echo "mutant=$m check=$c rc=$rc $(echo "$out" | grep -c VIOLATION) violation line(s): $(echo "$out" | grep VIOLATION | head -2 | tr '\n' ' ')"
