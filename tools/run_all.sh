#!/bin/bash
# run every registered check once (tier from $1, default quick); prints one line per check
cd /verif
tier=${1:-quick}
for i in 01 02 03 04 05 06 07 08 09 10 11 12 13 14 15 16 17 18 19 20; do
  s=$(date +%s)
  out=$(timeout 7200 ./check C$i --tier $tier 2>&1); rc=$?
  e=$(date +%s)
  echo "C$i rc=$rc $((e-s))s $(echo "$out" | grep -c VIOLATION) viol $(echo "$out" | grep -c KNOWN-FINDING) known | $(echo "$out" | grep VIOLATION | head -1 | cut -c1-100)"
done
