#!/bin/bash
# collect_mutant.sh <Cxx> [suffix]: confirm a sub-agent's mutant independently and store it under /verif/seeded/<Cxx><suffix>/
id=$1; suf=$2; wt=${MUT_WT:-/tmp/mut_$id$suf}; out=/verif/seeded/$id$suf
[ -f $wt/_mutant/patch.diff ] || { echo "$id: no patch"; exit 1; }
mkdir -p $out
git -C $wt diff -- . ":(exclude)*.c" > $out/patch.diff      # authoritative diff of the worktree (source only; generated C and _mutant/ left out)
cp $wt/_mutant/demo.py $out/demo.py; cp $wt/_mutant/notes.md $out/notes.md 2>/dev/null
applies=no; git -C /repo apply --check $out/patch.diff 2>/dev/null && applies=yes
# rebuild .so in the worktree when a .pyx is touched
if grep -q '\.pyx' $out/patch.diff; then (cd $wt && rm -f scriptplan/_cython/*.c.bak && /venv/bin/python setup.py build_ext --inplace >/dev/null 2>&1); fi
tests=$(cd $wt && /venv/bin/python -m pytest -q -p no:cacheprovider -n 6 -x 2>&1 | tail -1)
( cd $out && PYTHONPATH=$wt timeout 300 /venv/bin/python demo.py > $out/demo_with.log 2>&1 ); with=$?
( cd $out && PYTHONPATH=/repo timeout 300 /venv/bin/python demo.py > $out/demo_without.log 2>&1 ); without=$?
python3 - "$id$suf" "$applies" "$tests" "$with" "$without" <<'PY'
import json,sys
id,applies,tests,w,wo=sys.argv[1:]
json.dump({"property":id[:3],"patch_applies_to_repo_head":applies=="yes","test_suite_with_patch":tests.strip(),
 "demo_exit_with_patch":int(w),"demo_exit_without_patch":int(wo),
 "confirmed":applies=="yes" and "383 passed" in tests and int(w)==1 and int(wo)==0,
 "ran":["git -C /repo apply --check patch.diff","pytest -q -n 6 in the patched worktree","PYTHONPATH=<patched tree> python demo.py","PYTHONPATH=/repo python demo.py"],
 "needs":"see notes.md (written by the sub-agent that produced the change)","detected_by":None},
 open(f"/verif/seeded/{id}/meta.json","w"),indent=1)
print(id,applies,tests.strip(),w,wo)
PY
