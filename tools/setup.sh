#!/bin/bash
# Build the framework from files on disk only (offline): regenerate Gen/*.v from /repo, full Coq build,
# extraction, OCaml drivers.  The checks repeat the incremental version of this on every run.
set -e
cd /verif
mkdir -p build evidence replays
python3 translate/py2v.py /repo coq/Gen
./tools/coqbuild.sh > build/setup_coq.log 2>&1 || { tail -30 build/setup_coq.log; exit 1; }
./tools/ocamlbuild.sh
echo "setup ok"
