#!/bin/bash
# Rebuild the Cython extensions from /repo's current .pyx in a scratch copy and copy the .so back
# into /repo (the .so are git-ignored build products; the tracked .c files are left untouched).
set -e
S=$(mktemp -d /var/tmp/sobuild.XXXXXX)
trap 'rm -rf "$S"' EXIT
rsync -a --exclude .git --exclude '*.so' --exclude '__pycache__' /repo/ "$S/"
rm -f "$S"/scriptplan/_cython/*.c
( cd "$S" && /venv/bin/python setup.py build_ext --inplace -j 3 >/dev/null 2>"$S/err.log" ) || { cat "$S/err.log"; exit 1; }
cp "$S"/scriptplan/_cython/*.so /repo/scriptplan/_cython/
ls -la /repo/scriptplan/_cython/*.so
