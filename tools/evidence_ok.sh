#!/bin/bash
# every committed evidence file must come from a run on the unchanged tree: no violations, discharged = obligations
python3 - <<'PY'
import json,glob,sys
bad=0
for f in sorted(glob.glob('/verif/evidence/C*.json')):
    e=json.load(open(f)); c=e['coverage']
    if c.get('obligations')!=c.get('discharged') or e.get('violations',0)!=0:
        print("STALE", f); bad=1
sys.exit(bad)
PY
