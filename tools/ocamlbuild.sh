#!/bin/bash
# build the OCaml drivers for the extracted code into /verif/build/bin (each driver is linked under a private name and
# moved into place, so a check that runs at the same time never executes a half-written file)
set -e
B=/verif/build/ocaml; mkdir -p $B /verif/build/bin
cp /verif/coq/Extract/ocaml/*.ml /verif/coq/Extract/ocaml/*.mli /verif/ocaml/*.ml $B/ 2>/dev/null
cd $B
T=/verif/build/bin/.new$$
ocamlfind ocamlopt -O3 -w -a gen.mli gen.ml zconv.ml gendriver.ml -o $T.gendriver 2>/dev/null || ocamlfind ocamlopt -w -a gen.mli gen.ml zconv.ml gendriver.ml -o $T.gendriver
mv -f $T.gendriver /verif/build/bin/gendriver
if [ -f sched.ml ]; then ocamlfind ocamlopt -w -a sched.mli sched.ml zconvs.ml scheddriver.ml -o $T.scheddriver; mv -f $T.scheddriver /verif/build/bin/scheddriver; fi
if [ -f misc.ml ]; then ocamlfind ocamlopt -w -a misc.mli misc.ml miscdriver.ml -o $T.miscdriver; mv -f $T.miscdriver /verif/build/bin/miscdriver; fi
