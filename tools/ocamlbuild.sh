#!/bin/bash
# build the OCaml drivers for the extracted code into /verif/build/bin
set -e
B=/verif/build/ocaml; mkdir -p $B /verif/build/bin
cp /verif/coq/Extract/ocaml/*.ml /verif/coq/Extract/ocaml/*.mli /verif/ocaml/*.ml $B/ 2>/dev/null
cd $B
ocamlfind ocamlopt -O3 -w -a gen.mli gen.ml zconv.ml gendriver.ml -o /verif/build/bin/gendriver 2>/dev/null || ocamlfind ocamlopt -w -a gen.mli gen.ml zconv.ml gendriver.ml -o /verif/build/bin/gendriver
if [ -f sched.ml ]; then ocamlfind ocamlopt -w -a sched.mli sched.ml zconvs.ml scheddriver.ml -o /verif/build/bin/scheddriver; fi
if [ -f misc.ml ]; then ocamlfind ocamlopt -w -a misc.mli misc.ml miscdriver.ml -o /verif/build/bin/miscdriver; fi
