#!/usr/bin/env python3
"""Regenerate /verif/MANIFEST.json from the table below (one entry per claimed property)."""
import json

T = {
 "C01": ("proof", "Coq theorems C01_cell / C01_layout (every operation sequence on a ledger cell, exact rationals) and C01_schedule (NoDup (resource, slot) for every project of the scheduler model); tie: exhaustive + random operation sequences on the real booking/release code vs the extracted cell model, whole core projects vs the extracted scheduler model, ledger oracle on sub-slot/ALAP projects", "3.C01"),
 "C02": ("proof", "Coq theorems: regenerated Python and Cython interval tests = declarative hours spec incl. cross-midnight (all tables, all instants); C02_schedule: every booking of the scheduler model lies in a working slot; tie: translator (regenerated every run) + calendar recomputed from the project text vs the implementation's ledger over zones/DST/leaves", "3.C02"),
 "C03": ("proof", "Coq theorems on the cell discipline (kept = min(need, booked)) and the whole-slot frame; effort arithmetic with efficiencies, teams and alternatives decided on the implementation by the oracle (partial: the efficiency arithmetic is not in the model)", "3.C03"),
 "C04": ("proof", "Coq theorem C04_asap for every project of the scheduler model (own + inherited + precedes edges, gaps, on-start, dated containers); ALAP half decided by the oracle on the implementation (partial)", "3.C04"),
 "C05": ("proof", "Coq theorems: regenerated period index = calendar day / Monday-week difference for all starts and slots; C05_schedule: usage <= value for every limit and period in every final state of the model; tie: translator + model correspondence + per-day / per-ISO-week aggregation of the implementation's ledger", "3.C05"),
 "C06": ("proof", "Coq theorem C06_frame (milestone start = end; start < end; team booked in the first and last slot; all bookings inside [start, end)) for the whole-slot model; sub-slot position, ALAP and milestones at mid-slot bounds decided by the oracle on the implementation (partial)", "3.C06"),
 "C07": ("proof", "the extracted Coq list scheduler (Model/Sched.v) is the reference implementation; Coq theorem C07_earliest_fit (every skipped slot was not bookable at that moment); tie: every project of the bounded universe (thorough) + random core projects, all dates and bookings compared", "3.C07"),
 "C08": ("proof", "Coq theorem C08_asap (no working unbooked slot between bound and end, final ledger) for the model; ALAP half decided by the oracle on the implementation (partial)", "3.C08"),
 "C09": ("proof", "Coq theorem on the model (intruder declared last) + two-run comparison on the implementation for random intruders", "3.C09"),
 "C10": ("proof", "Coq theorem C10_summary (container dates exist iff all leaves below are placed; min start / max end) + leaf-only work list; tie: model correspondence on random trees + oracle at every nesting level", "3.C10"),
 "C11": ("proof", "Coq: the model is a total function on structural fuel (terminates within #leaves x (#slots+1) steps), no slot outside the horizon is touched, placed tasks lie inside the horizon; infeasible-project generator and corrupted texts in isolated workers (partial: Lark and the transformer are exercised by fault injection only)", "3.C11"),
 "C12": ("proof", "Coq theorem on the global-state model (every run re-initialises the attribute mode before reading it; result independent of the state left by any history, incl. failing runs; schedule of a scheduled scenario is the identity) + histories in one interpreter (fresh / reused parser object, failing runs, repeated runs, second schedule()) and further hash seeds compared with a fresh process (partial: interpreter-level nondeterminism is covered by the runs only)", "3.C12"),
 "C14": ("proof", "Coq theorems: per-slot working table and per-slot limit period table (regenerated period index, hours spec proved equal to the regenerated on-shift tests) are invariant under moving the start and all leave intervals by whole weeks - all tables, starts, resolutions, horizons; tie: translator + shifted/unshifted runs of the implementation for 13 week offsets up to 300 weeks", "3.C14"),
 "C15": ("proof", "Coq theorems on the reference-resolution model (renaming invariance, relative = absolute, precedes inversion keeps the edge set) + six meaning-preserving rewrites applied to generated projects and run through the real parser (partial: the Lark grammar is not modelled)", "3.C15"),
 "C16": ("proof", "Coq theorems on the scenario-view model (effective value = own, else nearest ancestor scenario, else base; scenario without overrides = parent; an override is local to its subtree; the scenario loop touches one component) + every scenario of multi-scenario runs compared (dates and full ledger) with the single-scenario project of its effective values", "3.C16"),
 "C18": ("proof", "Coq theorems on the report-table model (rows = tasks in declaration order filtered by leaf flag; JSON cell = CSV cell for distinct titles; rendering does not change the schedule) + API and file renderings of generated reports compared with cells recomputed from the schedule and the ledger (partial: strftime/json/csv are oracles)", "3.C18"),
 "C19": ("proof", "Coq theorems on the decision table of 'plan report' (exit status per input class, stdout = render(auto report) with report_id = hash of the input, independence of channel and of own reports) + the real entry point as a subprocess over input classes x channels x formats (partial: click and the OS are runtime)", "3.C19"),
 "C20": ("proof", "Coq theorems: every exit path of the temp-file state machine removes what it created; runs over disjoint name sets commute under every interleaving (induction over the interleaving) + directory listings on every exit path and N concurrent real runs compared with solitary runs (partial: the concurrent runs are testing; name freshness is assumed)", "3.C20"),
 "C13": ("proof", "Coq theorems: each regenerated Cython function = its regenerated Python twin for all arguments in the no-wrap range (C ints written out as 32-bit wrap, cdivision semantics), return C types not narrower; tie: both sides regenerated every run + grid correspondence against the rebuilt .so and the fallback; whole projects with the extensions blocked", "3.C13"),
 "C17": ("proof", "Coq theorems on the regenerated functions: strict monotonicity, index(time(i)) = i, floor-inverse bracket, table covers [start, end], rejection / clamping, interval scanner (Python method and Cython kernel) = maximal runs of minimum length clipped to the window; tie: translator + exhaustive bounded grid on both twins", "3.C17"),
}
NOTE = ("trusted base: Coq 8.16.1 kernel + vm_compute for Examples; no axioms (Print Assumptions: closed under the global context); translator translate/py2v.py; "
        "extraction via ExtrOcamlBasic + ocaml drivers; the Python harness (generators, renderer, calendar recomputation, comparators); floats modelled as exact rationals; "
        "not modelled: Lark/grammar, zoneinfo, datetime/strftime, click, json/csv, the OS")

def main():
    checks = []
    for pid in sorted(T):
        cat, text, ref = T[pid]
        checks.append({"property_id": pid, "quick_cmd": f"./check {pid} --tier quick", "thorough_cmd": f"./check {pid} --tier thorough",
                       "evidence_file": f"/verif/evidence/{pid}.json", "replay_cmd_template": f"./check {pid} --replay {{path}}",
                       "engine": "coq+correspondence", "level_claimed": {"category": cat, "text": text, "design_ref": "DESIGN.md " + ref},
                       "level_note": NOTE, "technique": "machine-checked proof in Coq 8.16 on a regenerated/hand model + correspondence check against /repo"})
    allp = ["C%02d" % i for i in range(1, 21)]
    na = [{"property_id": p, "reason": "check under construction in this round (model and harness not finished yet)"} for p in allp if p not in T]
    m = {"version": 1,
         "setup_cmd": "cd /verif && ./tools/setup.sh",
         "hooks": {"guard": "SCRIPTPLAN_VERIF", "enable": "no hooks are needed: checks observe through the public object model, subprocesses and monkeypatching inside the harness workers (outside /repo)",
                   "baseline_off_cmd": "cd /repo && /venv/bin/python -m pytest -q -p no:cacheprovider", "source_commits": [], "add_only": True},
         "engines": [{"name": "coq+correspondence", "path": "/verif/check", "serves_properties": sorted(T),
                      "kind_free_text": "Coq 8.16 development under /verif/coq (Gen/ regenerated from /repo by translate/py2v.py on every run), extracted OCaml drivers, Python correspondence harness under /verif/harness"}],
         "checks": checks, "not_applicable": na,
         "notes": "every check rebuilds from /repo's working tree: rsync to a scratch dir, Cython extensions rebuilt from the current .pyx, Gen/*.v regenerated, full coq_makefile .vo build, extraction + ocamlfind. known_findings.json lists 31 fixed defects and 1 known finding (K01)."}
    json.dump(m, open("/verif/MANIFEST.json", "w"), indent=1)
    print(len(checks), "checks,", len(na), "not yet claimed")

main()
