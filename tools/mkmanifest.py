#!/usr/bin/env python3
"""Regenerate /verif/MANIFEST.json from the table below (one entry per claimed property)."""
import json

T = {
 "C01": ("proof", "Coq: C01_cell / C01_layout (every operation sequence on a ledger cell, exact rationals); C01_schedule, C01_alap (no (resource, slot) twice, forward and backward slot models); C01_subslot, C01_subslot_teams (the cell invariant holds in EVERY cell of every final ledger of the second-granularity models). Tie: operation sequences on the real bookResource/release code vs the extracted cell model; generated projects vs the extracted slot / second-granularity / team models; ledger oracle", "3.C01"),
 "C02": ("proof", "Coq: regenerated Python and Cython interval tests = declarative hours spec incl. cross-midnight; C02_schedule, C02_alap, C02_subslot(_teams) (bookings only in working slots); C02_calendar (calendar computed inside the model from hours, leaves, vacations, holidays, blocking bookings). Tie: translator; calendar recomputed by the harness (zoneinfo is an oracle); model correspondence. Known finding K01", "3.C02"),
 "C03": ("proof", "Coq: C03_exact_slots, C03_alap (exactly t_need whole-team blocks); C03_release (cell); C03_subslot (second granularity: one entry per booked slot, none elsewhere, effort - 3.6us <= sum x efficiency <= effort); C03_subslot_teams (every member the same seconds in every slot). Tie: extracted models vs implementation (dates to the second, ledger to the millisecond) + oracle (alternatives, ALAP at second granularity: oracle only)", "3.C03"),
 "C04": ("proof", "Coq: C04_asap, C04_alap (backward scheduler = mirror of the forward model), C04_subslot, C04_subslot_teams (gaps in seconds, mid-slot bounds; teams with limits). Tie: model correspondence on forward, backward and second-granularity projects + oracle (task-level ALAP: oracle only)", "3.C04"),
 "C05": ("proof", "Coq: regenerated period index = calendar day / Monday week for all starts and slots; C05_schedule, C05_alap (usage <= value per limit and period); C05_subslot / C05_subslot_ledger, C05_subslot_teams / C05_subslot_teams_ledger (second granularity, one resource and teams with tentative counting: a limit counts bookings; the cells holding counted work in a period are at most value many). Tie: translator + model correspondence + per-day / per-ISO-week aggregation of the implementation's ledger", "3.C05"),
 "C06": ("proof", "Coq: C06_frame, C06_alap (start < end, team booked in first and last slot, all bookings inside [start, end)); C06_subslot (+ overlap clauses of C03_subslot), C06_subslot_teams (start <= end for teams with limits). Tie: model correspondence + oracle (position inside shared slots via C01_layout; ALAP at second granularity: oracle)", "3.C06"),
 "C07": ("proof", "the extracted Coq list scheduler (Model/Sched.v) is the reference implementation the property names; Coq: C07_earliest_fit, C07_work_list_order (the work list = the leaf tasks by priority, ties in declaration order), C07_first_ready (each step serves the first ready task of that list). Tie: every project of the bounded universe (thorough) / a sample (quick) + random core projects; every disagreement is a failing input", "3.C07"),
 "C08": ("proof", "Coq: C08_asap, C08_alap (single unlimited resource), C08_asap_teams_and_limits, C08_alap_teams_and_limits (skipped slot => member off, member booked elsewhere, or a limit without room for the team, stated on the final ledger), C08_subslot, C08_subslot_teams (second granularity, one resource / teams with limits: skipped slot has a member that is off, full or closed by a limit in the final ledger). Tie: model correspondence + oracles c08 / c08_team", "3.C08"),
 "C09": ("proof", "Coq: C09_lowest_priority_harmless (simulation of the two runs), C09_served_last, C09_alap, C09_subslot (the same simulation at second granularity: efforts and offsets inside slots, limits counting bookings). Tie: two-run comparison on the implementation for random intruders (any declaration position, forward and backward)", "3.C09"),
 "C10": ("proof", "Coq: C10_summary, C10_alap, C10_subslot, C10_subslot_teams (container dates iff all leaves placed; min start / max end), C10_leaf_only. Tie: model correspondence on random trees + oracle at every nesting level (resource groups in allocations, containers of dated milestones)", "3.C10"),
 "C11": ("proof", "Coq: the models are total functions on structural fuel; C11_slots_in_horizon, C11_dates_in_horizon, C11_alap, C11_subslot. Partial: Lark, the transformer and everything before the scheduler are exercised by the infeasible-project generator and corrupted texts in isolated workers with time limits (testing, labelled so)", "3.C11"),
 "C12": ("proof", "Coq: C12_history (result independent of the process-global state left by any history), C12_needs_reset, C12_reschedule. Tie: histories in one interpreter, hash seeds, repeated schedule() on the implementation (partial: parser-object reuse, report bytes by runs)", "3.C12"),
 "C14": ("proof", "Coq: C14_working_table, C14_period_table, C14_period_index (invariant under whole-week shifts, no case analysis on month/year ends). Tie: shifted / unshifted runs for 13 offsets up to 300 weeks incl. year-end vacations and month bookings", "3.C14"),
 "C15": ("proof", "Coq: C15_rename_absolute/relative, C15_relative_absolute, C15_precedes, C15_bound_order_independent (Model/Parse.v). Tie: every written reference resolved by the EXTRACTED model vs _resolve_task_reference / _resolve_precedes; six meaning-preserving rewrites through the real parser (partial: Lark; comments, macros, inline shifts by rewrite runs)", "3.C15"),
 "C16": ("proof", "Coq: C16_same, C16_root_default, C16_local, C16_add (Model/Scenario.v). Tie: effective values computed by the EXTRACTED eff; every scenario of a multi-scenario run = the single-scenario project of its effective values (dates, ledger; horizon for the first scenario)", "3.C16"),
 "C18": ("proof", "Coq: C18_rows, C18_all_tasks, C18_cells, C18_json_csv (Model/Report.v). Tie: rows, order, header and JSON dict semantics computed by the EXTRACTED model from the harness's cell texts vs to_csv / to_json / generated files (partial: strftime, json, csv)", "3.C18"),
 "C19": ("proof", "Coq: C19_exit_status, C19_stdout_only_on_success, C19_report_id, C19_channel, C19_own_reports (Model/Cli.v). Tie: expected exit status / stdout / diagnostics of every run produced by the EXTRACTED plan_report; real entry point as a subprocess (partial: click, OS)", "3.C19"),
 "C20": ("proof", "Coq: C20_cleanup, C20_private_names, C20_commute (any interleaving of processes over disjoint names). Tie: temp-file creation/removal order observed with strace vs the EXTRACTED trace; directory listings on every exit path; N concurrent real runs (testing, labelled so). Known finding K02", "3.C20"),
 "C13": ("proof", "Coq: each regenerated Cython function = its regenerated Python twin in the no-wrap range (C ints as 32-bit wrap, cdivision semantics), return types not narrower. Tie: both twins regenerated every run; grid on both (rebuilt .so) and on the extracted functions; whole projects with the extensions blocked", "3.C13"),
 "C17": ("proof", "Coq: ten theorems on the regenerated index/time functions, C17_collect_python/_cython (= maximal runs of minimum length, clipped), C17_runs_are_the_maximal_runs. Tie: translator; grids incl. resolutions that do not divide a day", "3.C17"),
}
NOTE = ("trusted base: Coq 8.16.1 kernel + vm_compute for Examples; no axioms (Print Assumptions: closed under the global context); translator translate/py2v.py; "
        "extraction via ExtrOcamlBasic + ocaml drivers (gendriver, scheddriver, miscdriver); coqchk -o on all Props libraries: no axioms; the Python harness (generators, renderer, calendar recomputation, comparators); floats modelled as exact rationals; "
        "not modelled: Lark/grammar, zoneinfo, datetime/strftime, click, json/csv, the OS")

def main():
    checks = []
    for pid in sorted(T):
        cat, text, ref = T[pid]
        checks.append({"property_id": pid, "quick_cmd": f"./check {pid} --tier quick", "thorough_cmd": f"./check {pid} --tier thorough",
                       "evidence_file": f"/verif/evidence/{pid}.json", "replay_cmd_template": f"./check {pid} --replay {{path}}",
                       "engine": "coq+correspondence", "level_claimed": {"category": cat, "text": text, "design_ref": "DESIGN.md " + ref},
                       "level_note": NOTE, "technique": "machine-checked proof in Coq 8.16 on a regenerated/hand model + correspondence check against /repo"})
    allp = ["C%02d" % i for i in range(1, 21)]
    na = [{"property_id": p, "reason": "check under construction in this round (model and harness not finished yet)"} for p in allp if p not in T]
    m = {"version": 1,
         "setup_cmd": "cd /verif && ./tools/setup.sh",
         "hooks": {"guard": "SCRIPTPLAN_VERIF", "enable": "no hooks are needed: checks observe through the public object model, subprocesses and monkeypatching inside the harness workers (outside /repo)",
                   "baseline_off_cmd": "cd /repo && /venv/bin/python -m pytest -q -p no:cacheprovider", "source_commits": [], "add_only": True},
         "engines": [{"name": "coq+correspondence", "path": "/verif/check", "serves_properties": sorted(T),
                      "kind_free_text": "Coq 8.16 development under /verif/coq (Gen/ regenerated from /repo by translate/py2v.py on every run), extracted OCaml drivers, Python correspondence harness under /verif/harness"}],
         "checks": checks, "not_applicable": na,
         "notes": "every check rebuilds from /repo's working tree: rsync to a scratch dir, Cython extensions rebuilt from the current .pyx, Gen/*.v regenerated, full coq_makefile .vo build, extraction + ocamlfind. known_findings.json lists the repaired defects (fixed) and the known findings K01, K02 (K03 was repaired by F49)."}
    json.dump(m, open("/verif/MANIFEST.json", "w"), indent=1)
    print(len(checks), "checks,", len(na), "not yet claimed")

main()
