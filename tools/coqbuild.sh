#!/bin/bash
# Full .vo build of /verif/coq (no -vos). Usage: coqbuild.sh [make targets...]
cd /verif/coq || exit 2
# manual use: regenerate Gen/*.v from /repo first (the checks regenerate from their scratch copy and set VERIF_NO_REGEN)
[ -n "$VERIF_NO_REGEN" ] || python3 /verif/translate/py2v.py /repo /verif/coq/Gen >/dev/null || echo "TRANSLATOR FAILED"
{ echo "-R . SP"; find Base Gen Spec Model Proofs Props Extract -name '*.v' 2>/dev/null | sort; } > _CoqProject.new
cmp -s _CoqProject.new _CoqProject || { mv _CoqProject.new _CoqProject; coq_makefile -f _CoqProject -o Makefile >/dev/null; }
rm -f _CoqProject.new
[ -f Makefile ] || coq_makefile -f _CoqProject -o Makefile >/dev/null
timeout ${COQ_TIMEOUT:-900} make -k -j${COQ_JOBS:-12} "$@"
