(* The functional specification [runs] yields exactly the maximal runs of the predicate. *)
From Coq Require Import ZArith List Bool Lia.
Require Import SP.Spec.Runs.
Import ListNotations.
Open Scope Z_scope.

Section Char.
  Variable p : Z -> bool.

  Definition G (n : nat) (i : Z) (cur : option Z) (s e : Z) : Prop :=
    (cur = Some s /\ i <= e /\ e <= i + Z.of_nat n /\ (forall j, i <= j < e -> p j = true) /\
       (e = i + Z.of_nat n \/ p e = false))
    \/ (i <= s /\ s < e /\ e <= i + Z.of_nat n /\ (forall j, s <= j < e -> p j = true) /\
        ((s = i /\ cur = None) \/ (i < s /\ p (s - 1) = false)) /\ (e = i + Z.of_nat n \/ p e = false)).

  Ltac rs := repeat match goal with |- _ /\ _ => split end.

  Lemma runs_G : forall n i cur s e, In (s, e) (runs (pvals p i n) i cur) <-> G n i cur s e.
  Proof.
    induction n as [|n IH]; intros i cur s e.
    - cbn [pvals runs]. unfold G. destruct cur as [s0|]; cbn [In].
      + split.
        * intros [[= <- <-]|[]]. left. rs; try lia. intros j Hj; lia.
        * intros [(Hc & H1 & H2 & _)|(H1 & H2 & H3 & _)]; [|lia]. injection Hc as <-. left. f_equal. lia.
      + split; [intros []|]. intros [(Hc & _)|(H1 & H2 & H3 & _)]; [discriminate|lia].
    - cbn [pvals runs]. destruct (p i) eqn:Hpi.
      + rewrite IH. unfold G. rewrite Nat2Z.inj_succ. destruct cur as [s0|].
        * split.
          -- intros [(Hc & H1 & H2 & H3 & H4)|(H1 & H2 & H3 & H4 & H5 & H6)].
             ++ left. split; [exact Hc|]. rs; try lia.
                ** intros j Hj. destruct (Z.eq_dec j i) as [->|]; [exact Hpi|apply H3; lia].
                ** destruct H4; [left; lia|now right].
             ++ right. rs; try lia; [exact H4| |destruct H6; [left; lia|now right]].
                destruct H5 as [[_ Hn]|H5]; [discriminate|right; split; [lia|apply H5]].
          -- intros [(Hc & H1 & H2 & H3 & H4)|(H1 & H2 & H3 & H4 & H5 & H6)].
             ++ left. split; [exact Hc|].
                assert (e <> i) by (intros ->; destruct H4 as [H4|H4]; [lia|congruence]).
                rs; try lia; [intros j Hj; apply H3; lia|destruct H4; [left; lia|now right]].
             ++ destruct H5 as [[_ Hn]|[H5 H5']]; [discriminate|].
                assert (s <> i + 1) by (intros ->; replace (i + 1 - 1) with i in H5' by lia; congruence).
                right. rs; try lia; [exact H4|right; split; [lia|exact H5']|destruct H6; [left; lia|now right]].
        * split.
          -- intros [(Hc & H1 & H2 & H3 & H4)|(H1 & H2 & H3 & H4 & H5 & H6)].
             ++ injection Hc as <-. right. rs; try lia.
                ** intros j Hj. destruct (Z.eq_dec j i) as [->|]; [exact Hpi|apply H3; lia].
                ** left; split; reflexivity.
                ** destruct H4; [left; lia|now right].
             ++ destruct H5 as [[_ Hn]|[H5 H5']]; [discriminate|].
                right. rs; try lia; [exact H4|right; split; [lia|exact H5']|destruct H6; [left; lia|now right]].
          -- intros [(Hc & _)|(H1 & H2 & H3 & H4 & H5 & H6)]; [discriminate|].
             destruct H5 as [[-> _]|[H5 H5']].
             ++ left. split; [reflexivity|]. rs; try lia; [intros j Hj; apply H4; lia|destruct H6; [left; lia|now right]].
             ++ assert (s <> i + 1) by (intros ->; replace (i + 1 - 1) with i in H5' by lia; congruence).
                right. rs; try lia; [exact H4|right; split; [lia|exact H5']|destruct H6; [left; lia|now right]].
      + unfold G at 1. rewrite Nat2Z.inj_succ. destruct cur as [s0|].
        * cbn [In]. rewrite IH. unfold G. split.
          -- intros [[= <- <-]|[(Hc & _)|(H1 & H2 & H3 & H4 & H5 & H6)]]; [| discriminate |].
             ++ left. rs; try lia; [intros j Hj; lia|now right].
             ++ destruct H5 as [[-> _]|[H5 H5']].
                ** right. rs; try lia; [exact H4|right; split; [lia|replace (i + 1 - 1) with i by lia; exact Hpi]|destruct H6; [left; lia|now right]].
                ** right. rs; try lia; [exact H4|right; split; [lia|exact H5']|destruct H6; [left; lia|now right]].
          -- intros [(Hc & H1 & H2 & H3 & H4)|(H1 & H2 & H3 & H4 & H5 & H6)].
             ++ injection Hc as <-. left. f_equal.
                destruct (Z.eq_dec e i) as [|Hne]; [congruence|]. exfalso.
                assert (p i = true) by (apply H3; lia). congruence.
             ++ destruct H5 as [[_ Hn]|[H5 H5']]; [discriminate|].
                right. right.
                assert (s <> i) by lia.
                rs; try lia; [exact H4| |destruct H6; [left; lia|now right]].
                destruct (Z.eq_dec s (i + 1)) as [->|]; [left; split; reflexivity|right; split; [lia|exact H5']].
        * rewrite IH. unfold G. split.
          -- intros [(Hc & _)|(H1 & H2 & H3 & H4 & H5 & H6)]; [discriminate|].
             destruct H5 as [[-> _]|[H5 H5']].
             ++ right. rs; try lia; [exact H4|right; split; [lia|replace (i + 1 - 1) with i by lia; exact Hpi]|destruct H6; [left; lia|now right]].
             ++ right. rs; try lia; [exact H4|right; split; [lia|exact H5']|destruct H6; [left; lia|now right]].
          -- intros [(Hc & _)|(H1 & H2 & H3 & H4 & H5 & H6)]; [discriminate|].
             destruct H5 as [[-> _]|[H5 H5']].
             ++ exfalso. assert (p i = true) by (apply H4; lia). congruence.
             ++ right. rs; try lia; [exact H4| |destruct H6; [left; lia|now right]].
                destruct (Z.eq_dec s (i + 1)) as [->|]; [left; split; reflexivity|right; split; [lia|exact H5']].
  Qed.

  Theorem runs_char a n s e :
    In (s, e) (runs (pvals p a n) a None) <-> maximal_run p a (a + Z.of_nat n) s e.
  Proof.
    rewrite runs_G. unfold G, maximal_run. split.
    - intros [(Hc & _)|(H1 & H2 & H3 & H4 & H5 & H6)]; [discriminate|].
      rs; try lia; [exact H4| |exact H6].
      destruct H5 as [[-> _]|[_ H5]]; [now left|now right].
    - intros (H1 & H2 & H3 & H4 & H5 & H6). right. rs; try lia; [exact H4| |exact H6].
      destruct (Z.eq_dec s a) as [->|]; [left; split; reflexivity|right; split; [lia|]].
      destruct H5; [lia|assumption].
  Qed.
End Char.
