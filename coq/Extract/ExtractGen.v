(* Extraction of the regenerated leaf functions for the translator-validation correspondence.
   ExtrOcamlBasic only; Z stays Coq's own datatype.  No Extract Constant / Extract Inductive
   directives beyond those of ExtrOcamlBasic (bool, option, unit, prod, list, sumbool). *)
From Coq Require Import ZArith List Bool ExtrOcamlBasic.
Require Import SP.Base.PyRt SP.Gen.ScoreboardCy SP.Gen.ScoreboardPy SP.Gen.TimeUtilsCy SP.Gen.ProjectPy
               SP.Gen.WorkingHoursCy SP.Gen.WorkingHoursPy SP.Gen.LimitsPy.
Extraction Language OCaml.

Extraction "Extract/ocaml/gen.ml"
  Scoreboard_size Scoreboard_idxToDate_py Scoreboard_idxToDate_cy Scoreboard_dateToIdx_py Scoreboard_dateToIdx_cy
  Scoreboard_collectIntervals_py Scoreboard_collectIntervals_cy
  date_to_idx_fast idx_to_date_fast collect_intervals_fast
  project_date_to_idx project_idx_to_date scoreboard_size_cy is_working_time_fast
  Project_dateToIdx_py Project_dateToIdx_cy Project_idxToDate_py Project_idxToDate_cy Project_scoreboardSize_nosb
  check_working_hours_fast calculate_daily_minutes_cy
  WorkingHours_onShift_local_py WorkingHours_onShift_local_cy
  WorkingHours_get_daily_minutes_py WorkingHours_get_daily_minutes_cy
  Limit_idx_to_sb_idx.
