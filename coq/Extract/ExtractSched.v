(* Extraction of the scheduler model and the ledger model.  ExtrOcamlBasic only. *)
From Coq Require Import ZArith QArith List Bool ExtrOcamlBasic.
Require Import SP.Model.Sched SP.Model.SchedIO SP.Model.Ledger SP.Model.Alap SP.Model.SubSlot SP.Model.SubSlotTeam.
Extraction Language OCaml.
Extraction "Extract/ocaml/sched.ml" mk_resource mk_resource_cal mk_limit all_results all_bookings schedule dates alap_results alap_bookings sall_results tall_results mk_slimit Qred
  Ledger.run Ledger.step Ledger.empty.
