(* Extraction of the small models (reference resolution, scenario values, report table, plan decision
   function, temp-file trace) for the correspondence checks C15, C16, C18, C19, C20.  ExtrOcamlBasic only. *)
From Coq Require Import List Bool Arith ExtrOcamlBasic.
Require Import SP.Model.Parse SP.Model.Scenario SP.Model.Report SP.Model.Cli.
Extraction Language OCaml.
Extraction "Extract/ocaml/misc.ml" resolve_abs resolve_rel eff body to_csv to_json dict_last plan_report trace apply_ops.
