(* Teams at second granularity: all members of a team are booked for the same seconds in every slot. *)
From Coq Require Import QArith Qround Qminmax List Bool Arith ZArith Lia Lqa.
Require Import SP.Model.Ledger SP.Proofs.LedgerProofs SP.Model.SubSlot SP.Model.SubSlotTeam SP.Proofs.SubSlotProofs
               SP.Proofs.SubSlotTeamProofs.
Import ListNotations.

Section TeamEffort.
  Variable p : tproject.
  Hypothesis Hwf : twf p.
  Local Notation G := (inject_Z (tp_G p)).

  Definition pre (first : bool) (off : Q) (c : cell) : cell := if first then step G c (Offset off) else c.
  Definition free (o : Q) (c : cell) : Q := Qmax 0 (G - Qmax (used c) o).

  Lemma common_le o st slot : forall team m r,
    common_secs G o st slot team = Some m -> In r team -> m <= free o (cells st r slot).
  Proof.
    induction team as [|r0 tl IH]; intros m r H Hin; [destruct Hin|]. cbn [common_secs] in H. fold (free o (cells st r0 slot)) in H.
    destruct (common_secs G o st slot tl) as [m'|] eqn:E; injection H as <-.
    - destruct Hin as [<-|Hin]; [apply Q.le_min_l|].
      eapply Qle_trans; [apply Q.le_min_r|]. now apply IH.
    - destruct Hin as [<-|Hin]; [lra|]. destruct tl as [|a tl']; [destruct Hin|].
      cbn [common_secs] in E. destruct (common_secs G o st slot tl'); discriminate.
  Qed.

  Lemma common_pos o st slot : forall team m,
    (forall r, In r team -> 0 < free o (cells st r slot)) -> common_secs G o st slot team = Some m -> 0 < m.
  Proof.
    induction team as [|r0 tl IH]; intros m Hf H; cbn [common_secs] in H; [discriminate|]. fold (free o (cells st r0 slot)) in H.
    destruct (common_secs G o st slot tl) as [m'|] eqn:E; injection H as <-.
    - apply Q.min_glb_lt; [apply Hf; now left|]. apply IH; [intros r Hr; apply Hf; now right|reflexivity].
    - apply Hf. now left.
  Qed.

  (* the used seconds of a member's cell once the offset of the first slot is written *)
  Lemma pre_used first off c : used (pre first off c) == Qmax (used c) (if first then off else 0) \/
                               (first = false /\ used (pre first off c) = used c).
  Proof.
    unfold pre. destruct first; [left|right; split; reflexivity].
    Local Transparent step. cbn [step]. Local Opaque step.
    destruct (Qlt_le_dec (used c) off) as [L|L]; cbn [used].
    - symmetry. apply Q.max_r. lra.
    - symmetry. apply Q.max_l. exact L.
  Qed.

  Lemma pre_entries first off c : entries (pre first off c) = entries c.
  Proof.
    unfold pre. destruct first; [|reflexivity].
    Local Transparent step. cbn [step]. Local Opaque step. destruct (Qlt_le_dec (used c) off); reflexivity.
  Qed.

  Lemma pre_avail first off c : Inv G c -> 0 <= off ->
    avail G (pre first off c) == free (if first then off else 0) c.
  Proof.
    intros (U1 & _) Ho. unfold avail, free. destruct (pre_used first off c) as [E|[-> E]].
    - now rewrite E.
    - rewrite E. assert (Qmax (used c) 0 == used c) by (apply Q.max_l; exact U1). now rewrite H.
  Qed.
  Lemma pre_used_ge first off c : used c <= used (pre first off c).
  Proof.
    unfold pre. destruct first; [|lra].
    Local Transparent step. cbn [step]. Local Opaque step. destruct (Qlt_le_dec (used c) off); cbn [used]; lra.
  Qed.

  (* one member whose cell has not been touched in this slot yet *)
  Lemma book_one t off (first : bool) m c0 :
    Inv G c0 -> tol_avail < G - used c0 -> refused c0 = false ->
    0 <= off -> tol_avail < G - off -> 0 < m -> m <= free (if first then off else 0) c0 ->
    let c1 := pre first off c0 in
    let c2 := step G c1 (Book t (Some m)) in
    entries c2 = entries c0 ++ [(t, Qmin (avail G c1) m)] /\ Qmin (avail G c1) m == m /\
    (Qle_bool (G - used c1) tol_avail || Nat.eqb (length (entries c2)) (length (entries c1))) = false.
  Proof.
    intros Hinv Ha Hr Ho1 Ho2 Hm1 Hm2 c1 c2.
    pose proof (pre_avail first off c0 Hinv Ho1) as Hav. fold c1 in Hav.
    assert (Hpos : 0 < avail G c1) by (rewrite Hav; lra).
    assert (Hmin : Qmin (avail G c1) m == m) by (apply Q.min_r; rewrite Hav; exact Hm2).
    assert (Hu1 : tol_avail < G - used c1).
    { destruct (pre_used first off c0) as [E|[-> E]]; fold c1 in E.
      - rewrite E. destruct first.
        + destruct (Q.max_spec (used c0) off) as [[_ M]|[_ M]]; rewrite M; assumption.
        + destruct Hinv as (U1 & _). rewrite Q.max_l by exact U1. exact Ha.
      - rewrite E. exact Ha. }
    assert (Hent : entries c2 = entries c0 ++ [(t, Qmin (avail G c1) m)]).
    { unfold c2. Local Transparent step. cbn [step]. Local Opaque step.
      assert (Hnr : match entries c1 with [] => false | _ :: _ => if Qlt_le_dec 0 (used c1) then false else true end = false).
      { unfold c1. rewrite pre_entries. unfold refused in Hr. destruct (entries c0); [reflexivity|].
        destruct (Qlt_le_dec 0 (used c0)) as [L|L]; [|discriminate].
        pose proof (pre_used_ge first off c0). destruct (Qlt_le_dec 0 (used (pre first off c0))); [reflexivity|lra]. }
      rewrite Hnr. destruct (Qlt_le_dec 0 (avail G c1)) as [L|L]; [|lra]. cbn [entries]. unfold c1. now rewrite pre_entries. }
    split; [exact Hent|]. split; [exact Hmin|].
    apply orb_false_iff. split.
    - destruct (Qle_bool (G - used c1) tol_avail) eqn:E; [|reflexivity]. apply Qle_bool_iff in E. lra.
    - rewrite Hent. unfold c1. rewrite pre_entries, app_length. cbn [length]. apply Nat.eqb_neq. lia.
  Qed.
  Lemma tcells_set_same st r s c : cells (set_cell st r s c) r s = c.
  Proof. cbn. now rewrite !Nat.eqb_refl. Qed.
  Lemma tcells_set_other st r s c r' s' : (r' <> r \/ s' <> s) -> cells (set_cell st r s c) r' s' = cells st r' s'.
  Proof.
    intros H. cbn. destruct (Nat.eqb_spec r' r); [|reflexivity]. destruct (Nat.eqb_spec s' s); [|reflexivity].
    destruct H; contradiction.
  Qed.

  (* when the gate has passed and the cap is the common seconds, every member is booked, in order *)
  Lemma book_members_full t off (first : bool) m slot : 0 <= off -> tol_avail < G - off -> 0 < m ->
    forall team st0 cur,
      NoDup team ->
      (forall r, In r team -> cells cur r slot = cells st0 r slot) ->
      team_gate p st0 t slot (sbooked cur) team = true ->
      (forall r, In r team -> sr_work (tres_of p r) slot = true /\ Inv G (cells st0 r slot) /\
                              tol_avail < G - used (cells st0 r slot) /\ refused (cells st0 r slot) = false /\
                              m <= free (if first then off else 0) (cells st0 r slot)) ->
      exists st',
        book_members p t off first (Some m) slot team cur =
          (st', map (fun r => (r, Qmin (G - used (pre first off (cells st0 r slot))) m, used (pre first off (cells st0 r slot)))) team) /\
        (forall r, In r team -> cells st' r slot = step G (pre first off (cells st0 r slot)) (Book t (Some m))) /\
        (forall r' s', (~ In r' team \/ s' <> slot) -> cells st' r' s' = cells cur r' s') /\
        splaced st' = splaced cur.
  Proof.
    intros Ho1 Ho2 Hm. induction team as [|r tl IH]; intros st0 cur Hnd Hsame Hg Hok.
    - exists cur. cbn [book_members map]. repeat split; intros; try reflexivity. destruct H.
    - inversion Hnd as [|? ? Hnr Hnd']; subst.
      destruct (Hok r (or_introl eq_refl)) as (Ew & Hinv & Ha & Hr & Hfree).
      cbn [book_members map]. rewrite Ew. rewrite (Hsame r (or_introl eq_refl)).
      set (c0 := cells st0 r slot) in *.
      destruct (book_one t off first m c0 Hinv Ha Hr Ho1 Ho2 Hm Hfree) as (Hent & Hmin & Hb).
      fold (pre first off c0). cbn zeta in Hb. rewrite Hb.
      cbn [team_gate] in Hg. apply andb_true_iff in Hg as [Hg Hgtl]. apply andb_true_iff in Hg as [_ Hlim].
      rewrite Hlim. cbn [negb orb].
      set (c2 := step G (pre first off c0) (Book t (Some m))) in *.
      destruct (IH st0 (note_booking (set_cell cur r slot c2) t r slot) Hnd') as (st' & E & A & B & C).
      + intros r' Hr'. rewrite cells_note, tcells_set_other; [apply Hsame; now right|]. left. intros ->. contradiction.
      + exact Hgtl.
      + intros r' Hr'. apply Hok. now right.
      + rewrite cells_note in B. change (splaced (note_booking (set_cell cur r slot c2) t r slot)) with (splaced cur) in C.
        exists st'. rewrite E. split; [reflexivity|]. split; [|split].
        * intros r' [<-|Hr']; [|now apply A].
          rewrite B by (left; exact Hnr). apply tcells_set_same.
        * intros r' s' Hrs. rewrite B.
          -- apply tcells_set_other. destruct Hrs as [Hn|Hs]; [left; intros ->; apply Hn; now left|now right].
          -- destruct Hrs as [Hn|Hs]; [left; intros Hin; apply Hn; now right|now right].
        * rewrite C. reflexivity.
  Qed.
  Lemma release_members_cells t needed slot : forall (l : list (nat * Q * Q)) st,
    NoDup (map (fun x => fst (fst x)) l) ->
    (forall x, In x l -> cells (release_members G t needed slot l st) (fst (fst x)) slot
                         = step G (cells st (fst (fst x)) slot) (Finish t needed)) /\
    (forall r' s', (~ In r' (map (fun x => fst (fst x)) l) \/ s' <> slot) ->
                   cells (release_members G t needed slot l st) r' s' = cells st r' s') /\
    splaced (release_members G t needed slot l st) = splaced st.
  Proof.
    unfold release_members. induction l as [|x tl IH]; intros st Hnd; cbn [fold_left map].
    - repeat split; intros; try reflexivity. destruct H.
    - cbn [map] in Hnd. inversion Hnd as [|? ? Hnx Hnd']; subst.
      set (st1 := set_cell st (fst (fst x)) slot (step G (cells st (fst (fst x)) slot) (Finish t needed))).
      destruct (IH st1 Hnd') as (A & B & C). split; [|split].
      + intros y [<-|Hy].
        * rewrite B by (left; exact Hnx). unfold st1. apply tcells_set_same.
        * rewrite (A y Hy). unfold st1. rewrite tcells_set_other; [reflexivity|]. left. intros E. apply Hnx.
          rewrite <- E. apply in_map_iff. exists y. split; [reflexivity|exact Hy].
      + intros r' s' H. rewrite B.
        * unfold st1. apply tcells_set_other. destruct H as [Hn|Hs]; [left; intros ->; apply Hn; now left|now right].
        * destruct H as [Hn|Hs]; [left; intros Hin; apply Hn; now right|now right].
      + rewrite C. reflexivity.
  Qed.
  (* ------------------------------------------------------------ maxima *)
  Lemma fold_qmax_ext : forall l l' a a', Forall2 Qeq l l' -> a == a' -> fold_left Qmax l a == fold_left Qmax l' a'.
  Proof.
    induction l as [|x l IH]; intros l' a a' H Ha; inversion H; subst; cbn [fold_left]; [exact Ha|].
    apply IH; [assumption|]. now rewrite Ha, H2.
  Qed.

  Lemma fold_qmax_scale m : 0 <= m -> forall l a, fold_left Qmax (map (fun x => m * x) l) (m * a) == m * fold_left Qmax l a.
  Proof.
    intros Hm. induction l as [|x l IH]; intros a; cbn [fold_left map]; [reflexivity|].
    rewrite <- IH. apply fold_qmax_ext; [clear; induction (map (fun x0 => m * x0) l); constructor; [reflexivity|assumption]|].
    destruct (Q.max_spec a x) as [[L E]|[L E]]; rewrite E.
    - apply Q.max_r. rewrite !(Qmult_comm m). apply Qmult_le_compat_r; lra.
    - apply Q.max_l. rewrite !(Qmult_comm m). apply Qmult_le_compat_r; lra.
  Qed.
  (* ------------------------------------------------------------ one slot of a team of two or more *)
  Definition multi (team : list nat) : bool := match team with _ :: _ :: _ => true | _ => false end.

  Lemma gate_spec st t slot : forall team ev, team_gate p st t slot ev team = true ->
    forall r, In r team -> sr_work (tres_of p r) slot = true /\ tol_avail < G - used (cells st r slot) /\
                           refused (cells st r slot) = false.
  Proof.
    induction team as [|r0 tl IH]; intros ev H r Hr; [destruct Hr|]. cbn [team_gate] in H.
    apply andb_true_iff in H as [H Htl]. apply andb_true_iff in H as [H _].
    destruct Hr as [<-|Hr]; [|eapply IH; eassumption].
    unfold member_available in H. cbn zeta in H.
    apply andb_true_iff in H as [H H3]. apply andb_true_iff in H as [H1 H2].
    split; [exact H1|]. split.
    - apply negb_true_iff in H2. apply Qnot_le_lt. intros L. apply Qle_bool_iff in L. congruence.
    - now apply negb_true_iff in H3.
  Qed.

  Lemma free_pos o c : 0 <= o -> tol_avail < G - o -> tol_avail < G - used c -> tol_avail < free o c.
  Proof.
    intros Ho H1 H2. unfold free. destruct (Q.max_spec (used c) o) as [[_ M]|[_ M]]; rewrite M;
      (rewrite Q.max_r; [assumption|unfold tol_avail in *; lra]).
  Qed.

  (* the state after the whole team has booked slot [slot]: every member's cell got one more entry of t, all of
     the same length (== the common seconds m), nothing else changed *)
  Lemma team_slot t off (first : bool) slot team st : multi team = true -> NoDup team -> TInv p st ->
    0 <= off -> tol_avail < G - off ->
    team_gate p st t slot (sbooked st) team = true ->
    exists m st1 booked,
      common_secs G (if first then off else 0) st slot team = Some m /\
      book_members p t off first (Some m) slot team st = (st1, booked) /\
      0 < m /\ m <= G /\ booked <> [] /\ map (fun x => fst (fst x)) booked = team /\
      qmax_list (map (fun x => snd (fst x) * sr_eff (tres_of p (fst (fst x)))) booked) == m * team_eff p team /\
      (forall r, In r team -> exists xr, xr == m /\
         entries (cells st1 r slot) = entries (cells st r slot) ++ [(t, xr)]) /\
      (forall r' s', (~ In r' team \/ s' <> slot) -> cells st1 r' s' = cells st r' s') /\
      (forall x, In x booked -> 0 <= snd x) /\
      splaced st1 = splaced st.
  Proof.
    intros Hmulti Hnd Hi Ho1 Ho2 Hgate.
    set (o := if first then off else 0).
    assert (Ho : 0 <= o /\ tol_avail < G - o).
    { unfold o. destruct first; [split; assumption|]. split; [lra|]. pose proof (tG_pos p Hwf). unfold tol_avail in *.
      assert (1 <= G). { change 1 with (inject_Z 1). rewrite <- Zle_Qle. pose proof (twf_G p Hwf). lia. } lra. }
    destruct (common_secs G o st slot team) as [m|] eqn:Ec;
      [|exfalso; destruct team as [|r0 tl]; [discriminate Hmulti|]; cbn [common_secs] in Ec;
        destruct (common_secs G o st slot tl); discriminate Ec].
    assert (Hfree : forall r, In r team -> tol_avail < free o (cells st r slot)).
    { intros r Hr. destruct (gate_spec _ _ _ _ _ Hgate r Hr) as (_ & A & _). apply free_pos; [apply Ho|apply Ho|exact A]. }
    assert (Hm : 0 < m).
    { eapply common_pos; [|exact Ec]. intros r Hr. specialize (Hfree r Hr). unfold tol_avail in Hfree. lra. }
    destruct (book_members_full t off first m slot Ho1 Ho2 Hm team st st Hnd (fun _ _ => eq_refl) Hgate) as (st1 & E & A & B & C).
    { intros r Hr. destruct (gate_spec _ _ _ _ _ Hgate r Hr) as (G1 & G2 & G3).
      split; [exact G1|]. split; [apply Hi|]. split; [exact G2|]. split; [exact G3|]. eapply common_le; eassumption. }
    exists m, st1, (map (fun r => (r, Qmin (G - used (pre first off (cells st r slot))) m, used (pre first off (cells st r slot)))) team).
    assert (Hamt : forall r, In r team -> Qmin (G - used (pre first off (cells st r slot))) m == m).
    { intros r Hr. apply Q.min_r. destruct (gate_spec _ _ _ _ _ Hgate r Hr) as (_ & G2 & _).
      pose proof (common_le _ _ _ _ _ _ Ec Hr) as Hle. fold o in Hle.
      pose proof (pre_avail first off (cells st r slot) (proj1 Hi r slot) Ho1) as Hav. fold o in Hav.
      specialize (Hfree r Hr). unfold avail in Hav.
      assert (0 < G - used (pre first off (cells st r slot))).
      { destruct (Q.max_spec 0 (G - used (pre first off (cells st r slot)))) as [[L M]|[L M]]; rewrite M in Hav; [exact L|].
        unfold tol_avail in Hfree. lra. }
      rewrite Q.max_r in Hav by lra. lra. }
    split; [reflexivity|]. split; [exact E|]. split; [exact Hm|]. split.
    { destruct team as [|r0 tl]; [discriminate|]. pose proof (common_le _ _ _ _ _ r0 Ec (or_introl eq_refl)) as Hle.
      unfold free in Hle. pose proof (proj1 Hi r0 slot) as (U1 & _).
      assert (Qmax 0 (G - Qmax (used (cells st r0 slot)) o) <= G).
      { apply Q.max_lub; [apply Qlt_le_weak, (tG_pos p Hwf)|]. pose proof (Q.le_max_l (used (cells st r0 slot)) o). lra. }
      lra. }
    split; [destruct team; [discriminate|cbn; discriminate]|].
    split; [rewrite map_map; cbn [fst]; apply map_id|].
    split.
    { rewrite map_map. cbn [fst snd]. unfold team_eff, qmax_list.
      rewrite <- (fold_qmax_scale m (Qlt_le_weak _ _ Hm)). rewrite map_map.
      apply fold_qmax_ext; [|ring].
      clear - Hamt. induction team as [|r tl IH]; cbn [map]; constructor.
      - rewrite (Hamt r (or_introl eq_refl)). reflexivity.
      - apply IH. intros r' Hr'. apply Hamt. now right. }
    split.
    { intros r Hr. rewrite (A r Hr).
      destruct (gate_spec _ _ _ _ _ Hgate r Hr) as (G1 & G2 & G3).
      destruct (book_one t off first m (cells st r slot) (proj1 Hi r slot) G2 G3 Ho1 Ho2 Hm (common_le _ _ _ _ _ _ Ec Hr)) as (He & Hmin & _).
      eexists. split; [exact Hmin|exact He]. }
    split; [exact B|]. split; [|exact C].
    intros x Hx. apply in_map_iff in Hx as (r & <- & Hr). cbn [snd]. pose proof (pre_used_ge first off (cells st r slot)).
    pose proof (proj1 Hi r slot) as (U1 & _). lra.
  Qed.
  Lemma team_eff_pos' team : team <> [] -> 0 < team_eff p team.
  Proof. apply (team_eff_pos p Hwf). Qed.

  Local Opaque step.
  Lemma twalk_team_spec t team off : multi team = true -> NoDup team -> 0 <= off -> tol_avail < G - off ->
    forall need fuel slot done start st st' d,
      0 <= done -> done < need -> TInv p st ->
      twalk p t team (team_eff p team) need off fuel slot done start st = (st', Some d) ->
      exists bs : list (nat * Q),
        bs <> [] /\ NoDup (map fst bs) /\
        (forall s x, In (s, x) bs -> (slot <= s)%nat /\ 0 < x /\ x <= G /\
           forall r, In r team -> sr_work (tres_of p r) s = true /\
                                  exists xr, xr == x /\ tent t (cells st' r s) = tent t (cells st r s) ++ [(t, xr)]) /\
        (forall r' s', (~ In r' team \/ ~ In s' (map fst bs)) -> tent t (cells st' r' s') = tent t (cells st r' s')) /\
        (forall u r' s', u <> t -> tent u (cells st' r' s') = tent u (cells st r' s')) /\
        need - tol_done <= done + sumq (map snd bs) * team_eff p team /\
        done + sumq (map snd bs) * team_eff p team <= need.
  Proof.
    intros Hmulti Hnd Ho1 Ho2 need.
    assert (Hne : team <> []) by (destruct team; [discriminate|discriminate]).
    pose proof (team_eff_pos' team Hne) as He. set (e := team_eff p team) in *.
    induction fuel as [|fuel IH]; intros slot done start st st' d Hd1 Hd2 Hi H; cbn [twalk] in H; [discriminate|].
    fold (multi team) in H. rewrite Hmulti in H. cbn [andb] in H.
    destruct (team_gate p st t slot (sbooked st) team) eqn:Eg; cbn [negb] in H.
    2:{ destruct (IH (S slot) done start st st' d Hd1 Hd2 Hi H) as (bs & B1 & B2 & B3 & B4 & B5 & B6 & B7).
        exists bs. split; [exact B1|]. split; [exact B2|]. split; [|repeat split; assumption].
        intros s x Hin. destruct (B3 s x Hin) as (A1 & A2). split; [lia|exact A2]. }
    destruct (team_slot t off (Qeq_bool done 0) slot team st Hmulti Hnd Hi Ho1 Ho2 Eg)
      as (m & st1 & booked & Ec & Eb & Hm & HmG & Hbne & Hbteam & Hgain & Hent & Hframe & Hub & Hpl).
    fold e in Hgain. rewrite Ec, Eb in H.
    destruct booked as [|x0 bk] eqn:Ebk; [contradiction|]. rewrite <- Ebk in *. clear Hbne.
    assert (Hi1 : TInv p st1).
    { eapply (book_members_inv p Hwf t off _ (Some m) slot Ho1); [| |exact Hi|exact Eb].
      - unfold tol_avail in Ho2. pose proof (tG_pos p Hwf). lra.
      - intros m' [= <-]. lra. }
    assert (Hwork : forall r, In r team -> sr_work (tres_of p r) slot = true).
    { intros r Hr. now destruct (gate_spec _ _ _ _ _ Eg r Hr). }
    assert (Hother1 : forall u r' s', u <> t -> tent u (cells st1 r' s') = tent u (cells st r' s')).
    { intros u r' s' Hu. destruct (in_dec Nat.eq_dec r' team) as [Hr|Hr]; [destruct (Nat.eq_dec s' slot) as [->|Hs]|].
      - destruct (Hent r' Hr) as (xr & _ & Ee). unfold tent. rewrite Ee, filter_app. cbn [filter fst].
        destruct (Nat.eqb_spec t u); [congruence|]. apply app_nil_r.
      - now rewrite Hframe by (right; exact Hs).
      - now rewrite Hframe by (left; exact Hr). }
    assert (Hself1 : forall r, In r team -> exists xr, xr == m /\ tent t (cells st1 r slot) = tent t (cells st r slot) ++ [(t, xr)]).
    { intros r Hr. destruct (Hent r Hr) as (xr & E1 & E2). exists xr. split; [exact E1|].
      unfold tent. rewrite E2, filter_app. cbn [filter fst]. now rewrite Nat.eqb_refl. }
    set (gained := qmax_list (map (fun x => snd (fst x) * sr_eff (tres_of p (fst (fst x)))) booked)) in *.
    rewrite Ebk in H. rewrite <- Ebk in H. fold gained in H.
    destruct (Qle_bool (need - tol_done) (done + gained)) eqn:Ef.
    - (* the team finishes in this slot *)
      apply Qle_bool_iff in Ef. injection H as <- _.
      set (needed := Qmin ((need - done) / e) G) in *.
      assert (Hq : 0 < (need - done) / e) by (apply Qlt_shift_div_l; [exact He|]; rewrite Qmult_0_l; lra).
      assert (Hn0 : 0 < needed) by (apply Q.min_glb_lt; [exact Hq|apply (tG_pos p Hwf)]).
      assert (Hndb : NoDup (map (fun x => fst (fst x)) booked)) by (rewrite Hbteam; exact Hnd).
      destruct (release_members_cells t needed slot booked st1 Hndb) as (R1 & R2 & R3).
      assert (Hk : Qmin needed m * e == Qmin (need - done) (m * e)).
      { unfold needed.
        assert (E1 : Qmin (Qmin ((need - done) / e) G) m == Qmin ((need - done) / e) m).
        { destruct (Q.min_spec ((need - done) / e) G) as [[M1 M2]|[M1 M2]]; rewrite M2; [reflexivity|].
          rewrite (Q.min_r G m) by exact HmG. rewrite Q.min_r; [reflexivity|lra]. }
        rewrite E1. assert (Hfe : (need - done) / e * e == need - done) by (field; lra).
        destruct (Q.min_spec ((need - done) / e) m) as [[M1 M2]|[M1 M2]]; rewrite M2.
        - assert (need - done < m * e) by (rewrite <- Hfe; apply Qmult_lt_r; assumption).
          rewrite Q.min_l by lra. exact Hfe.
        - assert (m * e <= need - done) by (rewrite <- Hfe; apply Qmult_le_r; assumption).
          rewrite Q.min_r by lra. reflexivity. }
      exists [(slot, Qmin needed m)]. cbn [map fst snd sumq].
      split; [discriminate|]. split; [constructor; [intros []|constructor]|].
      split; [|split; [|split; [|split]]].
      + intros s x [Hin|[]]. injection Hin as <- <-. split; [lia|].
        split; [apply Q.min_glb_lt; assumption|]. split; [pose proof (Q.le_min_r needed m); lra|].
        intros r Hr. split; [now apply Hwork|].
        assert (Hin : exists x, In x booked /\ fst (fst x) = r).
        { rewrite <- Hbteam in Hr. apply in_map_iff in Hr as (x & E & Hx). eauto. }
        destruct Hin as (x & Hx & <-). rewrite (R1 x Hx).
        destruct (Hent (fst (fst x))) as (xr & E1 & E2); [rewrite <- Hbteam; apply in_map_iff; eauto|].
        exists (Qmin needed xr). split; [now rewrite E1|].
        unfold tent. Local Transparent step. cbn [step]. Local Opaque step.
        rewrite E2, release_last_snoc. cbn [entries]. rewrite !filter_app. cbn [filter fst]. now rewrite Nat.eqb_refl.
      + intros r' s' Hrs. destruct (in_dec Nat.eq_dec r' team) as [Hr|Hr].
        * destruct Hrs as [Hn|Hs]; [contradiction|].
          assert (s' <> slot) by (intros ->; apply Hs; now left).
          rewrite R2 by (right; assumption). now rewrite Hframe by (right; assumption).
        * rewrite R2 by (left; rewrite Hbteam; exact Hr). now rewrite Hframe by (left; exact Hr).
      + intros u r' s' Hu.
        destruct (in_dec Nat.eq_dec r' team) as [Hr|Hr]; [destruct (Nat.eq_dec s' slot) as [->|Hs]|].
        * assert (Hin : exists x, In x booked /\ fst (fst x) = r').
          { rewrite <- Hbteam in Hr. apply in_map_iff in Hr as (x & E & Hx). eauto. }
          destruct Hin as (x & Hx & <-). rewrite (R1 x Hx), tent_finish_other by exact Hu. now apply Hother1.
        * rewrite R2 by (right; exact Hs). now apply Hother1.
        * rewrite R2 by (left; rewrite Hbteam; exact Hr). now apply Hother1.
      + rewrite Qplus_0_r, Hk. rewrite Hgain in Ef.
        destruct (Q.min_spec (need - done) (m * e)) as [[M1 M2]|[M1 M2]]; rewrite M2; unfold tol_done in *; lra.
      + rewrite Qplus_0_r, Hk. pose proof (Q.le_min_l (need - done) (m * e)). lra.
    - (* the team goes on with the next slot *)
      assert (Hf : ~ need - tol_done <= done + gained) by (intros Hle; apply Qle_bool_iff in Hle; congruence).
      apply Qnot_le_lt in Hf.
      assert (Hg0 : 0 < gained) by (rewrite Hgain; apply Qmult_lt_0_compat; assumption).
      destruct (IH (S slot) (done + gained) (Some (match start with Some s0 => s0 | None => (Z.of_nat slot * tp_G p + Qfloor off)%Z end)) st1 st' d)
        as (bs & B1 & B2 & B3 & B4 & B5 & B6 & B7); [lra|unfold tol_done in Hf; lra|exact Hi1|exact H|].
      assert (Hge : forall s, In s (map fst bs) -> (S slot <= s)%nat).
      { intros s Hin. apply in_map_iff in Hin as ([s' x'] & <- & Hin). destruct (B3 s' x' Hin) as (A1 & _). exact A1. }
      assert (Hnot : ~ In slot (map fst bs)) by (intros Hin; apply Hge in Hin; lia).
      exists ((slot, m) :: bs). cbn [map fst snd sumq].
      split; [discriminate|]. split; [constructor; assumption|].
      split; [|split; [|split; [|split]]].
      + intros s x [Hin|Hin].
        * injection Hin as <- <-. split; [lia|]. split; [exact Hm|]. split; [exact HmG|].
          intros r Hr. split; [now apply Hwork|]. destruct (Hself1 r Hr) as (xr & E1 & E2).
          exists xr. split; [exact E1|]. rewrite (B4 r slot) by (right; exact Hnot). exact E2.
        * destruct (B3 s x Hin) as (A1 & A2 & A3 & A4). split; [lia|]. split; [exact A2|]. split; [exact A3|].
          intros r Hr. destruct (A4 r Hr) as (W & xr & E1 & E2). split; [exact W|]. exists xr. split; [exact E1|].
          rewrite E2. rewrite Hframe by (right; lia). reflexivity.
      + intros r' s' Hrs. rewrite B4.
        * destruct (in_dec Nat.eq_dec r' team) as [Hr|Hr].
          -- destruct Hrs as [Hn|Hs]; [contradiction|]. rewrite Hframe; [reflexivity|]. right. intros ->. apply Hs. now left.
          -- now rewrite Hframe by (left; exact Hr).
        * destruct Hrs as [Hn|Hs]; [now left|]. right. intros Hin. apply Hs. now right.
      + intros u r' s' Hu. rewrite (B5 u r' s' Hu). now apply Hother1.
      + assert (Hring : (m + sumq (map snd bs)) * e == m * e + sumq (map snd bs) * e) by ring.
        rewrite Hring. rewrite Hgain in B6. lra.
      + assert (Hring : (m + sumq (map snd bs)) * e == m * e + sumq (map snd bs) * e) by ring.
        rewrite Hring. rewrite Hgain in B7. lra.
  Qed.
  Local Transparent step.
  (* ------------------------------------------------------------ frame: a walk of t touches only entries of t *)
  Local Opaque step.
  Lemma book_members_frame t off first cap slot : forall team st st' l,
    book_members p t off first cap slot team st = (st', l) ->
    (forall u r' s', u <> t -> tent u (cells st' r' s') = tent u (cells st r' s')) /\ splaced st' = splaced st.
  Proof.
    induction team as [|r tl IH]; intros st st' l H; cbn [book_members] in H.
    - injection H as <- _. split; reflexivity.
    - destruct (sr_work (tres_of p r) slot); [|now apply IH in H].
      set (c0 := cells st r slot) in *.
      set (c1 := if first then step G c0 (Offset off) else c0) in *.
      assert (Ht1 : forall u, tent u c1 = tent u c0) by (intros u; unfold c1; destruct first; [apply tent_offset|reflexivity]).
      assert (Hset : forall c, (forall u, u <> t -> tent u c = tent u c0) ->
                forall u r' s', u <> t -> tent u (cells (set_cell st r slot c) r' s') = tent u (cells st r' s')).
      { intros c Hc u r' s' Hu. destruct (Nat.eq_dec r' r) as [->|Hr]; [destruct (Nat.eq_dec s' slot) as [->|Hs]|].
        - rewrite tcells_set_same. now apply Hc.
        - now rewrite tcells_set_other by (right; exact Hs).
        - now rewrite tcells_set_other by (left; exact Hr). }
      destruct (_ || _ || negb _).
      + destruct (IH _ _ _ H) as [A B]. split; [|exact B].
        intros u r' s' Hu. rewrite (A u r' s' Hu). apply Hset; [|exact Hu]. intros; apply Ht1.
      + destruct (book_members p t off first cap slot tl _) as [st2 l2] eqn:E2. injection H as <- _.
        destruct (IH _ _ _ E2) as [A B]. rewrite cells_note in A. split; [|exact B].
        intros u r' s' Hu. rewrite (A u r' s' Hu). apply Hset; [|exact Hu].
        intros u' Hu'. rewrite tent_book_other by exact Hu'. apply Ht1.
  Qed.

  Lemma release_members_frame t needed slot : forall (l : list (nat * Q * Q)) st,
    (forall u r' s', u <> t -> tent u (cells (release_members G t needed slot l st) r' s') = tent u (cells st r' s')) /\
    splaced (release_members G t needed slot l st) = splaced st.
  Proof.
    unfold release_members. induction l as [|x tl IH]; intros st; cbn [fold_left]; [split; reflexivity|].
    destruct (IH (set_cell st (fst (fst x)) slot (step G (cells st (fst (fst x)) slot) (Finish t needed)))) as [A B].
    split; [|exact B]. intros u r' s' Hu. rewrite (A u r' s' Hu).
    destruct (Nat.eq_dec r' (fst (fst x))) as [->|Hr]; [destruct (Nat.eq_dec s' slot) as [->|Hs]|].
    - rewrite tcells_set_same. now apply tent_finish_other.
    - now rewrite tcells_set_other by (right; exact Hs).
    - now rewrite tcells_set_other by (left; exact Hr).
  Qed.

  Local Opaque release_members.
  Lemma twalk_frame t team e need off : forall fuel slot done start st st' d,
    twalk p t team e need off fuel slot done start st = (st', d) ->
    (forall u r' s', u <> t -> tent u (cells st' r' s') = tent u (cells st r' s')) /\ splaced st' = splaced st.
  Proof.
    induction fuel as [|fuel IH]; intros slot done start st st' d H; cbn [twalk] in H.
    - injection H as <- _. split; reflexivity.
    - destruct (_ && negb _); [now apply IH in H|].
      destruct (book_members p t off (Qeq_bool done 0) _ slot team st) as [st1 booked] eqn:Eb.
      destruct (book_members_frame _ _ _ _ _ _ _ _ _ Eb) as [A1 B1].
      destruct booked as [|x0 bk].
      + destruct (IH _ _ _ _ _ _ H) as [A B]. split; [|now rewrite B, B1]. intros u r' s' Hu. now rewrite (A u r' s' Hu), A1.
      + destruct (Qle_bool _ _).
        * injection H as <- _. destruct (release_members_frame t (Qmin ((need - done) / e) G) slot (x0 :: bk) st1) as [A B].
          split; [|now rewrite B, B1]. intros u r' s' Hu. now rewrite (A u r' s' Hu), A1.
        * destruct (IH _ _ _ _ _ _ H) as [A B]. split; [|now rewrite B, B1]. intros u r' s' Hu. now rewrite (A u r' s' Hu), A1.
  Qed.
  Local Transparent release_members.
  Local Transparent step.
  (* ------------------------------------------------------------ through the ready loop *)
  Definition TBooked (st : sstate) (t : nat) : Prop :=
    let k := ttask_of p t in let team := tt_team k in let e := team_eff p team in
    exists bs : list (nat * Q), bs <> [] /\ NoDup (map fst bs) /\
      (forall s x, In (s, x) bs -> 0 < x /\ x <= G /\
         forall r, In r team -> sr_work (tres_of p r) s = true /\ exists xr, xr == x /\ tent t (cells st r s) = [(t, xr)]) /\
      (forall r' s', (~ In r' team \/ ~ In s' (map fst bs)) -> tent t (cells st r' s') = []) /\
      tt_effort k - tol_done <= sumq (map snd bs) * e /\ sumq (map snd bs) * e <= tt_effort k.

  Record TJ (st : sstate) (work : list nat) : Prop := {
    tj_nodup : NoDup work;
    tj_unplaced : forall t, In t work -> sleaf_dates st t = None;
    tj_fresh : forall t, In t work -> forall r s, tent t (cells st r s) = [];
    tj_team : forall t d, sleaf_dates st t = Some d -> tt_mile (ttask_of p t) = false ->
              multi (tt_team (ttask_of p t)) = true -> NoDup (tt_team (ttask_of p t)) -> TBooked st t
  }.

  Lemma TBooked_stable st st' t : (forall r s, tent t (cells st' r s) = tent t (cells st r s)) -> TBooked st t -> TBooked st' t.
  Proof.
    intros Hc (bs & B1 & B2 & B3 & B4 & B5 & B6). exists bs. split; [exact B1|]. split; [exact B2|]. split; [|split; [|split; assumption]].
    - intros s x Hin. destruct (B3 s x Hin) as (A1 & A2 & A3). split; [exact A1|]. split; [exact A2|].
      intros r Hr. destruct (A3 r Hr) as (W & xr & E1 & E2). split; [exact W|]. exists xr. split; [exact E1|]. now rewrite Hc.
    - intros r' s' H. rewrite Hc. now apply B4.
  Qed.

  Lemma tpick_spec st : forall work t rest, tpick p st work = Some (t, rest) ->
    In t work /\ (NoDup work -> NoDup rest /\ ~ In t rest /\ forall u, In u rest -> In u work).
  Proof.
    induction work as [|u tl IH]; intros t rest H; cbn in H; [discriminate|].
    destruct (tready p st u).
    - injection H as <- <-. split; [now left|]. intros Hnd. inversion Hnd; subst. split; [assumption|]. split; [assumption|]. intros; now right.
    - destruct (tpick p st tl) as [[v rest']|] eqn:Ep; [|discriminate]. injection H as <- <-.
      destruct (IH _ _ eq_refl) as (B & D). split; [now right|].
      intros Hnd. inversion Hnd as [|? ? Hu Htl]; subst. destruct (D Htl) as (D1 & D2 & D3). split.
      + constructor; [intros Hin; apply Hu; now apply D3|exact D1].
      + split.
        * intros [<-|Hin]; [|contradiction]. apply Hu. exact B.
        * intros w [<-|Hw]; [now left|right; now apply D3].
  Qed.

  Lemma tleaf_place_same st t d : sleaf_dates (splace st t d) t = Some d.
  Proof. unfold sleaf_dates, splace; cbn. now rewrite Nat.eqb_refl. Qed.
  Lemma tleaf_place_other st t u d : u <> t -> sleaf_dates (splace st t d) u = sleaf_dates st u.
  Proof. intros H. unfold sleaf_dates, splace; cbn. destruct (Nat.eqb_spec u t); [contradiction|reflexivity]. Qed.

  Lemma tstep_TJ st work t rest : TInv p st -> TJ st work -> tpick p st work = Some (t, rest) -> TJ (tschedule_task p st t) rest.
  Proof.
    intros Hi [J1 J2 J3 J4] Hp. destruct (tpick_spec _ _ _ _ Hp) as (Hin & Hnd). destruct (Hnd J1) as (Nrest & Ntrest & Hsub).
    assert (HJr : TJ st rest).
    { constructor; [exact Nrest| | |exact J4]; intros u Hu; [apply J2|apply J3]; now apply Hsub. }
    assert (Hunpl : sleaf_dates st t = None) by now apply J2.
    unfold tschedule_task. cbn zeta. set (b := tbound p st t) in *.
    destruct ((b <? 0)%Z || (Z.of_nat (tp_upper p) <? b / tp_G p)%Z) eqn:Eh; [exact HJr|].
    apply orb_false_iff in Eh as [Eh1 _]. apply Z.ltb_ge in Eh1. pose proof (twf_G p Hwf) as HG.
    destruct (tt_mile (ttask_of p t)) eqn:Em.
    - constructor; [exact Nrest| | |].
      + intros u Hu. rewrite tleaf_place_other by (intros ->; contradiction). apply J2. now apply Hsub.
      + intros u Hu r s. cbn [splace cells]. apply J3. now apply Hsub.
      + intros u d Hu Hm Hmu Hndu. destruct (Nat.eq_dec u t) as [->|Hne]; [congruence|].
        rewrite tleaf_place_other in Hu by exact Hne. apply (TBooked_stable st); [reflexivity|]. eapply J4; eassumption.
    - destruct (tt_team (ttask_of p t)) as [|r0 tl] eqn:Et; [exact HJr|].
      set (team := r0 :: tl) in *. set (slot0 := Z.to_nat (b / tp_G p)) in *.
      pose proof (Z.mod_pos_bound b (tp_G p) HG) as Hmod.
      destruct (twalk p t team (team_eff p team) (tt_effort (ttask_of p t)) (inject_Z (b mod tp_G p))
                      (S (tp_upper p) - slot0) slot0 0 None st) as [st1 d] eqn:Ew.
      destruct (twalk_frame _ _ _ _ _ _ _ _ _ _ _ _ Ew) as [Hoth Hpl].
      assert (Hfresh1 : forall u, In u rest -> forall r' s', tent u (cells st1 r' s') = []).
      { intros u Hu r' s'. rewrite Hoth by (intros ->; contradiction). apply J3. now apply Hsub. }
      assert (Hgood1 : forall u d', u <> t -> sleaf_dates st1 u = Some d' -> tt_mile (ttask_of p u) = false ->
                multi (tt_team (ttask_of p u)) = true -> NoDup (tt_team (ttask_of p u)) -> TBooked st1 u).
      { intros u d' Hne Hu Hm Hmu Hndu. apply (TBooked_stable st); [intros; now apply Hoth|].
        apply (J4 u d'); [unfold sleaf_dates in *; now rewrite Hpl in Hu|assumption|assumption|assumption]. }
      destruct d as [d|].
      + constructor; [exact Nrest| | |].
        * intros u Hu. rewrite tleaf_place_other by (intros ->; contradiction).
          unfold sleaf_dates. rewrite Hpl. apply J2. now apply Hsub.
        * intros u Hu r' s'. cbn [splace cells]. now apply Hfresh1.
        * intros u d' Hu Hm Hmu Hndu. destruct (Nat.eq_dec u t) as [->|Hne].
          -- (* the team task just placed *)
             rewrite Et in Hmu, Hndu. fold team in Hmu, Hndu.
             assert (Ho : 0 <= inject_Z (b mod tp_G p) /\ tol_avail < G - inject_Z (b mod tp_G p)).
             { split; [change 0 with (inject_Z 0); rewrite <- Zle_Qle; lia|].
               assert (1 <= G - inject_Z (b mod tp_G p)).
               { unfold Qminus. rewrite <- inject_Z_opp, <- inject_Z_plus. change 1 with (inject_Z 1). rewrite <- Zle_Qle. lia. }
               unfold tol_avail. lra. }
             destruct (twalk_team_spec t team _ Hmu Hndu (proj1 Ho) (proj2 Ho) _ _ _ _ _ _ _ _ (Qle_refl 0) (twf_work p Hwf t Em) Hi Ew)
               as (bs & B1 & B2 & B3 & B4 & B5 & B6 & B7).
             unfold TBooked. cbn zeta. rewrite Et. fold team. cbn [splace cells].
             exists bs. split; [exact B1|]. split; [exact B2|]. split; [|split; [|split]].
             ++ intros s x Hsx. destruct (B3 s x Hsx) as (_ & A2 & A3 & A4). split; [exact A2|]. split; [exact A3|].
                intros r Hr. destruct (A4 r Hr) as (W & xr & E1 & E2). split; [exact W|]. exists xr. split; [exact E1|].
                rewrite E2, (J3 t Hin r s). reflexivity.
             ++ intros r' s' Hrs. rewrite (B4 r' s' Hrs). now apply J3.
             ++ rewrite Qplus_0_l in B6. exact B6.
             ++ rewrite Qplus_0_l in B7. exact B7.
          -- rewrite tleaf_place_other in Hu by exact Hne. apply (TBooked_stable st1); [reflexivity|]. eapply Hgood1; eassumption.
      + constructor; [exact Nrest| |exact Hfresh1|].
        * intros u Hu. unfold sleaf_dates. rewrite Hpl. apply J2. now apply Hsub.
        * intros u d' Hu Hm Hmu Hndu. eapply Hgood1; try eassumption. intros ->. unfold sleaf_dates in *. rewrite Hpl in Hu. congruence.
  Qed.

  Lemma tloop_TJ : forall fuel work st, TInv p st -> TJ st work -> exists rest, TJ (tloop p fuel work st) rest.
  Proof.
    induction fuel as [|fuel IH]; intros work st Hi HJ; cbn [tloop]; [eauto|].
    destruct (tpick p st work) as [[t rest]|] eqn:E; [|eauto].
    apply (IH rest); [now apply (tschedule_task_inv p Hwf)|eapply tstep_TJ; eassumption].
  Qed.
  Lemma tinsert_in t : forall l x, In x (tinsert p t l) <-> x = t \/ In x l.
  Proof.
    induction l as [|u tl IH]; intros x; cbn; [intuition congruence|].
    destruct (tt_prio (ttask_of p u) <? tt_prio (ttask_of p t))%Z; cbn; [intuition congruence|]. rewrite IH. intuition congruence.
  Qed.

  Lemma tinsert_nodup t : forall l, ~ In t l -> NoDup l -> NoDup (tinsert p t l).
  Proof.
    induction l as [|u tl IH]; intros Hn Hd; cbn; [constructor; [tauto|constructor]|].
    destruct (tt_prio (ttask_of p u) <? tt_prio (ttask_of p t))%Z; [constructor; assumption|].
    inversion Hd; subst. constructor.
    - rewrite tinsert_in. intros [->|H]; [apply Hn; now left|contradiction].
    - apply IH; [intros H; apply Hn; now right|assumption].
  Qed.

  Lemma tsorted_leaves_nodup : NoDup (tsorted_leaves p).
  Proof.
    unfold tsorted_leaves.
    assert (Gn : forall n k acc, NoDup acc -> (forall x, In x acc -> (x < k)%nat) ->
                NoDup (fold_left (fun acc t => if tt_leaf (ttask_of p t) then tinsert p t acc else acc) (seq k n) acc)).
    { induction n as [|n IH]; intros k acc Hd Hlt; cbn [seq fold_left]; [exact Hd|].
      apply IH.
      - destruct (tt_leaf (ttask_of p k)); [|exact Hd]. apply tinsert_nodup; [|exact Hd].
        intros H. specialize (Hlt _ H). lia.
      - intros x Hx. destruct (tt_leaf (ttask_of p k)).
        + apply tinsert_in in Hx as [->|Hx]; [lia|]. specialize (Hlt _ Hx). lia.
        + specialize (Hlt _ Hx). lia. }
    apply Gn; [constructor|intros x []].
  Qed.

  Definition tpre_step (st : sstate) (t : nat) : sstate :=
    let k := ttask_of p t in
    if tt_leaf k && tt_mile k
    then match tt_pin k with
         | Some s => if (0 <=? s)%Z && (s / tp_G p <=? Z.of_nat (tp_upper p))%Z then splace st t (s, s) else st
         | None => st end
    else st.

  Lemma tprepass_spec : forall l st,
    cells (fold_left tpre_step l st) = cells st /\
    forall t d, sleaf_dates (fold_left tpre_step l st) t = Some d ->
      sleaf_dates st t = Some d \/ tt_mile (ttask_of p t) = true.
  Proof.
    induction l as [|u tl IH]; intros st; cbn [fold_left]; [split; [reflexivity|intros; now left]|].
    destruct (IH (tpre_step st u)) as [A B]. split.
    - rewrite A. unfold tpre_step. cbn zeta. destruct (tt_leaf _ && _); [|reflexivity]. destruct (tt_pin _) as [s|]; [|reflexivity].
      destruct ((0 <=? s)%Z && _); reflexivity.
    - intros t d Ht. destruct (B t d Ht) as [B1|B1]; [|now right].
      unfold tpre_step in B1. cbn zeta in B1.
      destruct (tt_leaf (ttask_of p u) && tt_mile (ttask_of p u)) eqn:E; [|now left].
      destruct (tt_pin (ttask_of p u)) as [s|]; [|now left].
      destruct ((0 <=? s)%Z && (s / tp_G p <=? Z.of_nat (tp_upper p))%Z); [|now left].
      destruct (Nat.eq_dec t u) as [->|Hne].
      + right. apply andb_true_iff in E as [_ E]. exact E.
      + rewrite tleaf_place_other in B1 by exact Hne. now left.
  Qed.

  Lemma tprepass_TJ : TJ (tprepass p) (filter (fun t => match sleaf_dates (tprepass p) t with Some _ => false | None => true end) (tsorted_leaves p)).
  Proof.
    destruct (tprepass_spec (seq 0 (length (tp_tasks p))) sinit) as [Hc Hp].
    change (fold_left tpre_step (seq 0 (length (tp_tasks p))) sinit) with (tprepass p) in *.
    constructor.
    - apply NoDup_filter, tsorted_leaves_nodup.
    - intros t Ht. apply filter_In in Ht as [_ Ht]. destruct (sleaf_dates (tprepass p) t); [discriminate|reflexivity].
    - intros t _ r s. rewrite Hc. reflexivity.
    - intros t d Ht Hm. destruct (Hp t d Ht) as [Hi|Hm']; [discriminate|congruence].
  Qed.

  (* C03 at second granularity for teams: a placed task with a team of two or more (no member twice) has, in the
     final ledger, exactly one entry in each booked slot for EVERY member, all of the same length (the members work
     the same seconds), nothing anywhere else, every booked slot is working time of every member, and the seconds
     weighted by the best member's efficiency add up to the effort *)
  Theorem team_same_instants t d : sleaf_dates (tschedule p) t = Some d -> tt_mile (ttask_of p t) = false ->
    multi (tt_team (ttask_of p t)) = true -> NoDup (tt_team (ttask_of p t)) -> TBooked (tschedule p) t.
  Proof.
    intros Ht Hm Hmu Hnd. unfold tschedule in *. cbn zeta in *.
    set (work := filter (fun t => match sleaf_dates (tprepass p) t with Some _ => false | None => true end) (tsorted_leaves p)) in *.
    destruct (tloop_TJ (length work) work (tprepass p) (tprepass_inv p Hwf) tprepass_TJ) as [rest HJ].
    eapply (tj_team _ _ HJ); eassumption.
  Qed.
End TeamEffort.
