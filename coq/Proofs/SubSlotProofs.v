(* Theorems about the second-granularity scheduler model (Model/SubSlot.v), for every project. *)
From Coq Require Import QArith Qround Qminmax List Bool Arith ZArith Lia Lqa.
Require Import SP.Model.Ledger SP.Proofs.LedgerProofs SP.Model.SubSlot.
Import ListNotations.

(* ------------------------------------------------------------ what the three operations do to a task's entries *)
Definition tent (t : nat) (c : cell) : list (nat * Q) := filter (fun x => Nat.eqb (fst x) t) (entries c).

Lemma tent_offset G t c o : tent t (step G c (Offset o)) = tent t c.
Proof. unfold tent. cbn [step]. destruct (Qlt_le_dec (used c) o); reflexivity. Qed.

Lemma release_last_other t u need : forall l l' b k, u <> t -> release_last t need l = Some (l', b, k) ->
  filter (fun x => Nat.eqb (fst x) u) l' = filter (fun x => Nat.eqb (fst x) u) l.
Proof.
  induction l as [|[t' x] tl IH]; intros l' b k Hne H; cbn in H; [discriminate|].
  destruct (release_last t need tl) as [[[tl' bk] kp]|] eqn:E.
  - injection H as <- _ _. cbn. now rewrite (IH _ _ _ Hne eq_refl).
  - destruct (Nat.eqb_spec t t') as [->|]; [|discriminate]. injection H as <- _ _. cbn.
    destruct (Nat.eqb_spec t' u); [congruence|reflexivity].
Qed.

Lemma tent_finish_other G t u c need : u <> t -> tent u (step G c (Finish t need)) = tent u c.
Proof.
  intros Hne. unfold tent. cbn [step]. destruct (release_last t need (entries c)) as [[[l' b] k]|] eqn:E; [|reflexivity].
  cbn [entries]. eapply release_last_other; eassumption.
Qed.

Lemma tent_book_other G t u c cap : u <> t -> tent u (step G c (Book t cap)) = tent u c.
Proof.
  intros Hne. unfold tent. cbn [step].
  destruct (match entries c with [] => false | _ :: _ => if Qlt_le_dec 0 (used c) then false else true end); [reflexivity|].
  destruct (Qlt_le_dec 0 (avail G c)); [|reflexivity]. cbn [entries]. rewrite filter_app. cbn [filter fst].
  destruct (Nat.eqb_spec t u); [congruence|]. apply app_nil_r.
Qed.

(* a booking either changes nothing or appends (t, avail) and fills the slot *)
Lemma book_cases G t c :
  step G c (Book t None) = c \/
  (0 < avail G c /\ entries (step G c (Book t None)) = entries c ++ [(t, avail G c)] /\
   used (step G c (Book t None)) = used c + avail G c).
Proof.
  cbn [step]. destruct (match entries c with [] => false | _ :: _ => if Qlt_le_dec 0 (used c) then false else true end); [now left|].
  destruct (Qlt_le_dec 0 (avail G c)) as [Ha|Ha]; [|now left]. right. repeat split; [exact Ha]. 
Qed.

Lemma avail_pos G c : 0 < avail G c -> avail G c == G - used c.
Proof. unfold avail. intros H. destruct (Q.max_spec 0 (G - used c)) as [[H1 H2]|[H1 H2]]; rewrite H2 in *; [reflexivity|lra]. Qed.

Lemma release_last_snoc t need : forall l a,
  release_last t need (l ++ [(t, a)]) = Some (l ++ [(t, Qmin need a)], a, Qmin need a).
Proof.
  induction l as [|[t' b] tl IH]; intros a; cbn.
  - now rewrite Nat.eqb_refl.
  - now rewrite IH.
Qed.

Fixpoint sumq (l : list Q) : Q := match l with [] => 0 | x :: tl => x + sumq tl end.

(* ------------------------------------------------------------ rounding *)
Lemma round_bounds q (a b : Z) : inject_Z a <= q -> q <= inject_Z b -> (a <= round_half_even q <= b)%Z.
Proof.
  intros Ha Hb. unfold round_half_even.
  pose proof (Qfloor_le q) as F1. pose proof (Qlt_floor q) as F2.
  assert (La : (a <= Qfloor q)%Z).
  { rewrite <- (Qfloor_Z a). now apply Qfloor_resp_le. }
  assert (Lb : (Qfloor q <= b)%Z).
  { rewrite <- (Qfloor_Z b). now apply Qfloor_resp_le. }
  destruct (Qcompare (q - inject_Z (Qfloor q)) (1 # 2)) eqn:E.
  - apply Qeq_alt in E.
    assert (Hlt : (Qfloor q < b)%Z).
    { apply Z.le_neq. split; [exact Lb|]. intros Heq. rewrite Heq in E. lra. }
    destruct (Z.even (Qfloor q)); lia.
  - lia.
  - apply Qgt_alt in E.
    assert (Hlt : (Qfloor q < b)%Z).
    { apply Z.le_neq. split; [exact Lb|]. intros Heq. rewrite Heq in E. lra. }
    lia.
Qed.

(* well-formed project: positive slot length, positive efficiencies, non-negative efforts *)
Record wf (p : sproject) : Prop := {
  wf_G : (0 < sp_G p)%Z;
  wf_eff : forall r, 0 < sr_eff (sres_of p r);
  wf_effort : forall t, 0 <= s_effort (stask_of p t);
  wf_work : forall t, s_mile (stask_of p t) = false -> 0 < s_effort (stask_of p t)
}.

Section SubSlot.
  Variable p : sproject.
  Hypothesis Hwf : wf p.
  Local Notation G := (inject_Z (sp_G p)).

  Lemma G_pos : 0 < G.
  Proof. change 0 with (inject_Z 0). rewrite <- Zlt_Qlt. apply (wf_G p Hwf). Qed.

  (* ------------------------------------------------------------ C01 / C02: every cell, every reachable state *)
  Definition SInv (st : sstate) : Prop :=
    (forall r s, Inv G (cells st r s)) /\
    (forall r s, entries (cells st r s) <> [] -> sr_work (sres_of p r) s = true).

  Lemma sinit_inv : SInv sinit.
  Proof. split; [intros; apply empty_inv, G_pos|intros r s H; now elim H]. Qed.

  Lemma set_cell_inv st r s c : SInv st -> Inv G c -> (entries c <> [] -> sr_work (sres_of p r) s = true) -> SInv (set_cell st r s c).
  Proof.
    intros [H1 H2] Hc Hw. split; intros r' s'; cbn [set_cell cells]; destruct (Nat.eqb r' r && Nat.eqb s' s) eqn:E; auto.
    apply andb_true_iff in E as [E1 E2]. apply Nat.eqb_eq in E1. apply Nat.eqb_eq in E2. subst. exact Hw.
  Qed.

  Lemma splace_inv st t d : SInv st -> SInv (splace st t d).
  Proof. intros H. exact H. Qed.

  Lemma note_inv st t r s : SInv st -> SInv (note_booking st t r s).
  Proof. intros H. exact H. Qed.

  Lemma swalk_inv t r e need off : 0 < e -> 0 <= off -> off <= G ->
    forall fuel slot done start st st' d,
      0 <= done -> done <= need -> SInv st ->
      swalk p t r e need off fuel slot done start st = (st', d) -> SInv st'.
  Proof.
    intros He Ho1 Ho2. induction fuel as [|fuel IH]; intros slot done start st st' d Hd1 Hd2 Hi H; cbn [swalk] in H.
    - now injection H as <- _.
    - destruct (sr_work (sres_of p r) slot) eqn:Ew; [|eapply IH; eassumption].
      set (c0 := cells st r slot) in *.
      set (c1 := if Qeq_bool done 0 then step G c0 (Offset off) else c0) in *.
      assert (Hc0 : Inv G c0) by apply Hi.
      assert (Hc1 : Inv G c1).
      { unfold c1. destruct (Qeq_bool done 0); [|exact Hc0]. apply step_inv; [apply G_pos|split; assumption|exact Hc0]. }
      set (c2 := step G c1 (Book t None)) in *.
      assert (Hc2 : Inv G c2) by (apply step_inv; [apply G_pos|exact I|exact Hc1]).
      destruct (Qle_bool (G - used c1) tol_avail || Nat.eqb (length (entries c2)) (length (entries c1))
                || negb (forallb (fun l => slimit_ok p st l slot) (slimits_of p t r))) eqn:Eb.
      + eapply IH; [exact Hd1|exact Hd2| |exact H]. apply set_cell_inv; [exact Hi|exact Hc1|intros _; exact Ew].
      + apply orb_false_iff in Eb as [Eb _].
        destruct (Qle_bool (need - tol_done) (done + (G - used c1) * e)) eqn:Ef.
        * injection H as <- _. apply note_inv. apply set_cell_inv; [exact Hi| |intros _; exact Ew].
          refine (step_inv G c2 (Finish t (Qmin ((need - done) / e) G)) G_pos _ Hc2). cbn [op_ok].
          apply Q.min_glb; [|apply Qlt_le_weak, G_pos].
          apply Qle_shift_div_l; [exact He|]. rewrite Qmult_0_l. lra.
        * apply orb_false_iff in Eb as [Ea _].
          assert (Ha : tol_avail < G - used c1).
          { apply Qnot_le_lt. intros Hle. apply Qle_bool_iff in Hle. congruence. }
          assert (Hf : ~ need - tol_done <= done + (G - used c1) * e) by (intros Hle; apply Qle_bool_iff in Hle; congruence).
          apply Qnot_le_lt in Hf.
          eapply IH; [| | |exact H].
          -- assert (0 <= (G - used c1) * e) by (apply Qmult_le_0_compat; [unfold tol_avail in Ha; lra|lra]). lra.
          -- unfold tol_done in Hf. lra.
          -- apply note_inv. apply set_cell_inv; [exact Hi|exact Hc2|intros _; exact Ew].
  Qed.
  (* ------------------------------------------------------------ what one walk does *)
  Lemma cells_set_same st r s c : cells (set_cell st r s c) r s = c.
  Proof. cbn. now rewrite !Nat.eqb_refl. Qed.
  Lemma cells_set_other st r s c r' s' : (r' <> r \/ s' <> s) -> cells (set_cell st r s c) r' s' = cells st r' s'.
  Proof.
    intros H. cbn. destruct (Nat.eqb_spec r' r); [|reflexivity]. destruct (Nat.eqb_spec s' s); [|reflexivity].
    destruct H; contradiction.
  Qed.

  Lemma cells_note st t r s : cells (note_booking st t r s) = cells st.
  Proof. reflexivity. Qed.

  Lemma offset_used c off : used c <= used (step G c (Offset off)) /\ off <= used (step G c (Offset off)).
  Proof. cbn [step]. destruct (Qlt_le_dec (used c) off); cbn; lra. Qed.

  Local Opaque step.
  (* bs: the slots booked by the walk with the seconds kept in each, in increasing order *)
  Lemma swalk_spec t r e need off : 0 < e -> 0 <= off -> off < G ->
    forall fuel slot done start st st' f e',
      0 <= done -> done < need -> SInv st ->
      (start = None -> done == 0) ->
      (forall s0, start = Some s0 -> (s0 < Z.of_nat slot * sp_G p)%Z) ->
      swalk p t r e need off fuel slot done start st = (st', Some (f, e')) ->
      exists s1 x1 rest,
        let bs := (s1, x1) :: rest in
        (forall s x, In (s, x) bs ->
           (slot <= s < slot + fuel)%nat /\ (s1 <= s)%nat /\ sr_work (sres_of p r) s = true /\ 0 < x /\ x <= G /\
           tent t (cells st' r s) = tent t (cells st r s) ++ [(t, x)] /\
           (Z.of_nat s * sp_G p <= e')%Z) /\
        NoDup (map fst bs) /\
        (forall r' s', (r' <> r \/ ~ In s' (map fst bs)) -> tent t (cells st' r' s') = tent t (cells st r' s')) /\
        (forall u r' s', u <> t -> tent u (cells st' r' s') = tent u (cells st r' s')) /\
        need - tol_done <= done + sumq (map snd bs) * e /\ done + sumq (map snd bs) * e <= need /\
        (start = None -> f = (Z.of_nat s1 * sp_G p + Qfloor off)%Z) /\
        (forall s0, start = Some s0 -> f = s0) /\
        (f <= e')%Z.
  Proof.
    intros He Ho1 Ho2'. assert (Ho2 : off <= G) by lra.
    induction fuel as [|fuel IH]; intros slot done start st st' f e' Hd1 Hd2' Hi Hs0 Hs1 H; cbn [swalk] in H;
      [discriminate|]. assert (Hd2 : done <= need) by lra.
    destruct (sr_work (sres_of p r) slot) eqn:Ew.
    2:{ destruct (IH (S slot) done start st st' f e' Hd1 Hd2' Hi Hs0) as (s1 & x1 & rest & B); [|exact H|].
        - intros s0 E0. specialize (Hs1 s0 E0). pose proof (wf_G p Hwf). nia.
        - exists s1, x1, rest. cbn zeta in *. destruct B as (B2 & B3 & B4 & B5 & B6 & B7 & B8 & B9 & B10).
          split; [|repeat split; assumption]. intros s x Hin. destruct (B2 s x Hin) as (A1 & A2). split; [lia|exact A2]. }
    set (c0 := cells st r slot) in *.
    set (c1 := if Qeq_bool done 0 then step G c0 (Offset off) else c0) in *.
    assert (Hc0 : Inv G c0) by apply Hi.
    assert (Hc1 : Inv G c1).
    { unfold c1. destruct (Qeq_bool done 0); [|exact Hc0]. apply step_inv; [apply G_pos|split; assumption|exact Hc0]. }
    assert (Ht1 : forall u, tent u c1 = tent u c0).
    { intros u. unfold c1. destruct (Qeq_bool done 0); [apply tent_offset|reflexivity]. }
    set (c2 := step G c1 (Book t None)) in *.
    destruct (Qle_bool (G - used c1) tol_avail || Nat.eqb (length (entries c2)) (length (entries c1))
              || negb (forallb (fun l => slimit_ok p st l slot) (slimits_of p t r))) eqn:Eb.
    { (* nothing bookable in this slot *)
      assert (Hi1 : SInv (set_cell st r slot c1)) by (apply set_cell_inv; [exact Hi|exact Hc1|intros _; exact Ew]).
      destruct (IH (S slot) done start _ st' f e' Hd1 Hd2' Hi1 Hs0) as (s1 & x1 & rest & B); [|exact H|].
      - intros s0 E0. specialize (Hs1 s0 E0). pose proof (wf_G p Hwf). nia.
      - exists s1, x1, rest. cbn zeta in *. destruct B as (B2 & B3 & B4 & B5 & B6 & B7 & B8 & B9 & B10).
        split; [|split; [exact B3|split; [|split; [|repeat split; assumption]]]].
        + intros s x Hin. destruct (B2 s x Hin) as (A1 & A2 & A3 & A4 & A5 & A6 & A7).
          repeat split; try assumption; try lia. rewrite A6. rewrite cells_set_other by (right; lia). reflexivity.
        + intros r' s' Hrs. rewrite (B4 r' s' Hrs).
          destruct (Nat.eq_dec r' r) as [->|Hr]; [destruct (Nat.eq_dec s' slot) as [->|Hs]|].
          * rewrite cells_set_same. apply Ht1.
          * now rewrite cells_set_other by (right; exact Hs).
          * now rewrite cells_set_other by (left; exact Hr).
        + intros u r' s' Hu. rewrite (B5 u r' s' Hu).
          destruct (Nat.eq_dec r' r) as [->|Hr]; [destruct (Nat.eq_dec s' slot) as [->|Hs]|].
          * rewrite cells_set_same. apply Ht1.
          * now rewrite cells_set_other by (right; exact Hs).
          * now rewrite cells_set_other by (left; exact Hr). }
    (* the slot is booked *)
    apply orb_false_iff in Eb as [Eb _]. apply orb_false_iff in Eb as [Ea El].
    assert (Ha : tol_avail < G - used c1) by (apply Qnot_le_lt; intros Hle; apply Qle_bool_iff in Hle; congruence).
    destruct (book_cases G t c1) as [Hsame|(Hav & Hent & Hused)].
    { exfalso. fold c2 in Hsame. rewrite Hsame, Nat.eqb_refl in El. discriminate. }
    fold c2 in Hent, Hused. pose proof (avail_pos G c1 Hav) as Hav2.
    assert (Hc2 : Inv G c2) by (apply step_inv; [apply G_pos|exact I|exact Hc1]).
    assert (HaG : avail G c1 <= G) by (destruct Hc1 as (U1 & _); lra).
    destruct (Qle_bool (need - tol_done) (done + (G - used c1) * e)) eqn:Ef.
    - (* finished inside this slot *)
      apply Qle_bool_iff in Ef. injection H as <- Hf He'. rewrite ?cells_note.
      set (needed := Qmin ((need - done) / e) G) in *.
      set (c3 := step G c2 (Finish t needed)) in *.
      assert (Hrel : release_last t needed (entries c2) = Some (entries c1 ++ [(t, Qmin needed (avail G c1))], avail G c1, Qmin needed (avail G c1)))
        by (rewrite Hent; apply release_last_snoc).
      assert (Hc3 : entries c3 = entries c1 ++ [(t, Qmin needed (avail G c1))]).
      { unfold c3. Local Transparent step. cbn [step]. Local Opaque step. now rewrite Hrel. }
      assert (Hq : 0 <= (need - done) / e) by (apply Qle_shift_div_l; [exact He|]; rewrite Qmult_0_l; lra).
      assert (Hn0 : 0 <= needed) by (apply Q.min_glb; [exact Hq|apply Qlt_le_weak, G_pos]).
      set (kept := Qmin needed (avail G c1)) in *.
      assert (Hk : kept * e == Qmin (need - done) (avail G c1 * e)).
      { unfold kept, needed.
        assert (E1 : Qmin (Qmin ((need - done) / e) G) (avail G c1) == Qmin ((need - done) / e) (avail G c1)).
        { destruct (Q.min_spec ((need - done) / e) G) as [[M1 M2]|[M1 M2]]; rewrite M2; [reflexivity|].
          rewrite (Q.min_r G (avail G c1)) by exact HaG. rewrite Q.min_r; [reflexivity|lra]. }
        rewrite E1.
        destruct (Q.min_spec ((need - done) / e) (avail G c1)) as [[M1 M2]|[M1 M2]]; rewrite M2.
        - assert (Hfe : (need - done) / e * e == need - done) by (field; lra).
          assert (need - done < avail G c1 * e) by (rewrite <- Hfe; apply Qmult_lt_r; assumption).
          rewrite Q.min_l by lra. exact Hfe.
        - assert (Hfe : (need - done) / e * e == need - done) by (field; lra).
          assert (avail G c1 * e <= need - done) by (rewrite <- Hfe; apply Qmult_le_r; assumption).
          rewrite Q.min_r by lra. reflexivity. }
      assert (Hk0 : 0 < kept).
      { unfold kept. destruct (Q.min_spec needed (avail G c1)) as [[M1 M2]|[M1 M2]]; rewrite M2; [|exact Hav].
        unfold needed. destruct (Q.min_spec ((need - done) / e) G) as [[N1 N2]|[N1 N2]]; rewrite N2; [|apply G_pos].
        apply Qlt_shift_div_l; [exact He|]. rewrite Qmult_0_l.
        (* need - done > 0: otherwise the task had finished before this slot or has no work at all *)
        destruct (Qlt_le_dec 0 (need - done)) as [P|P]; [exact P|exfalso].
        lra. }
      exists slot, kept, []. cbn zeta. cbn [map fst snd sumq].
      assert (Hround : (0 <= round_half_even (used c1 + needed))%Z).
      { apply (round_bounds _ 0 (Qceiling (used c1 + needed))); [|apply Qle_ceiling].
        destruct Hc1 as (U1 & _). change (inject_Z 0) with 0. lra. }
      split; [|split; [|split; [|split; [|split; [|split; [|split; [|split]]]]]]].
      + intros s x [Hin|[]]. injection Hin as <- <-. split; [lia|]. split; [lia|]. split; [exact Ew|]. split; [exact Hk0|].
        split; [unfold kept; pose proof (Q.le_min_r needed (avail G c1)); lra|]. split.
        * rewrite ?cells_note, cells_set_same. unfold tent. rewrite Hc3, filter_app. cbn [filter fst]. rewrite Nat.eqb_refl.
          fold (tent t c1). now rewrite Ht1.
        * rewrite <- He'. pose proof (wf_G p Hwf). nia.
      + constructor; [intros []|constructor].
      + intros r' s' Hrs. rewrite ?cells_note, cells_set_other; [reflexivity|]. destruct Hrs as [Hr|Hs]; [now left|]. right. intros ->. apply Hs. now left.
      + intros u r' s' Hu. rewrite ?cells_note.
        destruct (Nat.eq_dec r' r) as [->|Hr]; [destruct (Nat.eq_dec s' slot) as [->|Hs]|].
        * rewrite cells_set_same. unfold c3. rewrite tent_finish_other by exact Hu. unfold c2. rewrite tent_book_other by exact Hu. apply Ht1.
        * now rewrite cells_set_other by (right; exact Hs).
        * now rewrite cells_set_other by (left; exact Hr).
      + rewrite Qplus_0_r, Hk. rewrite Hav2. destruct (Q.min_spec (need - done) ((G - used c1) * e)) as [[M1 M2]|[M1 M2]]; rewrite M2; unfold tol_done in *; lra.
      + rewrite Qplus_0_r, Hk. pose proof (Q.le_min_l (need - done) (avail G c1 * e)). lra.
      + intros Es. rewrite <- Hf. now rewrite Es.
      + intros s0 Es. rewrite <- Hf. now rewrite Es.
      + rewrite <- Hf, <- He'. destruct start as [s0|].
        * specialize (Hs1 s0 eq_refl). lia.
        * assert (Hz : done == 0) by now apply Hs0.
          assert (Hoff : off <= used c1).
          { unfold c1. apply Qeq_bool_iff in Hz. rewrite Hz. apply offset_used. }
          assert ((Qfloor off <= round_half_even (used c1 + needed))%Z).
          { apply (round_bounds _ (Qfloor off) (Qceiling (used c1 + needed))); [|apply Qle_ceiling].
            pose proof (Qfloor_le off). lra. }
          lia.
    - (* not finished: go on with the next slot *)
      assert (Hf : ~ need - tol_done <= done + (G - used c1) * e) by (intros Hle; apply Qle_bool_iff in Hle; congruence).
      apply Qnot_le_lt in Hf.
      assert (Hae : 0 < (G - used c1) * e) by (apply Qmult_lt_0_compat; [unfold tol_avail in Ha; lra|exact He]).
      assert (Hi2 : SInv (note_booking (set_cell st r slot c2) t r slot)) by (apply note_inv, set_cell_inv; [exact Hi|exact Hc2|intros _; exact Ew]).
      set (start' := match start with Some s => s | None => (Z.of_nat slot * sp_G p + Qfloor off)%Z end) in *.
      assert (Hoffb : (0 <= Qfloor off < sp_G p)%Z).
      { split.
        - rewrite <- (Qfloor_Z 0). apply Qfloor_resp_le. exact Ho1.
        - pose proof (Qfloor_le off) as F. rewrite Zlt_Qlt. lra. }
      destruct (IH (S slot) (done + (G - used c1) * e) (Some start') (note_booking (set_cell st r slot c2) t r slot) st' f e') as (s1 & x1 & rest & B);
        [lra|unfold tol_done in Hf; lra|exact Hi2|discriminate| |exact H|].
      { intros s0 [= <-]. unfold start'. destruct start as [s0|].
        - specialize (Hs1 s0 eq_refl). pose proof (wf_G p Hwf). nia.
        - nia. }
      cbn zeta in B. destruct B as (B2 & B3 & B4 & B5 & B6 & B7 & B8 & B9 & B10).
      assert (Hge : forall s, In s (map fst ((s1, x1) :: rest)) -> (S slot <= s)%nat).
      { intros s Hin. apply in_map_iff in Hin as ([s' x'] & <- & Hin). destruct (B2 s' x' Hin) as (A1 & _). cbn. lia. }
      assert (Hnot : ~ In slot (map fst ((s1, x1) :: rest))) by (intros Hin; apply Hge in Hin; lia).
      exists slot, (avail G c1), ((s1, x1) :: rest). cbn zeta.
      split; [|split; [|split; [|split; [|split; [|split; [|split; [|split]]]]]]].
      + intros s x [Hin|Hin].
        * injection Hin as <- <-. split; [lia|]. split; [lia|]. split; [exact Ew|]. split; [exact Hav|]. split; [exact HaG|]. split.
          -- rewrite (B4 r slot) by (right; exact Hnot). rewrite ?cells_note, cells_set_same. unfold tent. rewrite Hent, filter_app.
             cbn [filter fst]. rewrite Nat.eqb_refl. fold (tent t c1). now rewrite Ht1.
          -- destruct (B2 s1 x1 (or_introl eq_refl)) as (A1 & _ & _ & _ & _ & _ & A7). pose proof (wf_G p Hwf). nia.
        * destruct (B2 s x Hin) as (A1 & A2 & A3 & A4 & A5 & A6 & A7).
          split; [lia|]. split; [lia|]. split; [exact A3|]. split; [exact A4|]. split; [exact A5|]. split; [|exact A7].
          rewrite A6. rewrite ?cells_note, cells_set_other by (right; lia). reflexivity.
      + cbn [map fst]. constructor; [exact Hnot|exact B3].
      + intros r' s' Hrs. rewrite B4.
        * rewrite ?cells_note. apply f_equal. apply cells_set_other. destruct Hrs as [Hr|Hs]; [now left|]. right. intros ->. apply Hs. now left.
        * destruct Hrs as [Hr|Hs]; [now left|]. right. intros Hin. apply Hs. now right.
      + intros u r' s' Hu. rewrite (B5 u r' s' Hu). rewrite ?cells_note.
        destruct (Nat.eq_dec r' r) as [->|Hr]; [destruct (Nat.eq_dec s' slot) as [->|Hs]|].
        * rewrite cells_set_same. unfold c2. rewrite tent_book_other by exact Hu. apply Ht1.
        * now rewrite cells_set_other by (right; exact Hs).
        * now rewrite cells_set_other by (left; exact Hr).
      + cbn [map snd sumq] in *.
        assert (Hring : (avail G c1 + (x1 + sumq (map snd rest))) * e == avail G c1 * e + (x1 + sumq (map snd rest)) * e) by ring.
        rewrite Hring, Hav2. lra.
      + cbn [map snd sumq] in *.
        assert (Hring : (avail G c1 + (x1 + sumq (map snd rest))) * e == avail G c1 * e + (x1 + sumq (map snd rest)) * e) by ring.
        rewrite Hring, Hav2. lra.
      + intros Es. rewrite (B9 start' eq_refl). unfold start'. now rewrite Es.
      + intros s0 Es. rewrite (B9 start' eq_refl). unfold start'. now rewrite Es.
      + exact B10.
  Qed.
  Local Transparent step.

  (* ------------------------------------------------------------ dates only grow *)
  Definition sext (st st' : sstate) : Prop := forall u d, sleaf_dates st u = Some d -> sleaf_dates st' u = Some d.

  Lemma sspan_stable st st' ls d : sext st st' -> sspan st ls = Some d -> sspan st' ls = Some d.
  Proof.
    intros He. revert d. induction ls as [|t tl IH]; intros d H; [discriminate|].
    destruct tl as [|u tl].
    - cbn in *. now apply He.
    - change (sspan st (t :: u :: tl)) with
        (match sleaf_dates st t, sspan st (u :: tl) with
         | Some (s, e), Some (s', e') => Some (Z.min s s', Z.max e e') | _, _ => None end) in H.
      change (sspan st' (t :: u :: tl)) with
        (match sleaf_dates st' t, sspan st' (u :: tl) with
         | Some (s, e), Some (s', e') => Some (Z.min s s', Z.max e e') | _, _ => None end).
      destruct (sleaf_dates st t) as [[s e]|] eqn:E1; [|discriminate].
      destruct (sspan st (u :: tl)) as [[s' e']|] eqn:E2; [|discriminate].
      rewrite (He _ _ E1), (IH _ eq_refl). exact H.
  Qed.

  Lemma sdates_stable st st' t d : sext st st' -> sdates p st t = Some d -> sdates p st' t = Some d.
  Proof. intros He. unfold sdates. destruct (s_leaf (stask_of p t)); [apply He|now apply sspan_stable]. Qed.

  Lemma sfold_max_ge (f : sdep -> option Z) : forall l acc,
    (acc <= fold_left (fun a d => match f d with Some x => Z.max a x | None => a end) l acc)%Z /\
    forall d x, In d l -> f d = Some x ->
      (x <= fold_left (fun a d => match f d with Some x => Z.max a x | None => a end) l acc)%Z.
  Proof.
    induction l as [|d tl IH]; intros acc; cbn [fold_left]; [split; [lia|intros ? ? []]|].
    destruct (IH (match f d with Some x => Z.max acc x | None => acc end)) as [A B]. split.
    - revert A. destruct (f d); intros; lia.
    - intros d' x [<-|Hin] Hf; [|now apply (B d' x)]. rewrite Hf in A |- *. lia.
  Qed.

  Lemma sready_spec st t : sready p st t = true ->
    forall d, In d (s_deps (stask_of p t)) -> exists x, sdep_time p st d = Some x.
  Proof.
    unfold sready. rewrite forallb_forall. intros H d Hd. specialize (H d Hd). unfold sdep_time.
    destruct (sdates p st (sd_task d)) as [[s e]|]; [eauto|discriminate].
  Qed.

  Lemma spick_spec st : forall work t rest, spick p st work = Some (t, rest) ->
    sready p st t = true /\ In t work /\
    (NoDup work -> NoDup rest /\ ~ In t rest /\ forall u, In u rest -> In u work).
  Proof.
    induction work as [|u tl IH]; intros t rest H; cbn in H; [discriminate|].
    destruct (sready p st u) eqn:E.
    - injection H as <- <-. split; [exact E|]. split; [now left|].
      intros Hnd. inversion Hnd; subst. split; [assumption|]. split; [assumption|]. intros; now right.
    - destruct (spick p st tl) as [[v rest']|] eqn:Ep; [|discriminate]. injection H as <- <-.
      destruct (IH _ _ eq_refl) as (A & B & D). split; [exact A|]. split; [now right|].
      intros Hnd. inversion Hnd as [|? ? Hu Htl]; subst. destruct (D Htl) as (D1 & D2 & D3). split.
      + constructor; [intros Hin; apply Hu; now apply D3|exact D1].
      + split.
        * intros [<-|Hin]; [|contradiction]. apply Hu. exact B.
        * intros w [<-|Hw]; [now left|right; now apply D3].
  Qed.

  (* ------------------------------------------------------------ what a placed task looks like *)
  (* the booked slots with the seconds kept in each: every one overlaps [f, e], the task has exactly one entry
     in each of them and none anywhere else, and the seconds weighted by the efficiency are the effort *)
  Definition Booked (st : sstate) (t : nat) (f e : Z) (bs : list (nat * Q)) : Prop :=
    let k := stask_of p t in let r := s_res k in
    bs <> [] /\ NoDup (map fst bs) /\
    (forall s x, In (s, x) bs ->
       (s <= sp_upper p)%nat /\
       sr_work (sres_of p r) s = true /\ 0 < x /\ x <= G /\ tent t (cells st r s) = [(t, x)] /\
       (Z.of_nat s * sp_G p <= e)%Z /\ (f < (Z.of_nat s + 1) * sp_G p)%Z) /\
    (forall r' s', (r' <> r \/ ~ In s' (map fst bs)) -> tent t (cells st r' s') = []) /\
    s_effort k - tol_done <= sumq (map snd bs) * sr_eff (sres_of p r) /\
    sumq (map snd bs) * sr_eff (sres_of p r) <= s_effort k.

  Record GoodS (st : sstate) (t : nat) (f e : Z) : Prop := {
    gs_order : (f <= e)%Z;
    gs_mile : s_mile (stask_of p t) = true -> f = e;
    gs_work : s_mile (stask_of p t) = false -> exists bs, Booked st t f e bs;
    gs_deps : s_pin (stask_of p t) = None ->
              (s_lb (stask_of p t) <= f)%Z /\
              forall d, In d (s_deps (stask_of p t)) ->
                exists s' e', sdates p st (sd_task d) = Some (s', e') /\ ((if sd_onstart d then s' else e') + sd_gap d <= f)%Z;
    gs_pin : forall s, s_pin (stask_of p t) = Some s -> (s <= f)%Z /\ (s_mile (stask_of p t) = true -> f = s)
  }.

  Lemma GoodS_stable st st' t f e : sext st st' -> (forall r s, tent t (cells st' r s) = tent t (cells st r s)) ->
    GoodS st t f e -> GoodS st' t f e.
  Proof.
    intros He Hc [G1 G2 G3 G4 G5]. constructor; try assumption.
    - intros Hm. destruct (G3 Hm) as (bs & B1 & B2 & B3 & B4 & B5 & B6). exists bs. unfold Booked. cbn zeta.
      split; [exact B1|]. split; [exact B2|]. split; [|split; [|split; assumption]].
      + intros s x Hin. destruct (B3 s x Hin) as (A0 & A1 & A2 & A3 & A4 & A5 & A6). rewrite Hc. repeat split; assumption.
      + intros r' s' H. rewrite Hc. now apply B4.
    - intros Hp. destruct (G4 Hp) as [A B]. split; [exact A|]. intros d Hd. destruct (B d Hd) as (s' & e' & D1 & D2).
      exists s', e'. split; [eapply sdates_stable; eassumption|exact D2].
  Qed.

  Record JS (st : sstate) (work : list nat) : Prop := {
    js_nodup : NoDup work;
    js_unplaced : forall t, In t work -> sleaf_dates st t = None;
    js_fresh : forall t, In t work -> forall r s, tent t (cells st r s) = [];
    js_good : forall t f e, sleaf_dates st t = Some (f, e) -> GoodS st t f e
  }.

  Lemma sleaf_dates_place_same st t d : sleaf_dates (splace st t d) t = Some d.
  Proof. unfold sleaf_dates, splace; cbn. now rewrite Nat.eqb_refl. Qed.
  Lemma sleaf_dates_place_other st t u d : u <> t -> sleaf_dates (splace st t d) u = sleaf_dates st u.
  Proof. intros H. unfold sleaf_dates, splace; cbn. destruct (Nat.eqb_spec u t); [contradiction|reflexivity]. Qed.
  Lemma splace_sext st t d : sleaf_dates st t = None -> sext st (splace st t d).
  Proof. intros Hn u d' Hu. rewrite sleaf_dates_place_other; [exact Hu|]. intros ->. congruence. Qed.

  Local Opaque step.
  Lemma swalk_placed t r e need off : forall fuel slot done start st st' d,
    swalk p t r e need off fuel slot done start st = (st', d) -> splaced st' = splaced st.
  Proof.
    induction fuel as [|fuel IH]; intros slot done start st st' d H; cbn [swalk] in H; [now injection H as <- _|].
    destruct (sr_work (sres_of p r) slot); [|eapply IH; eassumption].
    destruct (_ || _ || _); [apply IH in H; exact H|].
    destruct (Qle_bool _ _); [now injection H as <- _|apply IH in H; exact H].
  Qed.

  (* a walk of t leaves the entries of every other task alone, whether or not it ends *)
  Lemma swalk_others t r e need off : forall fuel slot done start st st' d,
    swalk p t r e need off fuel slot done start st = (st', d) ->
    forall u r' s', u <> t -> tent u (cells st' r' s') = tent u (cells st r' s').
  Proof.
    induction fuel as [|fuel IH]; intros slot done start st st' d H u r' s' Hu; cbn [swalk] in H; [now injection H as <- _|].
    destruct (sr_work (sres_of p r) slot); [|eapply IH; eassumption].
    set (c0 := cells st r slot) in *.
    set (c1 := if Qeq_bool done 0 then step G c0 (Offset off) else c0) in *.
    assert (Ht1 : tent u c1 = tent u c0) by (unfold c1; destruct (Qeq_bool done 0); [apply tent_offset|reflexivity]).
    assert (Hset : forall c, tent u c = tent u c0 -> tent u (cells (set_cell st r slot c) r' s') = tent u (cells st r' s')).
    { intros c Hc. destruct (Nat.eq_dec r' r) as [->|Hr]; [destruct (Nat.eq_dec s' slot) as [->|Hs]|].
      - rewrite cells_set_same. exact Hc.
      - now rewrite cells_set_other by (right; exact Hs).
      - now rewrite cells_set_other by (left; exact Hr). }
    destruct (_ || _ || _).
    - rewrite (IH _ _ _ _ _ _ H u r' s' Hu). now apply Hset.
    - destruct (Qle_bool _ _).
      + injection H as <- _. rewrite cells_note. apply Hset. rewrite tent_finish_other, tent_book_other by exact Hu. exact Ht1.
      + rewrite (IH _ _ _ _ _ _ H u r' s' Hu). rewrite cells_note. apply Hset. rewrite tent_book_other by exact Hu. exact Ht1.
  Qed.
  Local Transparent step.

  (* ------------------------------------------------------------ one step of the main loop *)
  Lemma JS_sub st work rest : JS st work -> NoDup rest -> (forall u, In u rest -> In u work) -> JS st rest.
  Proof.
    intros [J1 J2 J3 J4] Hnd Hsub. constructor; [exact Hnd| | |exact J4].
    - intros t Ht. apply J2. now apply Hsub.
    - intros t Ht. apply J3. now apply Hsub.
  Qed.

  Lemma sbound_facts st t : sready p st t = true ->
    (forall s, s_pin (stask_of p t) = Some s -> sbound p st t = s) /\
    (s_pin (stask_of p t) = None ->
       (s_lb (stask_of p t) <= sbound p st t)%Z /\
       forall d, In d (s_deps (stask_of p t)) ->
         exists s' e', sdates p st (sd_task d) = Some (s', e') /\ ((if sd_onstart d then s' else e') + sd_gap d <= sbound p st t)%Z).
  Proof.
    intros Hr. unfold sbound. split; [intros s Hs; now rewrite Hs|]. intros Hp. rewrite Hp.
    destruct (sfold_max_ge (sdep_time p st) (s_deps (stask_of p t)) (s_lb (stask_of p t))) as [A B]. split; [exact A|].
    intros d Hd. destruct (sready_spec _ _ Hr d Hd) as [x Hx]. pose proof (B d x Hd Hx) as Hle.
    unfold sdep_time in Hx. destruct (sdates p st (sd_task d)) as [[s' e']|]; [|discriminate]. injection Hx as <-.
    exists s', e'. split; [reflexivity|exact Hle].
  Qed.

  Lemma sstep_JS st work t rest : SInv st -> JS st work -> spick p st work = Some (t, rest) -> JS (sschedule_task p st t) rest.
  Proof.
    intros Hi HJ Hp. destruct (spick_spec _ _ _ _ Hp) as (Hready & Hin & Hnd).
    destruct HJ as [J1 J2 J3 J4]. destruct (Hnd J1) as (Nrest & Ntrest & Hsub).
    assert (HJr : JS st rest) by (apply (JS_sub st work); [constructor; assumption|assumption|assumption]).
    assert (Hunpl : sleaf_dates st t = None) by now apply J2.
    destruct (sbound_facts st t Hready) as [Fpin Fdeps].
    unfold sschedule_task. cbn zeta. set (b := sbound p st t) in *.
    destruct ((b <? 0)%Z || (Z.of_nat (sp_upper p) <? b / sp_G p)%Z) eqn:Eh; [exact HJr|].
    apply orb_false_iff in Eh as [Eh1 Eh2]. apply Z.ltb_ge in Eh1.
    pose proof (wf_G p Hwf) as HG.
    destruct (s_mile (stask_of p t)) eqn:Em.
    - (* milestone at its bound *)
      assert (He : sext st (splace st t (b, b))) by now apply splace_sext.
      constructor; [exact Nrest| | |].
      + intros u Hu. rewrite sleaf_dates_place_other; [apply J2; now apply Hsub|]. intros ->; contradiction.
      + intros u Hu r s. cbn [splace cells]. apply J3. now apply Hsub.
      + intros u f e Hu. destruct (Nat.eq_dec u t) as [->|Hne].
        * rewrite sleaf_dates_place_same in Hu. injection Hu as <- <-. constructor.
          -- lia.
          -- reflexivity.
          -- intros Hm. congruence.
          -- intros Hpin. destruct (Fdeps Hpin) as [A B]. split; [exact A|]. intros d Hd.
             destruct (B d Hd) as (s' & e' & D1 & D2). exists s', e'. split; [eapply sdates_stable; eassumption|exact D2].
          -- intros s Hs. rewrite (Fpin s Hs). split; [lia|reflexivity].
        * rewrite sleaf_dates_place_other in Hu by exact Hne.
          apply (GoodS_stable st); [exact He|reflexivity|now apply J4].
    - (* effort task: the walk *)
      set (r := s_res (stask_of p t)) in *.
      set (slot0 := Z.to_nat (b / sp_G p)) in *.
      assert (Hb0 : (0 <= b / sp_G p)%Z) by (apply Z.div_pos; lia).
      assert (Hslot0 : Z.of_nat slot0 = (b / sp_G p)%Z) by (unfold slot0; lia).
      pose proof (Z.mod_pos_bound b (sp_G p) HG) as Hmod.
      destruct (swalk p t r (sr_eff (sres_of p r)) (s_effort (stask_of p t)) (inject_Z (b mod sp_G p))
                      (S (sp_upper p) - slot0) slot0 0 None st) as [st1 d] eqn:Ew.
      pose proof (swalk_placed _ _ _ _ _ _ _ _ _ _ _ _ Ew) as Hpl.
      pose proof (swalk_others _ _ _ _ _ _ _ _ _ _ _ _ Ew) as Hoth.
      assert (He1 : sext st st1) by (intros u d' Hu; unfold sleaf_dates in *; now rewrite Hpl).
      assert (Hfresh1 : forall u, In u rest -> forall r' s', tent u (cells st1 r' s') = []).
      { intros u Hu r' s'. rewrite Hoth by (intros ->; contradiction). apply J3. now apply Hsub. }
      assert (Hgood1 : forall u f e, u <> t -> sleaf_dates st1 u = Some (f, e) -> GoodS st1 u f e).
      { intros u f e Hne Hu. apply (GoodS_stable st); [exact He1|intros; now apply Hoth|].
        apply J4. unfold sleaf_dates in *. now rewrite Hpl in Hu. }
      destruct d as [[f e]|].
      + assert (Hunpl1 : sleaf_dates st1 t = None) by (unfold sleaf_dates in *; now rewrite Hpl).
        assert (He2 : sext st1 (splace st1 t (f, e))) by now apply splace_sext.
        assert (Hoffq : 0 <= inject_Z (b mod sp_G p) /\ inject_Z (b mod sp_G p) < G).
        { split; [change 0 with (inject_Z 0); rewrite <- Zle_Qle; lia|rewrite <- Zlt_Qlt; lia]. }
        assert (Hnone : forall s0 : Z, @None Z = Some s0 -> (s0 < Z.of_nat slot0 * sp_G p)%Z) by discriminate.
        destruct (swalk_spec t r _ _ _ (wf_eff p Hwf r) (proj1 Hoffq) (proj2 Hoffq) _ _ _ _ _ _ _ _
                    (Qle_refl 0) (wf_work p Hwf t Em) Hi (fun _ => Qeq_refl 0) Hnone Ew)
          as (s1 & x1 & rest' & B).
        cbn zeta in B. destruct B as (B2 & B3 & B4 & B5 & B6 & B7 & B8 & B9 & B10).
        pose proof (B8 eq_refl) as Hf. rewrite Qfloor_Z in Hf.
        assert (Hs1 : (slot0 <= s1)%nat) by (destruct (B2 s1 x1 (or_introl eq_refl)) as (A1 & _); lia).
        assert (Hbf : (b <= f)%Z).
        { rewrite Hf. rewrite (Z.div_mod b (sp_G p)) at 1 by lia. nia. }
        constructor; [exact Nrest| | |].
        * intros u Hu. rewrite sleaf_dates_place_other by (intros ->; contradiction).
          unfold sleaf_dates. rewrite Hpl. apply J2. now apply Hsub.
        * intros u Hu r' s'. cbn [splace cells]. now apply Hfresh1.
        * intros u f' e' Hu. destruct (Nat.eq_dec u t) as [->|Hne].
          -- rewrite sleaf_dates_place_same in Hu. injection Hu as <- <-. constructor.
             ++ exact B10.
             ++ intros Hm. congruence.
             ++ intros _. exists ((s1, x1) :: rest'). unfold Booked. cbn zeta. fold r. cbn [splace cells].
                split; [discriminate|]. split; [exact B3|]. split; [|split; [|split]].
                ** intros s x Hsx. destruct (B2 s x Hsx) as (A1 & A2 & A3 & A4 & A5 & A6 & A7).
                   split; [apply Z.ltb_ge in Eh2; lia|].
                   split; [exact A3|]. split; [exact A4|]. split; [exact A5|]. split; [rewrite A6, (J3 t Hin r s); reflexivity|].
                   split; [exact A7|]. rewrite Hf. nia.
                ** intros r' s' Hrs. rewrite (B4 r' s' Hrs). now apply J3.
                ** rewrite Qplus_0_l in B6. exact B6.
                ** rewrite Qplus_0_l in B7. exact B7.
             ++ intros Hpin. destruct (Fdeps Hpin) as [A B]. split; [lia|]. intros d Hd.
                destruct (B d Hd) as (s' & e' & D1 & D2). exists s', e'. split; [|lia].
                eapply sdates_stable; [exact He2|]. eapply sdates_stable; eassumption.
             ++ intros s Hs. rewrite (Fpin s Hs) in Hbf. split; [exact Hbf|]. intros Hm. congruence.
          -- rewrite sleaf_dates_place_other in Hu by exact Hne.
             apply (GoodS_stable st1); [exact He2|reflexivity|now apply Hgood1].
      + constructor; [exact Nrest| |exact Hfresh1|].
        * intros u Hu. unfold sleaf_dates. rewrite Hpl. apply J2. now apply Hsub.
        * intros u f e Hu. apply Hgood1; [|exact Hu]. intros ->. unfold sleaf_dates in *. rewrite Hpl in Hu. congruence.
  Qed.

  Lemma sschedule_task_inv st t : SInv st -> SInv (sschedule_task p st t).
  Proof.
    intros Hi. unfold sschedule_task. cbn zeta.
    destruct ((sbound p st t <? 0)%Z || (Z.of_nat (sp_upper p) <? sbound p st t / sp_G p)%Z); [exact Hi|].
    destruct (s_mile (stask_of p t)); [exact Hi|].
    destruct (swalk p t _ _ _ _ _ _ 0 None st) as [st' d] eqn:Ew.
    assert (Hi' : SInv st').
    { eapply (swalk_inv t); [apply (wf_eff p Hwf)| | | | | |exact Ew]; try exact Hi; try lra.
      - change 0 with (inject_Z 0). rewrite <- Zle_Qle. apply Z.mod_pos_bound, (wf_G p Hwf).
      - rewrite <- Zle_Qle. apply Z.lt_le_incl, Z.mod_pos_bound, (wf_G p Hwf).
      - apply (wf_effort p Hwf). }
    destruct d; exact Hi'.
  Qed.

  Lemma sloop_inv : forall fuel work st, SInv st -> SInv (sloop p fuel work st).
  Proof.
    induction fuel as [|fuel IH]; intros work st Hi; cbn [sloop]; [exact Hi|].
    destruct (spick p st work) as [[t rest]|]; [|exact Hi]. apply IH. now apply sschedule_task_inv.
  Qed.

  Lemma sprepass_inv : SInv (sprepass p).
  Proof.
    unfold sprepass. generalize (seq 0 (length (sp_tasks p))). intros l.
    assert (H : forall st, SInv st -> SInv (fold_left (fun st t => let k := stask_of p t in
                         if s_leaf k && s_mile k
                         then match s_pin k with
                              | Some s => if (0 <=? s)%Z && (s / sp_G p <=? Z.of_nat (sp_upper p))%Z then splace st t (s, s) else st
                              | None => st end
                         else st) l st)).
    { induction l as [|u l IH]; intros st Hi; cbn [fold_left]; [exact Hi|]. apply IH. cbn zeta.
      destruct (s_leaf _ && s_mile _); [|exact Hi]. destruct (s_pin _) as [s|]; [|exact Hi].
      destruct ((0 <=? s)%Z && _); exact Hi. }
    apply H, sinit_inv.
  Qed.

  (* C01 (sub-slot): in every cell of the final ledger 0 <= sum of the entries <= used <= slot length and no
     entry is negative - with LedgerProofs.inv_layout: the entries can be laid out one after the other inside
     the slot without overlapping.  C02 (sub-slot): entries exist in working slots only. *)
  Theorem sschedule_inv : SInv (sschedule p).
  Proof. unfold sschedule. apply sloop_inv, sprepass_inv. Qed.
  (* ------------------------------------------------------------ C05: limits count bookings *)
  Definition LInv (st : sstate) : Prop := forall l k, (susage p st l k <= sl_value (slim_of p l))%nat.

  Lemma scounts_limits_of l t r s : scounts p l (t, r, s) = true -> In l (slimits_of p t r).
  Proof.
    unfold scounts, slimits_of. intros H. apply in_or_app. apply orb_true_iff in H as [H|H].
    - left. apply existsb_exists in H as (x & Hx & E). apply Nat.eqb_eq in E. now subst.
    - right. apply andb_true_iff in H as [H1 H2]. apply existsb_exists in H1 as (x & Hx & E).
      apply Nat.eqb_eq in E. subst x. apply filter_In. split; [exact Hx|exact H2].
  Qed.

  Lemma note_linv st st0 t r s : sbooked st = sbooked st0 -> LInv st0 ->
    forallb (fun l => slimit_ok p st0 l s) (slimits_of p t r) = true -> LInv (note_booking st t r s).
  Proof.
    intros Hb Hi Hok l k. unfold susage. cbn [note_booking sbooked filter]. rewrite Hb.
    destruct (scounts p l (t, r, s)) eqn:Ec; cbn [andb]; [|apply Hi].
    cbn [snd]. destruct (Z.eqb_spec (sl_period (slim_of p l) s) k) as [<-|Hne]; [|apply Hi].
    apply scounts_limits_of in Ec. rewrite forallb_forall in Hok. specialize (Hok l Ec).
    unfold slimit_ok in Hok. apply Nat.ltb_lt in Hok. cbn [length]. unfold susage in Hok. lia.
  Qed.

  Local Opaque step.
  Lemma swalk_linv t r e need off : forall fuel slot done start st st' d,
    LInv st -> swalk p t r e need off fuel slot done start st = (st', d) -> LInv st'.
  Proof.
    induction fuel as [|fuel IH]; intros slot done start st st' d Hi H; cbn [swalk] in H; [now injection H as <- _|].
    destruct (sr_work (sres_of p r) slot); [|eapply IH; eassumption].
    destruct (_ || _ || negb (forallb (fun l => slimit_ok p st l slot) (slimits_of p t r))) eqn:Eb.
    - eapply IH; [|exact H]. exact Hi.
    - apply orb_false_iff in Eb as [_ El]. apply negb_false_iff in El.
      destruct (Qle_bool _ _).
      + injection H as <- _. eapply note_linv; [reflexivity|exact Hi|exact El].
      + eapply IH; [|exact H]. eapply note_linv; [reflexivity|exact Hi|exact El].
  Qed.
  Local Transparent step.

  Lemma sschedule_task_linv st t : LInv st -> LInv (sschedule_task p st t).
  Proof.
    intros Hi. unfold sschedule_task. cbn zeta.
    destruct ((sbound p st t <? 0)%Z || (Z.of_nat (sp_upper p) <? sbound p st t / sp_G p)%Z); [exact Hi|].
    destruct (s_mile (stask_of p t)); [exact Hi|].
    destruct (swalk p t _ _ _ _ _ _ 0 None st) as [st' d] eqn:Ew.
    pose proof (swalk_linv _ _ _ _ _ _ _ _ _ _ _ _ Hi Ew) as Hi'. destruct d; exact Hi'.
  Qed.

  Lemma sloop_linv : forall fuel work st, LInv st -> LInv (sloop p fuel work st).
  Proof.
    induction fuel as [|fuel IH]; intros work st Hi; cbn [sloop]; [exact Hi|].
    destruct (spick p st work) as [[t rest]|]; [|exact Hi]. apply IH. now apply sschedule_task_linv.
  Qed.

  Lemma sprepass_booked : sbooked (sprepass p) = [].
  Proof.
    unfold sprepass. generalize (seq 0 (length (sp_tasks p))). intros l.
    assert (H : forall st, sbooked st = [] -> sbooked (fold_left (fun st t => let k := stask_of p t in
                         if s_leaf k && s_mile k
                         then match s_pin k with
                              | Some s => if (0 <=? s)%Z && (s / sp_G p <=? Z.of_nat (sp_upper p))%Z then splace st t (s, s) else st
                              | None => st end
                         else st) l st) = []).
    { induction l as [|u l IH]; intros st Hs; cbn [fold_left]; [exact Hs|]. apply IH. cbn zeta.
      destruct (s_leaf _ && s_mile _); [|exact Hs]. destruct (s_pin _) as [s|]; [|exact Hs].
      destruct ((0 <=? s)%Z && _); exact Hs. }
    now apply H.
  Qed.

  (* C05 (seconds): in every period every limit counts at most its value of bookings - a booking is one
     (task, resource, slot) event whatever part of the slot it uses, exactly what Limit.inc counts *)
  Theorem subslot_limits : LInv (sschedule p).
  Proof.
    unfold sschedule. apply sloop_linv. intros l k. unfold susage. rewrite sprepass_booked. cbn. lia.
  Qed.

  (* ------------------------------------------------------------ every ledger entry has its booking event *)
  Definition ECov (st : sstate) : Prop := forall t r s, tent t (cells st r s) <> [] -> In (t, r, s) (sbooked st).

  Lemma ecov_set_same st r s c : ECov st -> (forall u, tent u c = tent u (cells st r s)) -> ECov (set_cell st r s c).
  Proof.
    intros He Hc t r' s' H. cbn [set_cell sbooked]. apply He.
    destruct (Nat.eq_dec r' r) as [->|Hr]; [destruct (Nat.eq_dec s' s) as [->|Hs]|].
    - rewrite cells_set_same in H. now rewrite <- Hc.
    - now rewrite cells_set_other in H by (right; exact Hs).
    - now rewrite cells_set_other in H by (left; exact Hr).
  Qed.

  Lemma ecov_book st r s c t : ECov st -> (forall u, u <> t -> tent u c = tent u (cells st r s)) ->
    ECov (note_booking (set_cell st r s c) t r s).
  Proof.
    intros He Hc u r' s' H. cbn [note_booking sbooked set_cell]. rewrite cells_note in H.
    destruct (Nat.eq_dec r' r) as [->|Hr]; [destruct (Nat.eq_dec s' s) as [->|Hs]|].
    - destruct (Nat.eq_dec u t) as [->|Hu]; [now left|]. right. apply He.
      rewrite cells_set_same in H. now rewrite <- (Hc u Hu).
    - right. apply He. now rewrite cells_set_other in H by (right; exact Hs).
    - right. apply He. now rewrite cells_set_other in H by (left; exact Hr).
  Qed.

  Local Opaque step.
  Lemma swalk_ecov t r e need off : forall fuel slot done start st st' d,
    ECov st -> swalk p t r e need off fuel slot done start st = (st', d) -> ECov st'.
  Proof.
    induction fuel as [|fuel IH]; intros slot done start st st' d Hi H; cbn [swalk] in H; [now injection H as <- _|].
    destruct (sr_work (sres_of p r) slot); [|eapply IH; eassumption].
    set (c0 := cells st r slot) in *.
    set (c1 := if Qeq_bool done 0 then step G c0 (Offset off) else c0) in *.
    assert (Ht1 : forall u, tent u c1 = tent u c0) by (intros u; unfold c1; destruct (Qeq_bool done 0); [apply tent_offset|reflexivity]).
    destruct (_ || _ || _).
    - eapply IH; [|exact H]. apply ecov_set_same; [exact Hi|exact Ht1].
    - destruct (Qle_bool _ _).
      + injection H as <- _. apply ecov_book; [exact Hi|]. intros u Hu.
        rewrite tent_finish_other, tent_book_other by exact Hu. apply Ht1.
      + eapply IH; [|exact H]. apply ecov_book; [exact Hi|]. intros u Hu. rewrite tent_book_other by exact Hu. apply Ht1.
  Qed.
  Local Transparent step.

  Lemma sschedule_task_ecov st t : ECov st -> ECov (sschedule_task p st t).
  Proof.
    intros Hi. unfold sschedule_task. cbn zeta.
    destruct ((sbound p st t <? 0)%Z || (Z.of_nat (sp_upper p) <? sbound p st t / sp_G p)%Z); [exact Hi|].
    destruct (s_mile (stask_of p t)); [exact Hi|].
    destruct (swalk p t _ _ _ _ _ _ 0 None st) as [st' d] eqn:Ew.
    pose proof (swalk_ecov _ _ _ _ _ _ _ _ _ _ _ _ Hi Ew) as Hi'. destruct d; exact Hi'.
  Qed.

  Lemma sloop_ecov : forall fuel work st, ECov st -> ECov (sloop p fuel work st).
  Proof.
    induction fuel as [|fuel IH]; intros work st Hi; cbn [sloop]; [exact Hi|].
    destruct (spick p st work) as [[t rest]|]; [|exact Hi]. apply IH. now apply sschedule_task_ecov.
  Qed.

  Lemma sprepass_cells : cells (sprepass p) = cells sinit.
  Proof.
    unfold sprepass. generalize (seq 0 (length (sp_tasks p))). intros l.
    assert (H : forall st, cells (fold_left (fun st t => let k := stask_of p t in
                         if s_leaf k && s_mile k
                         then match s_pin k with
                              | Some s => if (0 <=? s)%Z && (s / sp_G p <=? Z.of_nat (sp_upper p))%Z then splace st t (s, s) else st
                              | None => st end
                         else st) l st) = cells st).
    { induction l as [|u l IH]; intros st; cbn [fold_left]; [reflexivity|]. rewrite IH. cbn zeta.
      destruct (s_leaf _ && s_mile _); [|reflexivity]. destruct (s_pin _) as [s|]; [|reflexivity].
      destruct ((0 <=? s)%Z && _); reflexivity. }
    apply H.
  Qed.

  Theorem sschedule_ecov : ECov (sschedule p).
  Proof.
    unfold sschedule. apply sloop_ecov. intros t r s H. rewrite sprepass_cells in H. now elim H.
  Qed.

  (* C05 (seconds), in terms of the ledger: the (task, resource, slot) cells that hold work counted by a limit in
     one period are at most the limit's value many - each holds at most one slot length (C01_subslot), so the
     working time a limit counts in a period never exceeds value x slot length = the declared limit *)
  Theorem subslot_limit_cells l k (L : list (nat * nat * nat)) : NoDup L ->
    (forall b, In b L -> tent (fst (fst b)) (cells (sschedule p) (snd (fst b)) (snd b)) <> [] /\
                        scounts p l b = true /\ sl_period (slim_of p l) (snd b) = k) ->
    (length L <= sl_value (slim_of p l))%nat.
  Proof.
    intros Hnd HL. eapply Nat.le_trans; [|apply (subslot_limits l k)]. unfold susage.
    apply NoDup_incl_length; [exact Hnd|]. intros b Hb. destruct (HL b Hb) as (H1 & H2 & H3).
    apply filter_In. split.
    - destruct b as [[t r] s]. apply sschedule_ecov. exact H1.
    - rewrite H2, H3, Z.eqb_refl. reflexivity.
  Qed.

  (* ------------------------------------------------------------ the whole run *)
  Lemma sloop_JS : forall fuel work st, SInv st -> JS st work -> exists rest, JS (sloop p fuel work st) rest.
  Proof.
    induction fuel as [|fuel IH]; intros work st Hi HJ; cbn [sloop]; [eauto|].
    destruct (spick p st work) as [[t rest]|] eqn:E; [|eauto].
    apply (IH rest); [now apply sschedule_task_inv|eapply sstep_JS; eassumption].
  Qed.

  Lemma sinsert_in t : forall l x, In x (sinsert p t l) <-> x = t \/ In x l.
  Proof.
    induction l as [|u tl IH]; intros x; cbn; [intuition congruence|].
    destruct (s_prio (stask_of p u) <? s_prio (stask_of p t))%Z; cbn; [intuition congruence|]. rewrite IH. intuition congruence.
  Qed.

  Lemma sinsert_nodup t : forall l, ~ In t l -> NoDup l -> NoDup (sinsert p t l).
  Proof.
    induction l as [|u tl IH]; intros Hn Hd; cbn; [constructor; [tauto|constructor]|].
    destruct (s_prio (stask_of p u) <? s_prio (stask_of p t))%Z; [constructor; assumption|].
    inversion Hd; subst. constructor.
    - rewrite sinsert_in. intros [->|H]; [apply Hn; now left|contradiction].
    - apply IH; [intros H; apply Hn; now right|assumption].
  Qed.

  Lemma ssorted_leaves_nodup : NoDup (ssorted_leaves p).
  Proof.
    unfold ssorted_leaves.
    assert (Gn : forall n k acc, NoDup acc -> (forall x, In x acc -> (x < k)%nat) ->
                NoDup (fold_left (fun acc t => if s_leaf (stask_of p t) then sinsert p t acc else acc) (seq k n) acc)).
    { induction n as [|n IH]; intros k acc Hd Hlt; cbn [seq fold_left]; [exact Hd|].
      apply IH.
      - destruct (s_leaf (stask_of p k)); [|exact Hd]. apply sinsert_nodup; [|exact Hd].
        intros H. specialize (Hlt _ H). lia.
      - intros x Hx. destruct (s_leaf (stask_of p k)).
        + apply sinsert_in in Hx as [->|Hx]; [lia|]. specialize (Hlt _ Hx). lia.
        + specialize (Hlt _ Hx). lia. }
    apply Gn; [constructor|intros x []].
  Qed.

  Definition spre_step (st : sstate) (t : nat) : sstate :=
    let k := stask_of p t in
    if s_leaf k && s_mile k
    then match s_pin k with
         | Some s => if (0 <=? s)%Z && (s / sp_G p <=? Z.of_nat (sp_upper p))%Z then splace st t (s, s) else st
         | None => st end
    else st.

  Lemma sprepass_spec : forall l st,
    NoDup l -> (forall t, In t l -> sleaf_dates st t = None) ->
    let st' := fold_left spre_step l st in
    cells st' = cells st /\
    forall t d, sleaf_dates st' t = Some d ->
      sleaf_dates st t = Some d \/
      (exists s, d = (s, s) /\ s_pin (stask_of p t) = Some s /\ s_mile (stask_of p t) = true).
  Proof.
    induction l as [|u tl IH]; intros st Hd Hn; cbn [fold_left]; [split; [reflexivity|intros; now left]|].
    inversion Hd as [|? ? Hu Htl]; subst.
    assert (Hc1 : cells (spre_step st u) = cells st).
    { unfold spre_step. cbn zeta. destruct (s_leaf _ && _); [|reflexivity]. destruct (s_pin _) as [s|]; [|reflexivity].
      destruct ((0 <=? s)%Z && _); reflexivity. }
    assert (Hn1 : forall t, In t tl -> sleaf_dates (spre_step st u) t = None).
    { intros t Ht. unfold spre_step. cbn zeta. destruct (s_leaf _ && _); [|apply Hn; now right].
      destruct (s_pin _) as [s|]; [|apply Hn; now right]. destruct ((0 <=? s)%Z && _); [|apply Hn; now right].
      rewrite sleaf_dates_place_other; [apply Hn; now right|]. intros ->. contradiction. }
    destruct (IH _ Htl Hn1) as [A B]. split; [now rewrite A|].
    intros t d Ht. destruct (B t d Ht) as [B1|B1]; [|now right].
    unfold spre_step in B1. cbn zeta in B1.
    destruct (s_leaf (stask_of p u) && s_mile (stask_of p u)) eqn:E; [|now left].
    destruct (s_pin (stask_of p u)) as [s|] eqn:Ep; [|now left].
    destruct ((0 <=? s)%Z && (s / sp_G p <=? Z.of_nat (sp_upper p))%Z); [|now left].
    destruct (Nat.eq_dec t u) as [->|Hne].
    - rewrite sleaf_dates_place_same in B1. injection B1 as <-. right. exists s.
      apply andb_true_iff in E as [_ E]. auto.
    - rewrite sleaf_dates_place_other in B1 by exact Hne. now left.
  Qed.

  Definition swork0 : list nat :=
    filter (fun t => match sleaf_dates (sprepass p) t with Some _ => false | None => true end) (ssorted_leaves p).

  Lemma sprepass_JS : JS (sprepass p) swork0.
  Proof.
    assert (H := sprepass_spec (seq 0 (length (sp_tasks p))) sinit (seq_NoDup _ _) (fun t _ => eq_refl)).
    change (fold_left spre_step (seq 0 (length (sp_tasks p))) sinit) with (sprepass p) in H. cbn zeta in H.
    destruct H as [Hc Hp]. constructor.
    - apply NoDup_filter, ssorted_leaves_nodup.
    - intros t Ht. apply filter_In in Ht as [_ Ht]. destruct (sleaf_dates (sprepass p) t); [discriminate|reflexivity].
    - intros t _ r s. rewrite Hc. reflexivity.
    - intros t f e Ht. destruct (Hp t _ Ht) as [Hi|(s & Hd & Hpin & Hm)]; [discriminate|].
      injection Hd as -> ->. constructor.
      + lia.
      + reflexivity.
      + intros Hm'. congruence.
      + intros Hn. congruence.
      + intros s' Hs'. assert (s' = s) by congruence. subst. split; [lia|reflexivity].
  Qed.

  Theorem sfinal_JS : exists rest, JS (sschedule p) rest.
  Proof. unfold sschedule. apply sloop_JS; [apply sprepass_inv|apply sprepass_JS]. Qed.

  (* ================================================================== the theorems *)
  Local Notation final := (sschedule p).

  (* C03 (seconds): a placed task with work has exactly one entry in each of the slots it booked - every one
     of them working time of its resource, overlapping [start, end] - and none anywhere else; the seconds,
     weighted by the efficiency, add up to the effort (to within the 3.6 microseconds of the completion test) *)
  Theorem subslot_effort t f e : sleaf_dates final t = Some (f, e) -> s_mile (stask_of p t) = false ->
    exists bs, Booked final t f e bs.
  Proof. intros Ht Hm. destruct sfinal_JS as [rest HJ]. exact (gs_work _ _ _ _ (js_good _ _ HJ t f e Ht) Hm). Qed.

  (* C06 (seconds): start <= end; a milestone has start = end *)
  Theorem subslot_frame t f e : sleaf_dates final t = Some (f, e) ->
    (f <= e)%Z /\ (s_mile (stask_of p t) = true -> f = e).
  Proof.
    intros Ht. destruct sfinal_JS as [rest HJ]. pose proof (js_good _ _ HJ t f e Ht) as Hg.
    split; [exact (gs_order _ _ _ _ Hg)|exact (gs_mile _ _ _ _ Hg)].
  Qed.

  (* C04 (seconds): a task without a start of its own starts no earlier than end (start) of every predecessor
     plus the gap in seconds, and no earlier than the start inherited from a dated container; a milestone
     with a start of its own is at that instant and an effort task does not start before it *)
  Theorem subslot_deps t f e : sleaf_dates final t = Some (f, e) ->
    (s_pin (stask_of p t) = None ->
       (s_lb (stask_of p t) <= f)%Z /\
       forall d, In d (s_deps (stask_of p t)) ->
         exists s' e', sdates p final (sd_task d) = Some (s', e') /\ ((if sd_onstart d then s' else e') + sd_gap d <= f)%Z) /\
    (forall s, s_pin (stask_of p t) = Some s -> (s <= f)%Z /\ (s_mile (stask_of p t) = true -> f = s)).
  Proof.
    intros Ht. destruct sfinal_JS as [rest HJ]. pose proof (js_good _ _ HJ t f e Ht) as Hg.
    split; [exact (gs_deps _ _ _ _ Hg)|exact (gs_pin _ _ _ _ Hg)].
  Qed.
End SubSlot.
