(* Dates in the second-granularity team scheduler (Model/SubSlotTeam.v): start <= end, a task starts no earlier than
   its predecessors allow, containers span their leaves. *)
From Coq Require Import QArith Qround Qminmax List Bool Arith ZArith Lia Lqa.
Require Import SP.Model.Ledger SP.Proofs.LedgerProofs SP.Model.SubSlot SP.Model.SubSlotTeam SP.Proofs.SubSlotProofs
               SP.Proofs.SubSlotMore SP.Proofs.SubSlotTeamProofs SP.Proofs.SubSlotTeamEffort.
Import ListNotations.

Section TeamDates.
  Variable p : tproject.
  Hypothesis Hwf : twf p.
  Local Notation G := (inject_Z (tp_G p)).

  Local Opaque step.
  (* in the first booked slot every member's cell holds the offset before the booking *)
  Lemma book_members_first t off cap slot : forall team st st' l,
    book_members p t off true cap slot team st = (st', l) -> forall x, In x l -> off <= snd x.
  Proof.
    induction team as [|r tl IH]; intros st st' l H x Hx; cbn [book_members] in H.
    - injection H as _ <-. destruct Hx.
    - destruct (sr_work (tres_of p r) slot); [|eapply IH; eassumption].
      destruct (_ || _ || negb _); [eapply IH; eassumption|].
      destruct (book_members p t off true cap slot tl _) as [st2 l2] eqn:E2. injection H as _ <-.
      destruct Hx as [<-|Hx]; [|eapply IH; eassumption]. cbn [snd].
      destruct (pre_used p true off (cells st r slot)) as [E|[E _]]; [|discriminate].
      unfold pre in E. rewrite E. apply Q.le_max_r.
  Qed.
  Local Transparent step.

  Lemma qmax_list_in (l : list Q) x : In x l -> x <= qmax_list l.
  Proof. unfold qmax_list. exact (proj2 (qmax_list_ge l 0 x)). Qed.
  Lemma qmax_list_nonneg (l : list Q) : 0 <= qmax_list l.
  Proof. unfold qmax_list. exact (proj1 (qmax_list_ge l 0 0)). Qed.

  Local Opaque release_members book_members.
  Lemma twalk_dates t team e need off : 0 < e -> 0 <= off -> off < G ->
    forall fuel slot done start st st' f e',
      0 <= done -> done <= need ->
      (start = None -> done == 0) ->
      (forall s0, start = Some s0 -> (s0 < Z.of_nat slot * tp_G p)%Z) ->
      twalk p t team e need off fuel slot done start st = (st', Some (f, e')) ->
      (f <= e')%Z /\
      (start = None -> exists s1, (slot <= s1)%nat /\ f = (Z.of_nat s1 * tp_G p + Qfloor off)%Z) /\
      (forall s0, start = Some s0 -> f = s0).
  Proof.
    intros He Ho1 Ho2. pose proof (twf_G p Hwf) as HG.
    assert (Hoffb : (0 <= Qfloor off < tp_G p)%Z).
    { split.
      - rewrite <- (Qfloor_Z 0). apply Qfloor_resp_le. exact Ho1.
      - pose proof (Qfloor_le off) as F. rewrite Zlt_Qlt. lra. }
    induction fuel as [|fuel IH]; intros slot done start st st' f e' Hd1 Hd2 Hs0 Hs1 H; cbn [twalk] in H; [discriminate|].
    assert (Hnext : forall s0, start = Some s0 -> (s0 < Z.of_nat (S slot) * tp_G p)%Z).
    { intros s0 E0. specialize (Hs1 s0 E0). nia. }
    assert (Hlater : forall st1, twalk p t team e need off fuel (S slot) done start st1 = (st', Some (f, e')) ->
              (f <= e')%Z /\ (start = None -> exists s1, (slot <= s1)%nat /\ f = (Z.of_nat s1 * tp_G p + Qfloor off)%Z) /\
              (forall s0, start = Some s0 -> f = s0)).
    { intros st1 H1. destruct (IH (S slot) done start st1 st' f e' Hd1 Hd2 Hs0 Hnext H1) as (A & B & C).
      split; [exact A|]. split; [|exact C]. intros En. destruct (B En) as (s1 & L & E). exists s1. split; [lia|exact E]. }
    destruct (_ && negb _); [now apply (Hlater st)|].
    destruct (book_members p t off (Qeq_bool done 0) _ slot team st) as [st1 booked] eqn:Eb.
    destruct booked as [|x0 bk]; [now apply (Hlater st1)|].
    set (booked := x0 :: bk) in *.
    set (gained := qmax_list (map (fun x => snd (fst x) * sr_eff (tres_of p (fst (fst x)))) booked)) in *.
    assert (Hg : 0 <= gained) by apply qmax_list_nonneg.
    set (start' := match start with Some s => s | None => (Z.of_nat slot * tp_G p + Qfloor off)%Z end) in *.
    destruct (Qle_bool (need - tol_done) (done + gained)) eqn:Ef.
    - injection H as _ Hf He'.
      set (needed := Qmin ((need - done) / e) G) in *.
      assert (Hq : 0 <= (need - done) / e) by (apply Qle_shift_div_l; [exact He|]; rewrite Qmult_0_l; lra).
      assert (Hn0 : 0 <= needed).
      { apply Q.min_glb; [exact Hq|]. change 0 with (inject_Z 0). rewrite <- Zle_Qle. lia. }
      set (ub := qmax_list (map snd booked)) in *.
      assert (Hub : 0 <= ub) by apply qmax_list_nonneg.
      split; [|split].
      + rewrite <- Hf, <- He'. change (qmax_list (snd x0 :: map snd bk)) with ub. unfold start'. destruct start as [s0|].
        * specialize (Hs1 s0 eq_refl).
          assert ((0 <= round_half_even (ub + needed))%Z).
          { apply (round_bounds _ 0 (Qceiling (ub + needed))); [|apply Qle_ceiling]. change (inject_Z 0) with 0. lra. }
          lia.
        * assert (Hz : done == 0) by now apply Hs0. apply Qeq_bool_iff in Hz. rewrite Hz in Eb.
          assert (Hoff : off <= ub).
          { eapply Qle_trans; [exact (book_members_first _ _ _ _ _ _ _ _ Eb x0 (or_introl eq_refl))|].
            apply qmax_list_in. apply in_map. now left. }
          assert ((Qfloor off <= round_half_even (ub + needed))%Z).
          { apply (round_bounds _ (Qfloor off) (Qceiling (ub + needed))); [|apply Qle_ceiling].
            pose proof (Qfloor_le off). lra. }
          lia.
      + intros En. exists slot. split; [lia|]. rewrite <- Hf. unfold start'. now rewrite En.
      + intros s0 Es. rewrite <- Hf. unfold start'. now rewrite Es.
    - assert (Hf : ~ need - tol_done <= done + gained) by (intros Hle; apply Qle_bool_iff in Hle; congruence).
      apply Qnot_le_lt in Hf.
      destruct (IH (S slot) (done + gained) (Some start') st1 st' f e') as (A & B & C);
        [lra|unfold tol_done in Hf; lra|discriminate| |exact H|].
      { intros s0 [= <-]. unfold start'. destruct start as [s0|]; [specialize (Hs1 s0 eq_refl); nia|nia]. }
      split; [exact A|]. split.
      + intros En. exists slot. split; [lia|]. rewrite (C start' eq_refl). unfold start'. now rewrite En.
      + intros s0 Es. rewrite (C start' eq_refl). unfold start'. now rewrite Es.
  Qed.
  Local Transparent release_members book_members.

  (* ------------------------------------------------------------ what a placed task looks like *)
  Record GoodT (st : sstate) (t : nat) (f e : Z) : Prop := {
    gt_order : (f <= e)%Z;
    gt_mile : tt_mile (ttask_of p t) = true -> f = e;
    gt_deps : tt_pin (ttask_of p t) = None ->
              (tt_lb (ttask_of p t) <= f)%Z /\
              forall d, In d (tt_deps (ttask_of p t)) ->
                exists s' e', tdates p st (sd_task d) = Some (s', e') /\ ((if sd_onstart d then s' else e') + sd_gap d <= f)%Z;
    gt_pin : forall s, tt_pin (ttask_of p t) = Some s -> (s <= f)%Z /\ (tt_mile (ttask_of p t) = true -> f = s)
  }.

  Lemma tdates_stable st st' t d : sext st st' -> tdates p st t = Some d -> tdates p st' t = Some d.
  Proof. intros He. unfold tdates. destruct (tt_leaf (ttask_of p t)); [apply He|now apply sspan_stable]. Qed.

  Lemma GoodT_stable st st' t f e : sext st st' -> GoodT st t f e -> GoodT st' t f e.
  Proof.
    intros He [G1 G2 G4 G5]. constructor; try assumption.
    intros Hp. destruct (G4 Hp) as [A B]. split; [exact A|]. intros d Hd. destruct (B d Hd) as (s' & e' & D1 & D2).
    exists s', e'. split; [eapply tdates_stable; eassumption|exact D2].
  Qed.

  Record TD (st : sstate) (work : list nat) : Prop := {
    td_nodup : NoDup work;
    td_unplaced : forall t, In t work -> sleaf_dates st t = None;
    td_good : forall t f e, sleaf_dates st t = Some (f, e) -> GoodT st t f e
  }.

  Lemma tready_spec st t : tready p st t = true ->
    forall d, In d (tt_deps (ttask_of p t)) -> exists x, tdep_time p st d = Some x.
  Proof.
    unfold tready. rewrite forallb_forall. intros H d Hd. specialize (H d Hd). unfold tdep_time.
    destruct (tdates p st (sd_task d)) as [[s e]|]; [eauto|discriminate].
  Qed.

  Lemma tpick_ready st : forall work t rest, tpick p st work = Some (t, rest) -> tready p st t = true.
  Proof.
    induction work as [|u tl IH]; intros t rest H; cbn in H; [discriminate|].
    destruct (tready p st u) eqn:E.
    - now injection H as <- _.
    - destruct (tpick p st tl) as [[v rest']|] eqn:Ep; [|discriminate]. injection H as <- _. eapply IH; reflexivity.
  Qed.

  Lemma tbound_facts st t : tready p st t = true ->
    (forall s, tt_pin (ttask_of p t) = Some s -> tbound p st t = s) /\
    (tt_pin (ttask_of p t) = None ->
       (tt_lb (ttask_of p t) <= tbound p st t)%Z /\
       forall d, In d (tt_deps (ttask_of p t)) ->
         exists s' e', tdates p st (sd_task d) = Some (s', e') /\ ((if sd_onstart d then s' else e') + sd_gap d <= tbound p st t)%Z).
  Proof.
    intros Hr. unfold tbound. split; [intros s Hs; now rewrite Hs|]. intros Hp. rewrite Hp.
    destruct (sfold_max_ge (tdep_time p st) (tt_deps (ttask_of p t)) (tt_lb (ttask_of p t))) as [A B]. split; [exact A|].
    intros d Hd. destruct (tready_spec _ _ Hr d Hd) as [x Hx]. pose proof (B d x Hd Hx) as Hle.
    unfold tdep_time in Hx. destruct (tdates p st (sd_task d)) as [[s' e']|]; [|discriminate]. injection Hx as <-.
    exists s', e'. split; [reflexivity|exact Hle].
  Qed.

  Lemma tstep_TD st work t rest : TD st work -> tpick p st work = Some (t, rest) -> TD (tschedule_task p st t) rest.
  Proof.
    intros [J1 J2 J4] Hp. pose proof (tpick_ready _ _ _ _ Hp) as Hready.
    destruct (tpick_spec p _ _ _ _ Hp) as (Hin & Hnd). destruct (Hnd J1) as (Nrest & Ntrest & Hsub).
    assert (HJr : TD st rest) by (constructor; [exact Nrest| |exact J4]; intros u Hu; apply J2; now apply Hsub).
    assert (Hunpl : sleaf_dates st t = None) by now apply J2.
    destruct (tbound_facts st t Hready) as [Fpin Fdeps].
    unfold tschedule_task. cbn zeta. set (b := tbound p st t) in *.
    destruct ((b <? 0)%Z || (Z.of_nat (tp_upper p) <? b / tp_G p)%Z) eqn:Eh; [exact HJr|].
    apply orb_false_iff in Eh as [Eh1 _]. apply Z.ltb_ge in Eh1. pose proof (twf_G p Hwf) as HG.
    destruct (tt_mile (ttask_of p t)) eqn:Em.
    - assert (He : sext st (splace st t (b, b))) by now apply splace_sext.
      constructor; [exact Nrest| |].
      + intros u Hu. rewrite tleaf_place_other by (intros ->; contradiction). apply J2. now apply Hsub.
      + intros u f e Hu. destruct (Nat.eq_dec u t) as [->|Hne].
        * rewrite tleaf_place_same in Hu. injection Hu as <- <-. constructor.
          -- lia.
          -- reflexivity.
          -- intros Hpin. destruct (Fdeps Hpin) as [A B]. split; [exact A|]. intros d Hd.
             destruct (B d Hd) as (s' & e' & D1 & D2). exists s', e'. split; [eapply tdates_stable; eassumption|exact D2].
          -- intros s Hs. rewrite (Fpin s Hs). split; [lia|reflexivity].
        * rewrite tleaf_place_other in Hu by exact Hne. apply (GoodT_stable st); [exact He|now apply J4].
    - destruct (tt_team (ttask_of p t)) as [|r0 tl] eqn:Et; [exact HJr|].
      set (team := r0 :: tl) in *. set (slot0 := Z.to_nat (b / tp_G p)) in *.
      assert (Hb0 : (0 <= b / tp_G p)%Z) by (apply Z.div_pos; lia).
      assert (Hslot0 : Z.of_nat slot0 = (b / tp_G p)%Z) by (unfold slot0; lia).
      pose proof (Z.mod_pos_bound b (tp_G p) HG) as Hmod.
      destruct (twalk p t team (team_eff p team) (tt_effort (ttask_of p t)) (inject_Z (b mod tp_G p))
                      (S (tp_upper p) - slot0) slot0 0 None st) as [st1 d] eqn:Ew.
      destruct (twalk_frame p _ _ _ _ _ _ _ _ _ _ _ _ Ew) as [_ Hpl].
      assert (He1 : sext st st1) by (intros u d' Hu; unfold sleaf_dates in *; now rewrite Hpl).
      assert (Hgood1 : forall u f e, sleaf_dates st1 u = Some (f, e) -> GoodT st1 u f e).
      { intros u f e Hu. apply (GoodT_stable st); [exact He1|]. apply J4. unfold sleaf_dates in *. now rewrite Hpl in Hu. }
      destruct d as [[f e]|].
      + assert (Hunpl1 : sleaf_dates st1 t = None) by (unfold sleaf_dates in *; now rewrite Hpl).
        assert (He2 : sext st1 (splace st1 t (f, e))) by now apply splace_sext.
        assert (Hoffq : 0 <= inject_Z (b mod tp_G p) /\ inject_Z (b mod tp_G p) < G).
        { split; [change 0 with (inject_Z 0); rewrite <- Zle_Qle; lia|rewrite <- Zlt_Qlt; lia]. }
        assert (Hnone : forall s0 : Z, @None Z = Some s0 -> (s0 < Z.of_nat slot0 * tp_G p)%Z) by discriminate.
        assert (Hteam : team <> []) by discriminate.
        destruct (twalk_dates t team _ _ _ (team_eff_pos p Hwf team Hteam) (proj1 Hoffq) (proj2 Hoffq) _ _ _ _ _ _ _ _
                    (Qle_refl 0) (Qlt_le_weak _ _ (twf_work p Hwf t Em)) (fun _ => Qeq_refl 0) Hnone Ew) as (B10 & B8 & _).
        destruct (B8 eq_refl) as (s1 & Hs1 & Hf). rewrite Qfloor_Z in Hf.
        assert (Hbf : (b <= f)%Z).
        { rewrite Hf. rewrite (Z.div_mod b (tp_G p)) at 1 by lia. nia. }
        constructor; [exact Nrest| |].
        * intros u Hu. rewrite tleaf_place_other by (intros ->; contradiction).
          unfold sleaf_dates. rewrite Hpl. apply J2. now apply Hsub.
        * intros u f' e' Hu. destruct (Nat.eq_dec u t) as [->|Hne].
          -- rewrite tleaf_place_same in Hu. injection Hu as <- <-. constructor.
             ++ exact B10.
             ++ intros Hm. congruence.
             ++ intros Hpin. destruct (Fdeps Hpin) as [A B]. split; [lia|]. intros d Hd.
                destruct (B d Hd) as (s' & e' & D1 & D2). exists s', e'. split; [|lia].
                eapply tdates_stable; [exact He2|]. eapply tdates_stable; eassumption.
             ++ intros s Hs. rewrite (Fpin s Hs) in Hbf. split; [exact Hbf|]. intros Hm. congruence.
          -- rewrite tleaf_place_other in Hu by exact Hne.
             apply (GoodT_stable st1); [exact He2|now apply Hgood1].
      + constructor; [exact Nrest| |exact Hgood1].
        intros u Hu. unfold sleaf_dates. rewrite Hpl. apply J2. now apply Hsub.
  Qed.

  Lemma tloop_TD : forall fuel work st, TD st work -> exists rest, TD (tloop p fuel work st) rest.
  Proof.
    induction fuel as [|fuel IH]; intros work st HJ; cbn [tloop]; [eauto|].
    destruct (tpick p st work) as [[t rest]|] eqn:E; [|eauto].
    apply (IH rest). eapply tstep_TD; eassumption.
  Qed.

  Lemma tprepass_dates : forall l st,
    NoDup l -> (forall t, In t l -> sleaf_dates st t = None) ->
    forall t d, sleaf_dates (fold_left (tpre_step p) l st) t = Some d ->
      sleaf_dates st t = Some d \/
      (exists s, d = (s, s) /\ tt_pin (ttask_of p t) = Some s /\ tt_mile (ttask_of p t) = true).
  Proof.
    induction l as [|u tl IH]; intros st Hd Hn; cbn [fold_left]; [intros; now left|].
    inversion Hd as [|? ? Hu Htl]; subst.
    assert (Hn1 : forall t, In t tl -> sleaf_dates (tpre_step p st u) t = None).
    { intros t Ht. unfold tpre_step. cbn zeta. destruct (tt_leaf _ && _); [|apply Hn; now right].
      destruct (tt_pin _) as [s|]; [|apply Hn; now right]. destruct ((0 <=? s)%Z && _); [|apply Hn; now right].
      rewrite tleaf_place_other; [apply Hn; now right|]. intros ->. contradiction. }
    intros t d Ht. destruct (IH _ Htl Hn1 t d Ht) as [B1|B1]; [|now right].
    unfold tpre_step in B1. cbn zeta in B1.
    destruct (tt_leaf (ttask_of p u) && tt_mile (ttask_of p u)) eqn:E; [|now left].
    destruct (tt_pin (ttask_of p u)) as [s|] eqn:Ep; [|now left].
    destruct ((0 <=? s)%Z && (s / tp_G p <=? Z.of_nat (tp_upper p))%Z); [|now left].
    destruct (Nat.eq_dec t u) as [->|Hne].
    - rewrite tleaf_place_same in B1. injection B1 as <-. right. exists s.
      apply andb_true_iff in E as [_ E]. auto.
    - rewrite tleaf_place_other in B1 by exact Hne. now left.
  Qed.

  Lemma tprepass_TD : TD (tprepass p) (filter (fun t => match sleaf_dates (tprepass p) t with Some _ => false | None => true end) (tsorted_leaves p)).
  Proof.
    pose proof (tprepass_dates (seq 0 (length (tp_tasks p))) sinit (seq_NoDup _ _) (fun t _ => eq_refl)) as Hp.
    change (fold_left (tpre_step p) (seq 0 (length (tp_tasks p))) sinit) with (tprepass p) in Hp.
    constructor.
    - apply NoDup_filter, tsorted_leaves_nodup.
    - intros t Ht. apply filter_In in Ht as [_ Ht]. destruct (sleaf_dates (tprepass p) t); [discriminate|reflexivity].
    - intros t f e Ht. destruct (Hp t _ Ht) as [Hi|(s & Hd & Hpin & Hm)]; [discriminate|].
      injection Hd as -> ->. constructor.
      + lia.
      + reflexivity.
      + intros Hn. congruence.
      + intros s' Hs'. assert (s' = s) by congruence. subst. split; [lia|reflexivity].
  Qed.

  Local Notation final := (tschedule p).

  (* C06 (seconds, teams): start <= end; a milestone has start = end *)
  Theorem team_frame t f e : sleaf_dates final t = Some (f, e) -> (f <= e)%Z /\ (tt_mile (ttask_of p t) = true -> f = e).
  Proof.
    intros Ht. unfold tschedule in *. cbn zeta in *.
    set (work := filter (fun t => match sleaf_dates (tprepass p) t with Some _ => false | None => true end) (tsorted_leaves p)) in *.
    destruct (tloop_TD (length work) work (tprepass p) tprepass_TD) as [rest HJ]. pose proof (td_good _ _ HJ t f e Ht) as Hg.
    split; [exact (gt_order _ _ _ _ Hg)|exact (gt_mile _ _ _ _ Hg)].
  Qed.

  (* C04 (seconds, teams): a task without a start of its own starts no earlier than end (start) of every predecessor
     plus the gap, and no earlier than the start inherited from a dated container; a milestone with a start of its own
     is at that instant and an effort task does not start before it *)
  Theorem team_deps t f e : sleaf_dates final t = Some (f, e) ->
    (tt_pin (ttask_of p t) = None ->
       (tt_lb (ttask_of p t) <= f)%Z /\
       forall d, In d (tt_deps (ttask_of p t)) ->
         exists s' e', tdates p final (sd_task d) = Some (s', e') /\ ((if sd_onstart d then s' else e') + sd_gap d <= f)%Z) /\
    (forall s, tt_pin (ttask_of p t) = Some s -> (s <= f)%Z /\ (tt_mile (ttask_of p t) = true -> f = s)).
  Proof.
    intros Ht. unfold tschedule in *. cbn zeta in *.
    set (work := filter (fun t => match sleaf_dates (tprepass p) t with Some _ => false | None => true end) (tsorted_leaves p)) in *.
    destruct (tloop_TD (length work) work (tprepass p) tprepass_TD) as [rest HJ]. pose proof (td_good _ _ HJ t f e Ht) as Hg.
    split; [exact (gt_deps _ _ _ _ Hg)|exact (gt_pin _ _ _ _ Hg)].
  Qed.
End TeamDates.

(* C10 (seconds, teams): a container has dates iff every leaf below it has; then earliest start / latest end *)
Theorem team_container (p : tproject) c : tt_leaf (ttask_of p c) = false -> tt_leaves (ttask_of p c) <> [] ->
  let st := tschedule p in
  (forall s e, tdates p st c = Some (s, e) ->
     (forall t, In t (tt_leaves (ttask_of p c)) -> exists d, sleaf_dates st t = Some d) /\
     (forall t s' e', In t (tt_leaves (ttask_of p c)) -> sleaf_dates st t = Some (s', e') -> (s <= s')%Z /\ (e' <= e)%Z) /\
     (exists t s' e', In t (tt_leaves (ttask_of p c)) /\ sleaf_dates st t = Some (s', e') /\ s' = s) /\
     (exists t s' e', In t (tt_leaves (ttask_of p c)) /\ sleaf_dates st t = Some (s', e') /\ e' = e)) /\
  (tdates p st c = None -> exists t, In t (tt_leaves (ttask_of p c)) /\ sleaf_dates st t = None).
Proof.
  intros Hc Hne st. unfold tdates. rewrite Hc. destruct (sspan_spec st _ Hne) as [A B]. split; [|exact B].
  intros s e H. exact (A _ H).
Qed.
