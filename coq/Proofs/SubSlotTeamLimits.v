(* Limits in the second-granularity team scheduler (Model/SubSlotTeam.v): every limit counts at most its value of
   booking events in every period, and every ledger entry has its booking event. *)
From Coq Require Import QArith Qround Qminmax List Bool Arith ZArith Lia Lqa.
Require Import SP.Model.Ledger SP.Proofs.LedgerProofs SP.Model.SubSlot SP.Model.SubSlotTeam SP.Proofs.SubSlotProofs
               SP.Proofs.SubSlotTeamProofs SP.Proofs.SubSlotTeamEffort.
Import ListNotations.

Section TeamLimits.
  Variable p : tproject.
  Local Notation G := (inject_Z (tp_G p)).

  Definition TLInv (st : sstate) : Prop := forall l k, (tusage p (sbooked st) l k <= sl_value (tlim_of p l))%nat.

  Lemma tcounts_limits_of l t r s : tcounts p l (t, r, s) = true -> In l (tlimits_of p t r).
  Proof.
    unfold tcounts, tlimits_of. intros H. apply in_or_app. apply orb_true_iff in H as [H|H].
    - left. apply existsb_exists in H as (x & Hx & E). apply Nat.eqb_eq in E. now subst.
    - right. apply andb_true_iff in H as [H1 H2]. apply existsb_exists in H1 as (x & Hx & E).
      apply Nat.eqb_eq in E. subst x. apply filter_In. split; [exact Hx|exact H2].
  Qed.

  Lemma tnote_linv st st0 t r s : sbooked st = sbooked st0 -> TLInv st0 ->
    tlimits_ok p (sbooked st0) t r s = true -> TLInv (note_booking st t r s).
  Proof.
    intros Hb Hi Hok l k. unfold tusage. cbn [note_booking sbooked filter]. rewrite Hb.
    destruct (tcounts p l (t, r, s)) eqn:Ec; cbn [andb]; [|apply Hi].
    cbn [snd]. destruct (Z.eqb_spec (sl_period (tlim_of p l) s) k) as [<-|Hne]; [|apply Hi].
    apply tcounts_limits_of in Ec. unfold tlimits_ok in Hok. rewrite forallb_forall in Hok. specialize (Hok l Ec).
    apply Nat.ltb_lt in Hok. cbn [length]. unfold tusage in Hok. lia.
  Qed.

  Definition TECov (st : sstate) : Prop := forall t r s, tent t (cells st r s) <> [] -> In (t, r, s) (sbooked st).

  Local Opaque step.
  Lemma book_members_linv t off first cap slot : forall team st st' l,
    TLInv st -> TECov st -> book_members p t off first cap slot team st = (st', l) ->
    TLInv st' /\ TECov st' /\ forall x, In x l -> In (t, fst (fst x), slot) (sbooked st').
  Proof.
    induction team as [|r tl IH]; intros st st' l Hi He H; cbn [book_members] in H.
    - injection H as <- <-. split; [exact Hi|]. split; [exact He|intros x []].
    - destruct (sr_work (tres_of p r) slot); [|eapply IH; eassumption].
      set (c0 := cells st r slot) in *.
      set (c1 := if first then step G c0 (Offset off) else c0) in *.
      assert (Ht1 : forall u, tent u c1 = tent u c0) by (intros u; unfold c1; destruct first; [apply tent_offset|reflexivity]).
      destruct (_ || _ || negb (tlimits_ok p (sbooked st) t r slot)) eqn:Eb.
      + eapply IH; [| |exact H]; [exact Hi|].
        intros u r' s' Hne. cbn [set_cell sbooked]. apply He.
        destruct (Nat.eq_dec r' r) as [->|Hr]; [destruct (Nat.eq_dec s' slot) as [->|Hs]|].
        * rewrite tcells_set_same in Hne. now rewrite Ht1 in Hne.
        * now rewrite tcells_set_other in Hne by (right; exact Hs).
        * now rewrite tcells_set_other in Hne by (left; exact Hr).
      + apply orb_false_iff in Eb as [_ El]. apply negb_false_iff in El.
        destruct (book_members p t off first cap slot tl _) as [st2 l2] eqn:E2. injection H as <- <-.
        assert (Hi2 : TLInv (note_booking (set_cell st r slot (step G c1 (Book t cap))) t r slot))
          by exact (tnote_linv (set_cell st r slot (step G c1 (Book t cap))) st t r slot eq_refl Hi El).
        assert (He2 : TECov (note_booking (set_cell st r slot (step G c1 (Book t cap))) t r slot)).
        { intros u r' s' Hne. rewrite cells_note in Hne. cbn [note_booking set_cell sbooked].
          destruct (Nat.eq_dec r' r) as [->|Hr]; [destruct (Nat.eq_dec s' slot) as [->|Hs]|].
          -- rewrite tcells_set_same in Hne. destruct (Nat.eq_dec u t) as [->|Hu]; [now left|].
             right. apply He. rewrite tent_book_other in Hne by exact Hu. now rewrite Ht1 in Hne.
          -- right. apply He. now rewrite tcells_set_other in Hne by (right; exact Hs).
          -- right. apply He. now rewrite tcells_set_other in Hne by (left; exact Hr). }
        destruct (IH _ _ _ Hi2 He2 E2) as (A & B & C).
        * split; [exact A|]. split; [exact B|].
          intros x [<-|Hx]; [|now apply C]. cbn [fst].
          assert (Hgrow : forall team0 s0 s1 l0, book_members p t off first cap slot team0 s0 = (s1, l0) ->
                    forall b, In b (sbooked s0) -> In b (sbooked s1)).
          { clear. induction team0 as [|r0 tl0 IH0]; intros s0 s1 l0 H b Hb; cbn [book_members] in H.
            - now injection H as <- _.
            - destruct (sr_work (tres_of p r0) slot); [|eapply IH0; eassumption].
              destruct (_ || _ || negb _).
              + eapply IH0; [exact H|exact Hb].
              + destruct (book_members p t off first cap slot tl0 _) as [s2 l2] eqn:E2. injection H as <- _.
                eapply IH0; [exact E2|]. cbn [note_booking set_cell sbooked]. now right. }
          eapply Hgrow; [exact E2|]. cbn [note_booking sbooked]. now left.
  Qed.

  Lemma release_members_booked t needed slot : forall (l : list (nat * Q * Q)) st,
    sbooked (release_members G t needed slot l st) = sbooked st.
  Proof.
    unfold release_members. induction l as [|x tl IH]; intros st; cbn [fold_left]; [reflexivity|]. now rewrite IH.
  Qed.

  Lemma release_members_ecov t needed slot : forall (l : list (nat * Q * Q)) st,
    TECov st -> (forall x, In x l -> In (t, fst (fst x), slot) (sbooked st)) ->
    TECov (release_members G t needed slot l st).
  Proof.
    unfold release_members. induction l as [|x tl IH]; intros st He Hl; cbn [fold_left]; [exact He|].
    apply IH; [|intros y Hy; cbn [set_cell sbooked]; apply Hl; now right].
    intros u r' s' Hne. cbn [set_cell sbooked].
    destruct (Nat.eq_dec r' (fst (fst x))) as [->|Hr]; [destruct (Nat.eq_dec s' slot) as [->|Hs]|].
    - rewrite tcells_set_same in Hne. destruct (Nat.eq_dec u t) as [->|Hu]; [apply Hl; now left|].
      apply He. now rewrite tent_finish_other in Hne by exact Hu.
    - apply He. now rewrite tcells_set_other in Hne by (right; exact Hs).
    - apply He. now rewrite tcells_set_other in Hne by (left; exact Hr).
  Qed.

  Local Opaque release_members.
  Lemma twalk_linv t team e need off : forall fuel slot done start st st' d,
    TLInv st -> TECov st -> twalk p t team e need off fuel slot done start st = (st', d) -> TLInv st' /\ TECov st'.
  Proof.
    induction fuel as [|fuel IH]; intros slot done start st st' d Hi He H; cbn [twalk] in H.
    - injection H as <- _. now split.
    - destruct (_ && negb _); [eapply IH; eassumption|].
      destruct (book_members p t off (Qeq_bool done 0) _ slot team st) as [st1 booked] eqn:Eb.
      destruct (book_members_linv _ _ _ _ _ _ _ _ _ Hi He Eb) as (Hi1 & He1 & Hb).
      destruct booked as [|x0 bk]; [eapply IH; eassumption|].
      destruct (Qle_bool _ _).
      + injection H as <- _. split.
        * intros l k. rewrite release_members_booked. apply Hi1.
        * apply release_members_ecov; assumption.
      + eapply IH; eassumption.
  Qed.
  Local Transparent release_members.
  Local Transparent step.

  Lemma tschedule_task_linv st t : TLInv st -> TECov st -> TLInv (tschedule_task p st t) /\ TECov (tschedule_task p st t).
  Proof.
    intros Hi He. unfold tschedule_task. cbn zeta.
    destruct ((tbound p st t <? 0)%Z || (Z.of_nat (tp_upper p) <? tbound p st t / tp_G p)%Z); [now split|].
    destruct (tt_mile (ttask_of p t)); [now split|].
    destruct (tt_team (ttask_of p t)) as [|r0 tl]; [now split|].
    destruct (twalk p t (r0 :: tl) _ _ _ _ _ 0 None st) as [st' d] eqn:Ew.
    pose proof (twalk_linv _ _ _ _ _ _ _ _ _ _ _ _ Hi He Ew) as Hi'. destruct d; exact Hi'.
  Qed.

  Lemma tloop_linv : forall fuel work st, TLInv st -> TECov st -> TLInv (tloop p fuel work st) /\ TECov (tloop p fuel work st).
  Proof.
    induction fuel as [|fuel IH]; intros work st Hi He; cbn [tloop]; [now split|].
    destruct (tpick p st work) as [[t rest]|]; [|now split].
    destruct (tschedule_task_linv st t Hi He) as [A B]. now apply IH.
  Qed.

  Lemma tprepass_booked : sbooked (tprepass p) = [] /\ cells (tprepass p) = cells sinit.
  Proof.
    destruct (tprepass_spec p (seq 0 (length (tp_tasks p))) sinit) as [Hc _].
    change (fold_left (tpre_step p) (seq 0 (length (tp_tasks p))) sinit) with (tprepass p) in Hc. split; [|exact Hc].
    unfold tprepass. generalize (seq 0 (length (tp_tasks p))). intros l.
    assert (H : forall st, sbooked st = [] -> sbooked (fold_left (tpre_step p) l st) = []).
    { induction l as [|u l IH]; intros st Hs; cbn [fold_left]; [exact Hs|]. apply IH. unfold tpre_step. cbn zeta.
      destruct (tt_leaf _ && tt_mile _); [|exact Hs]. destruct (tt_pin _) as [s|]; [|exact Hs].
      destruct ((0 <=? s)%Z && _); exact Hs. }
    now apply H.
  Qed.

  (* C05 (seconds, teams): in every period every limit counts at most its value of booking events *)
  Theorem team_limits : TLInv (tschedule p).
  Proof.
    unfold tschedule. destruct tprepass_booked as [Hb Hc]. apply tloop_linv.
    - intros l k. unfold tusage. rewrite Hb. cbn. lia.
    - intros t r s H. rewrite Hc in H. now elim H.
  Qed.

  Theorem team_ecov : TECov (tschedule p).
  Proof.
    unfold tschedule. destruct tprepass_booked as [Hb Hc]. apply tloop_linv.
    - intros l k. unfold tusage. rewrite Hb. cbn. lia.
    - intros t r s H. rewrite Hc in H. now elim H.
  Qed.

  (* in terms of the ledger: the (task, resource, slot) cells that hold work counted by a limit in one period are
     at most the limit's value many *)
  Theorem team_limit_cells l k (L : list (nat * nat * nat)) : NoDup L ->
    (forall b, In b L -> tent (fst (fst b)) (cells (tschedule p) (snd (fst b)) (snd b)) <> [] /\
                        tcounts p l b = true /\ sl_period (tlim_of p l) (snd b) = k) ->
    (length L <= sl_value (tlim_of p l))%nat.
  Proof.
    intros Hnd HL. eapply Nat.le_trans; [|apply (team_limits l k)]. unfold tusage.
    apply NoDup_incl_length; [exact Hnd|]. intros b Hb. destruct (HL b Hb) as (H1 & H2 & H3).
    apply filter_In. split.
    - destruct b as [[t r] s]. apply team_ecov. exact H1.
    - rewrite H2, H3, Z.eqb_refl. reflexivity.
  Qed.
End TeamLimits.
