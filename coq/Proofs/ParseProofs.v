From Coq Require Import List Arith Bool Lia Permutation.
Require Import SP.Model.Parse.
Import ListNotations.

Section Rename.
  Variable r : nat -> nat.
  Hypothesis r_inj : forall a b, r a = r b -> a = b.

  Lemma eqb_rename a b : Nat.eqb (r a) (r b) = Nat.eqb a b.
  Proof.
    destruct (Nat.eqb_spec a b) as [->|Hne]; [apply Nat.eqb_refl|].
    apply Nat.eqb_neq. intros H. apply Hne. now apply r_inj.
  Qed.

  Lemma tid_rename t : tid (rename r t) = r (tid t).
  Proof. destruct t; reflexivity. Qed.
  Lemma tkids_rename t : tkids (rename r t) = map (rename r) (tkids t).
  Proof. destruct t; reflexivity. Qed.

  Lemma find_idx_rename id : forall l k,
    find_idx (r id) (map (rename r) l) k =
    match find_idx id l k with Some (i, t) => Some (i, rename r t) | None => None end.
  Proof.
    induction l as [|t tl IH]; intros k; [reflexivity|]. cbn [map find_idx].
    rewrite tid_rename, eqb_rename. destruct (Nat.eqb (tid t) id); [reflexivity|apply IH].
  Qed.

  (* positions are name-free: renaming ids consistently does not change where a path leads *)
  Lemma descend_rename : forall ids sibs,
    descend (map r ids) (map (rename r) sibs) = descend ids sibs.
  Proof.
    induction ids as [|i rest IH]; intros sibs; [reflexivity|]. cbn [map descend].
    rewrite find_idx_rename. destruct (find_idx i sibs 0) as [[k t]|]; [|reflexivity].
    rewrite tkids_rename, IH. reflexivity.
  Qed.

  Lemma at_pos_rename : forall pos sibs,
    at_pos pos (map (rename r) sibs) = option_map (rename r) (at_pos pos sibs).
  Proof.
    induction pos as [|k rest IH]; intros sibs; [reflexivity|].
    destruct rest as [|k2 rest].
    - cbn. now rewrite nth_error_map.
    - change (at_pos (k :: k2 :: rest) (map (rename r) sibs)) with
        (match nth_error (map (rename r) sibs) k with Some t => at_pos (k2 :: rest) (tkids t) | None => None end).
      change (at_pos (k :: k2 :: rest) sibs) with
        (match nth_error sibs k with Some t => at_pos (k2 :: rest) (tkids t) | None => None end).
      rewrite nth_error_map. destruct (nth_error sibs k) as [t|]; [|reflexivity]. cbn [option_map].
      rewrite tkids_rename. apply IH.
  Qed.

  Theorem resolve_abs_rename forest ids :
    resolve_abs (map (rename r) forest) (map r ids) = resolve_abs forest ids.
  Proof. apply descend_rename. Qed.

  Theorem resolve_rel_rename forest from n ids :
    resolve_rel (map (rename r) forest) from n (map r ids) = resolve_rel forest from n ids.
  Proof.
    unfold resolve_rel. destruct (firstn (length from - n) from) as [|b0 bs] eqn:E; [apply descend_rename|].
    rewrite at_pos_rename. destruct (at_pos (b0 :: bs) forest) as [t|]; [|reflexivity]. cbn [option_map].
    rewrite tkids_rename, descend_rename. reflexivity.
  Qed.
End Rename.

(* a relative and an absolute spelling that name the same chain of ids below the same base agree *)
Lemma descend_at_pos : forall pos sibs t ids,
  pos <> [] -> at_pos pos sibs = Some t ->
  forall base_ids, descend base_ids sibs = Some pos ->
  descend (base_ids ++ ids) sibs = match descend ids (tkids t) with Some p => Some (pos ++ p) | None => None end.
Proof.
  induction pos as [|k rest IH]; intros sibs t ids Hne Hat base_ids Hd; [contradiction|].
  destruct base_ids as [|i brest]; [cbn in Hd; discriminate|].
  cbn [app descend] in *. destruct (find_idx i sibs 0) as [[k' t']|] eqn:Ef; [|discriminate].
  destruct (descend brest (tkids t')) as [p'|] eqn:Ed; [|discriminate]. injection Hd as -> ->.
  assert (Hn : nth_error sibs k = Some t').
  { clear -Ef. assert (G : forall l s, find_idx i l s = Some (k, t') -> s <= k /\ nth_error l (k - s) = Some t').
    { induction l as [|x tl IHl]; intros s H; cbn in H; [discriminate|].
      destruct (Nat.eqb (tid x) i); [injection H as <- <-; split; [lia|]; now rewrite Nat.sub_diag|].
      destruct (IHl _ H) as [A B]. split; [lia|]. replace (k - s) with (S (k - S s)) by lia. exact B. }
    destruct (G _ _ Ef) as [_ B]. now rewrite Nat.sub_0_r in B. }
  destruct rest as [|k2 rest].
  - cbn in Hat. rewrite Hn in Hat. injection Hat as <-.
    destruct brest as [|? ?]; [|cbn in Ed; destruct (find_idx n (tkids t') 0) as [[? ?]|]; [destruct (descend brest (tkids t)); discriminate|discriminate]].
    cbn [app]. destruct (descend ids (tkids t')); reflexivity.
  - change (at_pos (k :: k2 :: rest) sibs) with
      (match nth_error sibs k with Some t0 => at_pos (k2 :: rest) (tkids t0) | None => None end) in Hat.
    rewrite Hn in Hat. rewrite (IH (tkids t') t ids ltac:(discriminate) Hat brest Ed).
    destruct (descend ids (tkids t)); reflexivity.
Qed.

(* the dependency bound is a maximum: it does not depend on the order in which the edges were written,
   so moving an edge from 'depends' on the target to 'precedes' on the source changes nothing *)
Lemma fold_max_perm (f : nat -> nat) : forall l l', Permutation l l' -> forall acc,
  fold_left (fun a d => Nat.max a (f d)) l acc = fold_left (fun a d => Nat.max a (f d)) l' acc.
Proof.
  induction 1; intros acc; cbn; auto.
  - f_equal. lia.
  - now rewrite IHPermutation1.
Qed.

Lemma edges_precedes_perm {O} (deps prec : list (nat * nat * O)) (b a : nat) (o : O) :
  Permutation (edges_of ((b, a, o) :: deps) prec) (edges_of deps ((a, b, o) :: prec)).
Proof. unfold edges_of. cbn [map fst snd]. apply Permutation_middle. Qed.
