(* The Cython interval scanner equals the maximal-runs specification. *)
From Coq Require Import ZArith List Bool Lia ZifyBool.
Require Import SP.Base.PyRt SP.Gen.ScoreboardCy SP.Spec.Runs SP.Proofs.ScoreboardAlg.
Import ListNotations.
Open Scope Z_scope.

Definition conv (sd r : Z) (x : Z * Z) : Z * Z := (sd + fst x * r, sd + snd x * r).

Lemma conv_clip sd r sI eI s e :
  conv sd r (clip sI eI (s, e)) =
  (sd + (if s <? sI then sI else s) * r, sd + (if e >? eI then eI else e) * r).
Proof.
  unfold conv, clip; cbn [fst snd].
  destruct (s <? sI) eqn:?; destruct (e >? eI) eqn:?; f_equal; f_equal; f_equal; lia.
Qed.

Section Cy.
  Context {V : Type}.
  Variables (sb : list V) (a b sI eI m size sd r : Z) (pred : option V -> bool).
  Hypothesis Ha : 0 <= a.
  Hypothesis Hab : a <= b + 1.
  Hypothesis Hb : b < 2147483646.
  Hypothesis Hlen : py_len sb < 2147483648.
  Hypothesis HsI : 0 <= sI < 2147483648.
  Hypothesis HeI : 0 <= eI < 2147483648.

  Definition pcy (i : Z) : bool := pred (if i <? py_len sb then py_get sb i else None).

  Definition cur_of (d st : Z) : option Z := if d >? 0 then Some st else None.

  Definition out (idx d st : Z) : list (Z * Z) :=
    map (conv sd r) (map (clip sI eI) (filter (long_enough m)
      (runs (pvals pcy idx (Z.to_nat (b - idx))) idx (cur_of d st)))).

  Lemma pvals_S p i n : pvals p i (S n) = p i :: pvals p (i + 1) n.
  Proof. reflexivity. Qed.

  Theorem collect_cy_spec :
    collect_intervals_fast sb a b sI eI m size sd r pred tt
    = Ok (map (conv sd r) (scan_spec pcy a b sI eI m)).
  Proof.
    unfold collect_intervals_fast, scan_spec. cbn zeta.
    rewrite !c_int_id by (unfold in_c_int, py_len in *; lia).
    match goal with |- context [ (fix loop1 (fuel_ : nat) (idx duration start : Z) (intervals : list (Z*Z)) {struct fuel_} := _) ] =>
      set (loop := (fix loop1 (fuel_ : nat) (idx duration start : Z) (intervals : list (Z*Z)) {struct fuel_} := _)) end.
    assert (H : forall n idx d st acc,
               n = Z.to_nat (b - idx) -> a <= idx -> idx <= b + 1 -> (idx = b + 1 -> d = 0) ->
               0 <= d -> (d > 0 -> st = idx - d /\ a <= st) -> (d = 0 -> st = 0) ->
               loop (Z.to_nat (b + 2 - idx)) idx d st acc = Ok (acc ++ (if idx <=? b then out idx d st else []))).
    { induction n as [|n IH]; intros idx d st acc Hn Hai Hib Hend Hd Hst Hst0.
      - (* no slot left to scan: idx = b (closing iteration) or idx = b + 1 *)
        assert (Hc : idx = b \/ idx = b + 1) by lia. destruct Hc as [-> | ->].
        + replace (Z.to_nat (b + 2 - b)) with 2%nat by lia.
          cbn [loop]. replace (b <=? b) with true by lia. replace (b <? b) with false by lia.
          unfold out. replace (Z.to_nat (b - b)) with 0%nat by lia. cbn [pvals runs].
          unfold cur_of. destruct (d >? 0) eqn:Hd0.
          * destruct Hst as [Hst _]; [lia|]. subst st.
            cbn [filter]. unfold long_enough at 1. cbn [fst snd].
            replace (b - (b - d) >=? m) with (d >=? m) by lia.
            destruct (d >=? m) eqn:Hm.
            -- rewrite !c_int_id by (unfold in_c_int, py_len in *; lia).
               replace (b + 1 <=? b) with false by lia.
               cbn [map]. rewrite conv_clip. reflexivity.
            -- rewrite !c_int_id by (unfold in_c_int, py_len in *; lia).
               replace (b + 1 <=? b) with false by lia. cbn. now rewrite app_nil_r.
          * rewrite !c_int_id by (unfold in_c_int, py_len in *; lia).
            replace (b + 1 <=? b) with false by lia. cbn. now rewrite app_nil_r.
        + replace (Z.to_nat (b + 2 - (b + 1))) with 1%nat by lia.
          cbn [loop]. replace (b + 1 <=? b) with false by lia. now rewrite app_nil_r.
      - (* a slot idx < b is scanned *)
        assert (Hlt : idx < b) by lia.
        replace (Z.to_nat (b + 2 - idx)) with (S (Z.to_nat (b + 2 - (idx + 1)))) by lia.
        cbn [loop]. replace (idx <=? b) with true by lia. replace (idx <? b) with true by lia.
        unfold out at 1. rewrite <- Hn, pvals_S. fold (pcy idx).
        assert (Hn' : n = Z.to_nat (b - (idx + 1))) by lia.
        fold (pcy idx).
        destruct (pcy idx) eqn:Hpi.
        + (* predicate holds: the run continues or opens *)
          cbn [runs]. destruct (d =? 0) eqn:Hd0.
          * assert (d = 0) by lia. subst d. rewrite !c_int_id by (unfold in_c_int, py_len in *; lia).
            rewrite (IH (idx + 1) (0 + 1) idx acc) by lia.
            replace (idx + 1 <=? b) with true by lia. unfold out, cur_of. cbn.
            now rewrite <- Hn'.
          * destruct Hst as [Hst Hast]; [lia|]. subst st.
            rewrite !c_int_id by (unfold in_c_int, py_len in *; lia).
            rewrite (IH (idx + 1) (d + 1) (idx - d) acc) by lia.
            replace (idx + 1 <=? b) with true by lia. unfold out, cur_of.
            replace (d >? 0) with true by lia. replace (d + 1 >? 0) with true by lia. now rewrite <- Hn'.
        + (* predicate fails: an open run is closed *)
          unfold cur_of. destruct (d >? 0) eqn:Hd0.
          * destruct Hst as [Hst Hast]; [lia|]. subst st. cbn [runs filter]. unfold long_enough at 1. cbn [fst snd].
            replace (idx - (idx - d) >=? m) with (d >=? m) by lia.
            destruct (d >=? m) eqn:Hm.
            -- rewrite !c_int_id by (unfold in_c_int, py_len in *; lia).
               match goal with |- loop _ _ _ _ ?acc' = _ => rewrite (IH (idx + 1) 0 0 acc') by lia end.
               replace (idx + 1 <=? b) with true by lia. unfold out, cur_of. cbn [map clip conv fst snd].
               replace (0 >? 0) with false by lia. rewrite <- Hn', <- app_assoc. f_equal. cbn [app map].
               rewrite conv_clip. reflexivity.
            -- rewrite !c_int_id by (unfold in_c_int, py_len in *; lia).
               rewrite (IH (idx + 1) 0 0 acc) by lia.
               replace (idx + 1 <=? b) with true by lia. unfold out, cur_of.
               replace (0 >? 0) with false by lia. now rewrite <- Hn'.
          * cbn [runs]. rewrite !c_int_id by (unfold in_c_int, py_len in *; lia).
            assert (d = 0) by lia. subst d. rewrite (Hst0 eq_refl).
            rewrite (IH (idx + 1) 0 0 acc) by lia.
            replace (idx + 1 <=? b) with true by lia. unfold out, cur_of.
            replace (0 >? 0) with false by lia. now rewrite <- Hn'. }
    rewrite (H (Z.to_nat (b - a)) a 0 0 []) by lia. cbn [app].
    destruct (a <=? b) eqn:Hle.
    - unfold out, cur_of. cbn. reflexivity.
    - replace (Z.to_nat (b - a)) with 0%nat by lia. reflexivity.
  Qed.
End Cy.
