(* Theorems about the second-granularity scheduler for teams (Model/SubSlotTeam.v), for every project. *)
From Coq Require Import QArith Qround Qminmax List Bool Arith ZArith Lia Lqa.
Require Import SP.Model.Ledger SP.Proofs.LedgerProofs SP.Model.SubSlot SP.Model.SubSlotTeam SP.Proofs.SubSlotProofs.
Import ListNotations.

Record twf (p : tproject) : Prop := {
  twf_G : (0 < tp_G p)%Z;
  twf_eff : forall r, 0 < sr_eff (tres_of p r);
  twf_work : forall t, tt_mile (ttask_of p t) = false -> 0 < tt_effort (ttask_of p t)
}.

Lemma qmax_list_ge : forall l acc x, (acc <= fold_left Qmax l acc) /\ (In x l -> x <= fold_left Qmax l acc).
Proof.
  induction l as [|y l IH]; intros acc x; cbn [fold_left]; [split; [lra|intros []]|].
  destruct (IH (Qmax acc y) x) as [A B]. split.
  - pose proof (Q.le_max_l acc y). lra.
  - intros [<-|Hin]; [|now apply B]. pose proof (Q.le_max_r acc y). lra.
Qed.

Section Team.
  Variable p : tproject.
  Hypothesis Hwf : twf p.
  Local Notation G := (inject_Z (tp_G p)).

  Lemma tG_pos : 0 < G.
  Proof. change 0 with (inject_Z 0). rewrite <- Zlt_Qlt. apply (twf_G p Hwf). Qed.

  Definition TInv (st : sstate) : Prop :=
    (forall r s, Inv G (cells st r s)) /\
    (forall r s, entries (cells st r s) <> [] -> sr_work (tres_of p r) s = true).

  Lemma tinit_inv : TInv sinit.
  Proof. split; [intros; apply empty_inv, tG_pos|intros r s H; now elim H]. Qed.

  Lemma tset_cell_inv st r s c : TInv st -> Inv G c -> (entries c <> [] -> sr_work (tres_of p r) s = true) -> TInv (set_cell st r s c).
  Proof.
    intros [H1 H2] Hc Hw. split; intros r' s'; cbn [set_cell cells]; destruct (Nat.eqb r' r && Nat.eqb s' s) eqn:E; auto.
    apply andb_true_iff in E as [E1 E2]. apply Nat.eqb_eq in E1. apply Nat.eqb_eq in E2. subst. exact Hw.
  Qed.

  Lemma common_secs_nonneg o st slot : forall team m, common_secs G o st slot team = Some m -> 0 <= m.
  Proof.
    induction team as [|r tl IH]; intros m H; cbn [common_secs] in H; [discriminate|].
    destruct (common_secs G o st slot tl) as [m'|] eqn:E; injection H as <-.
    - apply Q.min_glb; [apply Q.le_max_l|now apply IH].
    - apply Q.le_max_l.
  Qed.

  Local Opaque step.

  Lemma book_members_inv t off first cap slot : 0 <= off -> off <= G -> (forall m, cap = Some m -> 0 <= m) ->
    forall team st st' l, TInv st -> book_members p t off first cap slot team st = (st', l) ->
      TInv st' /\ forall x, In x l -> sr_work (tres_of p (fst (fst x))) slot = true /\ 0 <= snd (fst x).
  Proof.
    intros Ho1 Ho2 Hcap. induction team as [|r tl IH]; intros st st' l Hi H; cbn [book_members] in H.
    - injection H as <- <-. split; [exact Hi|intros x []].
    - destruct (sr_work (tres_of p r) slot) eqn:Ew; [|eapply IH; eassumption].
      set (c0 := cells st r slot) in *.
      set (c1 := if first then step G c0 (Offset off) else c0) in *.
      assert (Hc0 : Inv G c0) by apply Hi.
      assert (Hc1 : Inv G c1).
      { unfold c1. destruct first; [|exact Hc0]. apply step_inv; [apply tG_pos|split; assumption|exact Hc0]. }
      set (c2 := step G c1 (Book t cap)) in *.
      assert (Hc2 : Inv G c2).
      { apply step_inv; [apply tG_pos| |exact Hc1]. cbn [op_ok]. destruct cap as [m|]; [now apply Hcap|exact I]. }
      destruct (Qle_bool (G - used c1) tol_avail || Nat.eqb (length (entries c2)) (length (entries c1))
                || negb (tlimits_ok p (sbooked st) t r slot)) eqn:Eb.
      + eapply IH; [|exact H]. apply tset_cell_inv; [exact Hi|exact Hc1|intros _; exact Ew].
      + destruct (book_members p t off first cap slot tl (note_booking (set_cell st r slot c2) t r slot)) as [st2 l2] eqn:E2.
        injection H as <- <-.
        assert (Hi2 : TInv (note_booking (set_cell st r slot c2) t r slot)) by exact (tset_cell_inv _ _ _ _ Hi Hc2 (fun _ => Ew)).
        destruct (IH _ _ _ Hi2 E2) as [A B]. split; [exact A|].
        intros x [<-|Hin]; [|now apply B]. cbn [fst snd]. split; [exact Ew|].
        apply orb_false_iff in Eb as [Eb _]. apply orb_false_iff in Eb as [Ea _].
        assert (Ha : tol_avail < G - used c1) by (apply Qnot_le_lt; intros Hle; apply Qle_bool_iff in Hle; congruence).
        unfold tol_avail in Ha. destruct cap as [m|]; [apply Q.min_glb; [lra|now apply Hcap]|lra].
  Qed.

  Lemma release_members_inv t needed slot : 0 <= needed ->
    forall booked st, TInv st -> (forall x, In x booked -> sr_work (tres_of p (fst (fst x))) slot = true) ->
      TInv (release_members G t needed slot booked st).
  Proof.
    intros Hn. unfold release_members. induction booked as [|x tl IH]; intros st Hi Hw; cbn [fold_left]; [exact Hi|].
    apply IH; [|intros y Hy; apply Hw; now right].
    apply tset_cell_inv; [exact Hi| |intros _; apply Hw; now left].
    apply step_inv; [apply tG_pos|exact Hn|apply Hi].
  Qed.

  Lemma gained_nonneg (booked : list (nat * Q * Q)) :
    0 <= qmax_list (map (fun x => snd (fst x) * sr_eff (tres_of p (fst (fst x)))) booked).
  Proof. unfold qmax_list. exact (proj1 (qmax_list_ge _ 0 0)). Qed.

  Lemma twalk_inv t team e need off : 0 < e -> 0 <= off -> off <= G ->
    forall fuel slot done start st st' d,
      0 <= done -> done <= need -> TInv st ->
      twalk p t team e need off fuel slot done start st = (st', d) -> TInv st'.
  Proof.
    intros He Ho1 Ho2. induction fuel as [|fuel IH]; intros slot done start st st' d Hd1 Hd2 Hi H; cbn [twalk] in H.
    - now injection H as <- _.
    - destruct ((match team with _ :: _ :: _ => true | _ => false end) && negb (team_gate p st t slot (sbooked st) team)).
      + eapply IH; eassumption.
      + set (cap := if match team with _ :: _ :: _ => true | _ => false end
                    then common_secs G (if Qeq_bool done 0 then off else 0) st slot team else None) in *.
        assert (Hcap : forall m, cap = Some m -> 0 <= m).
        { intros m Hm. unfold cap in Hm. destruct (match team with _ :: _ :: _ => true | _ => false end); [|discriminate].
          eapply common_secs_nonneg; eassumption. }
        destruct (book_members p t off (Qeq_bool done 0) cap slot team st) as [st1 booked] eqn:Eb.
        destruct (book_members_inv t off _ cap slot Ho1 Ho2 Hcap _ _ _ _ Hi Eb) as [Hi1 Hb].
        destruct booked as [|x0 bk]; [eapply IH; eassumption|].
        set (booked := x0 :: bk) in *.
        set (gained := qmax_list (map (fun x => snd (fst x) * sr_eff (tres_of p (fst (fst x)))) booked)) in *.
        assert (Hg : 0 <= gained) by apply gained_nonneg.
        destruct (Qle_bool (need - tol_done) (done + gained)) eqn:Ef.
        * injection H as <- _. change (TInv (release_members G t (Qmin ((need - done) / e) G) slot booked st1)).
          apply release_members_inv; [|exact Hi1|intros x Hx; now apply Hb].
          apply Q.min_glb; [|apply Qlt_le_weak, tG_pos]. apply Qle_shift_div_l; [exact He|]. rewrite Qmult_0_l. lra.
        * assert (Hf : ~ need - tol_done <= done + gained) by (intros Hle; apply Qle_bool_iff in Hle; congruence).
          apply Qnot_le_lt in Hf. eapply IH; [| |exact Hi1|exact H]; [lra|unfold tol_done in Hf; lra].
  Qed.
  Local Transparent step.

  Lemma team_eff_pos team : team <> [] -> 0 < team_eff p team.
  Proof.
    intros Hne. destruct team as [|r tl]; [contradiction|]. unfold team_eff, qmax_list.
    pose proof (proj2 (qmax_list_ge (map (fun r0 => sr_eff (tres_of p r0)) (r :: tl)) 0 (sr_eff (tres_of p r))) (or_introl eq_refl)).
    pose proof (twf_eff p Hwf r). lra.
  Qed.

  Lemma tschedule_task_inv st t : TInv st -> TInv (tschedule_task p st t).
  Proof.
    intros Hi. unfold tschedule_task. cbn zeta.
    destruct ((tbound p st t <? 0)%Z || (Z.of_nat (tp_upper p) <? tbound p st t / tp_G p)%Z); [exact Hi|].
    destruct (tt_mile (ttask_of p t)) eqn:Em; [exact Hi|].
    destruct (tt_team (ttask_of p t)) as [|r0 tl] eqn:Et; [exact Hi|].
    destruct (twalk p t (r0 :: tl) _ _ _ _ _ 0 None st) as [st' d] eqn:Ew.
    assert (Hi' : TInv st').
    { eapply (twalk_inv t); [apply (team_eff_pos (r0 :: tl)); discriminate| | | | | |exact Ew]; try exact Hi; try lra.
      - change 0 with (inject_Z 0). rewrite <- Zle_Qle. apply Z.mod_pos_bound, (twf_G p Hwf).
      - rewrite <- Zle_Qle. apply Z.lt_le_incl, Z.mod_pos_bound, (twf_G p Hwf).
      - apply Qlt_le_weak, (twf_work p Hwf t Em). }
    destruct d; exact Hi'.
  Qed.

  Lemma tloop_inv : forall fuel work st, TInv st -> TInv (tloop p fuel work st).
  Proof.
    induction fuel as [|fuel IH]; intros work st Hi; cbn [tloop]; [exact Hi|].
    destruct (tpick p st work) as [[t rest]|]; [|exact Hi]. apply IH. now apply tschedule_task_inv.
  Qed.

  Lemma tprepass_inv : TInv (tprepass p).
  Proof.
    unfold tprepass. generalize (seq 0 (length (tp_tasks p))). intros l.
    assert (H : forall st, TInv st -> TInv (fold_left (fun st t => let k := ttask_of p t in
                         if tt_leaf k && tt_mile k
                         then match tt_pin k with
                              | Some s => if (0 <=? s)%Z && (s / tp_G p <=? Z.of_nat (tp_upper p))%Z then splace st t (s, s) else st
                              | None => st end
                         else st) l st)).
    { induction l as [|u l IH]; intros st Hi; cbn [fold_left]; [exact Hi|]. apply IH. cbn zeta.
      destruct (tt_leaf _ && tt_mile _); [|exact Hi]. destruct (tt_pin _) as [s|]; [|exact Hi].
      destruct ((0 <=? s)%Z && _); exact Hi. }
    apply H, tinit_inv.
  Qed.

  (* C01 / C02 at second granularity for teams: every cell of the final ledger satisfies the cell invariant,
     entries exist in working slots only *)
  Theorem tschedule_inv : TInv (tschedule p).
  Proof. unfold tschedule. apply tloop_inv, tprepass_inv. Qed.
End Team.
