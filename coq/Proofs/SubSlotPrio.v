(* C09 at second granularity: appending a strictly lowest-priority task on which nothing depends leaves the dates of
   every other task unchanged (Model/SubSlot.v, every project). *)
From Coq Require Import QArith Qround Qminmax List Bool Arith ZArith Lia Lqa.
Require Import SP.Model.Ledger SP.Proofs.LedgerProofs SP.Model.SubSlot SP.Proofs.SubSlotProofs.
Import ListNotations.

Section Prio.
  Variables (p : sproject) (x : stask).
  Let n := length (sp_tasks p).
  Definition sextend : sproject :=
    {| sp_tasks := sp_tasks p ++ [x]; sp_res := sp_res p; sp_limits := sp_limits p; sp_upper := sp_upper p; sp_G := sp_G p |}.
  Local Notation p' := sextend.

  Hypothesis Hleaf : s_leaf x = true.
  Hypothesis Hprio : forall t, (t < n)%nat -> (s_prio x < s_prio (stask_of p t))%Z.
  Hypothesis Hnodep : forall t d, (t < n)%nat -> In d (s_deps (stask_of p t)) -> sd_task d <> n.
  Hypothesis Hnocont : forall t, (t < n)%nat -> ~ In n (s_leaves (stask_of p t)).

  Lemma task_other t : t <> n -> stask_of p' t = stask_of p t.
  Proof.
    intros Hne. unfold stask_of, p', sextend; cbn [sp_tasks]. fold n.
    destruct (Nat.lt_ge_cases t n) as [Hlt|Hge].
    - now apply app_nth1.
    - rewrite app_nth2 by exact Hge. rewrite (nth_overflow (sp_tasks p)) by exact Hge.
      apply nth_overflow. cbn. fold n. lia.
  Qed.

  Lemma task_new : stask_of p' n = x.
  Proof. unfold stask_of, p', sextend; cbn [sp_tasks]. unfold n. rewrite app_nth2 by lia. now rewrite Nat.sub_diag. Qed.

  Lemma deps_other t d : t <> n -> In d (s_deps (stask_of p t)) -> sd_task d <> n.
  Proof.
    intros Hne Hd. destruct (Nat.lt_ge_cases t n) as [Hlt|Hge]; [now apply (Hnodep t)|].
    unfold stask_of in Hd. rewrite nth_overflow in Hd by (fold n; lia). destruct Hd.
  Qed.

  Lemma leaves_other t : t <> n -> ~ In n (s_leaves (stask_of p t)).
  Proof.
    intros Hne. destruct (Nat.lt_ge_cases t n) as [Hlt|Hge]; [now apply Hnocont|].
    unfold stask_of. rewrite nth_overflow by (fold n; lia). intros [].
  Qed.

  Definition agree (st st' : sstate) : Prop := forall u, u <> n -> sleaf_dates st' u = sleaf_dates st u.

  Lemma span_agree st st' : agree st st' -> forall ls, ~ In n ls -> sspan st' ls = sspan st ls.
  Proof.
    intros Ha. induction ls as [|t tl IH]; intros Hn; [reflexivity|].
    assert (Ht : t <> n) by (intros ->; apply Hn; now left).
    assert (Htl : ~ In n tl) by (intros H; apply Hn; now right).
    destruct tl as [|u tl].
    - cbn. now apply Ha.
    - change (sspan st' (t :: u :: tl)) with
        (match sleaf_dates st' t, sspan st' (u :: tl) with
         | Some (s, e), Some (s', e') => Some (Z.min s s', Z.max e e') | _, _ => None end).
      change (sspan st (t :: u :: tl)) with
        (match sleaf_dates st t, sspan st (u :: tl) with
         | Some (s, e), Some (s', e') => Some (Z.min s s', Z.max e e') | _, _ => None end).
      now rewrite (Ha t Ht), (IH Htl).
  Qed.

  Lemma dates_agree st st' u : agree st st' -> u <> n -> sdates p' st' u = sdates p st u.
  Proof.
    intros Ha Hu. unfold sdates. rewrite (task_other u Hu).
    destruct (s_leaf (stask_of p u)); [now apply Ha|]. apply span_agree; [exact Ha|now apply leaves_other].
  Qed.

  Lemma dep_time_agree st st' d : agree st st' -> sd_task d <> n -> sdep_time p' st' d = sdep_time p st d.
  Proof. intros Ha Hd. unfold sdep_time. now rewrite (dates_agree st st' _ Ha Hd). Qed.

  Lemma forallb_ext_in {A} (f g : A -> bool) l : (forall a, In a l -> f a = g a) -> forallb f l = forallb g l.
  Proof. induction l as [|a tl IH]; intros H; [reflexivity|]. cbn. rewrite H by now left. f_equal. apply IH. intros; apply H; now right. Qed.

  Lemma ready_agree st st' t : agree st st' -> t <> n -> sready p' st' t = sready p st t.
  Proof.
    intros Ha Ht. unfold sready. rewrite (task_other t Ht). apply forallb_ext_in.
    intros d Hd. now rewrite (dates_agree st st' _ Ha (deps_other t d Ht Hd)).
  Qed.

  Lemma fold_ext_in {A B} (f g : A -> B -> A) l : (forall a b, In b l -> f a b = g a b) -> forall acc, fold_left f l acc = fold_left g l acc.
  Proof. induction l as [|b tl IH]; intros H acc; [reflexivity|]. cbn. rewrite H by now left. apply IH. intros; apply H; now right. Qed.

  Lemma bound_agree st st' t : agree st st' -> t <> n -> sbound p' st' t = sbound p st t.
  Proof.
    intros Ha Ht. unfold sbound. rewrite (task_other t Ht). destruct (s_pin (stask_of p t)); [reflexivity|].
    apply fold_ext_in. intros acc d Hd. now rewrite (dep_time_agree st st' d Ha (deps_other t d Ht Hd)).
  Qed.

  (* ---- ledgers: pointwise equal cells, equal booking events, none for the new task *)
  Definition clean (st : sstate) : Prop := forall b, In b (sbooked st) -> fst (fst b) <> n.

  Lemma counts_same l b : fst (fst b) <> n -> scounts p' l b = scounts p l b.
  Proof. intros Hb. destruct b as [[t r] s]. cbn in Hb. unfold scounts. now rewrite (task_other _ Hb). Qed.

  Lemma usage_same st st' l k : sbooked st' = sbooked st -> clean st -> susage p' st' l k = susage p st l k.
  Proof.
    intros Hb Hc. unfold susage. rewrite Hb. f_equal. apply filter_ext_in. intros b Hin.
    now rewrite (counts_same l b (Hc b Hin)).
  Qed.

  Lemma limits_ok_same st st' t r s : sbooked st' = sbooked st -> clean st -> t <> n ->
    forallb (fun l => slimit_ok p' st' l s) (slimits_of p' t r) = forallb (fun l => slimit_ok p st l s) (slimits_of p t r).
  Proof.
    intros Hb Hc Ht. unfold slimits_of. rewrite (task_other t Ht). apply forallb_ext_in.
    intros l _. unfold slimit_ok. now rewrite (usage_same st st' l _ Hb Hc).
  Qed.

  Definition rel (st st' : sstate) : Prop :=
    (forall r s, cells st' r s = cells st r s) /\ sbooked st' = sbooked st /\ clean st /\ agree st st'.

  Lemma set_cell_rel st st' r s c : rel st st' -> rel (set_cell st r s c) (set_cell st' r s c).
  Proof.
    intros (A & B & C & D). split; [|split; [exact B|split; [exact C|exact D]]].
    intros r' s'. cbn [set_cell cells]. destruct (Nat.eqb r' r && Nat.eqb s' s); [reflexivity|apply A].
  Qed.

  Lemma note_rel st st' t r s : rel st st' -> t <> n -> rel (note_booking st t r s) (note_booking st' t r s).
  Proof.
    intros (A & B & C & D) Ht. split; [exact A|]. split; [cbn [note_booking sbooked]; now rewrite B|]. split; [|exact D].
    intros b [<-|Hb]; [exact Ht|now apply C].
  Qed.

  Lemma walk_rel t r e need off : t <> n -> forall fuel slot done start st st', rel st st' ->
    let '(a, d) := swalk p t r e need off fuel slot done start st in
    let '(a', d') := swalk p' t r e need off fuel slot done start st' in
    d' = d /\ rel a a'.
  Proof.
    intros Ht. induction fuel as [|fuel IH]; intros slot done start st st' Hr; cbn [swalk]; [split; [reflexivity|exact Hr]|].
    change (sres_of p' r) with (sres_of p r). change (sp_G p') with (sp_G p).
    destruct (sr_work (sres_of p r) slot); [|now apply IH].
    destruct Hr as (A & B & C & D). rewrite (A r slot).
    rewrite (limits_ok_same st st' t r slot B C Ht).
    set (c1 := if Qeq_bool done 0 then step (inject_Z (sp_G p)) (cells st r slot) (Offset off) else cells st r slot).
    destruct (_ || _ || _).
    - apply IH. apply set_cell_rel. repeat split; assumption.
    - destruct (Qle_bool _ _).
      + split; [reflexivity|]. apply note_rel; [|exact Ht]. apply set_cell_rel. repeat split; assumption.
      + apply IH. apply note_rel; [|exact Ht]. apply set_cell_rel. repeat split; assumption.
  Qed.

  Lemma place_rel st st' t d : rel st st' -> rel (splace st t d) (splace st' t d).
  Proof.
    intros (A & B & C & D). split; [exact A|]. split; [exact B|]. split; [exact C|].
    intros u Hu. unfold sleaf_dates, splace; cbn. destruct (Nat.eqb u t); [reflexivity|now apply D].
  Qed.

  Lemma schedule_task_rel st st' t : rel st st' -> t <> n -> rel (sschedule_task p st t) (sschedule_task p' st' t).
  Proof.
    intros Hr Ht. unfold sschedule_task. cbn zeta.
    rewrite (bound_agree st st' t (proj2 (proj2 (proj2 Hr))) Ht), (task_other t Ht).
    change (sp_upper p') with (sp_upper p). change (sp_G p') with (sp_G p).
    destruct ((sbound p st t <? 0)%Z || _); [exact Hr|].
    destruct (s_mile (stask_of p t)); [now apply place_rel|].
    change (sres_of p' (s_res (stask_of p t))) with (sres_of p (s_res (stask_of p t))).
    pose proof (walk_rel t (s_res (stask_of p t)) (sr_eff (sres_of p (s_res (stask_of p t)))) (s_effort (stask_of p t))
                  (inject_Z (sbound p st t mod sp_G p)) Ht
                  (S (sp_upper p) - Z.to_nat (sbound p st t / sp_G p)) (Z.to_nat (sbound p st t / sp_G p)) 0 None st st' Hr) as Hw.
    destruct (swalk p t _ _ _ _ _ _ 0 None st) as [a d]. destruct (swalk p' t _ _ _ _ _ _ 0 None st') as [a' d'].
    destruct Hw as [-> Ha]. destruct d as [d|]; [now apply place_rel|exact Ha].
  Qed.
  (* ---- the work list: the new task is last *)
  Lemma insert_same t : (t < n)%nat -> forall l, (forall u, In u l -> (u < n)%nat) -> sinsert p' t l = sinsert p t l.
  Proof.
    intros Ht. induction l as [|u tl IH]; intros Hl; [reflexivity|]. cbn [sinsert].
    assert (Hu : (u < n)%nat) by (apply Hl; now left).
    rewrite !(task_other u ltac:(lia)), !(task_other t ltac:(lia)).
    destruct (s_prio (stask_of p u) <? s_prio (stask_of p t))%Z; [reflexivity|]. f_equal. apply IH. intros; apply Hl; now right.
  Qed.

  Lemma insert_last : forall l, (forall u, In u l -> (u < n)%nat) -> sinsert p' n l = l ++ [n].
  Proof.
    induction l as [|u tl IH]; intros Hl; [reflexivity|]. cbn [sinsert app].
    assert (Hu : (u < n)%nat) by (apply Hl; now left).
    rewrite (task_other u ltac:(lia)), task_new.
    destruct (Z.ltb_spec (s_prio (stask_of p u)) (s_prio x)) as [H|H]; [pose proof (Hprio u Hu); lia|].
    f_equal. apply IH. intros; apply Hl; now right.
  Qed.

  Definition ins (q : sproject) acc t := if s_leaf (stask_of q t) then sinsert q t acc else acc.

  Lemma fold_ins_lt : forall m k acc, (forall u, In u acc -> (u < k)%nat) ->
    forall u, In u (fold_left (ins p) (seq k m) acc) -> (u < k + m)%nat.
  Proof.
    induction m as [|m IH]; intros k acc Ha u Hu; cbn [seq fold_left] in Hu; [specialize (Ha u Hu); lia|].
    apply IH in Hu; [lia|]. intros v Hv. unfold ins in Hv. destruct (s_leaf (stask_of p k)).
    - apply sinsert_in in Hv as [->|Hv]; [lia|]. specialize (Ha v Hv). lia.
    - specialize (Ha v Hv). lia.
  Qed.

  Lemma fold_ins_same : forall m k acc, (k + m <= n)%nat -> (forall u, In u acc -> (u < k)%nat) ->
    fold_left (ins p') (seq k m) acc = fold_left (ins p) (seq k m) acc.
  Proof.
    induction m as [|m IH]; intros k acc Hk Ha; [reflexivity|]. cbn [seq fold_left].
    assert (E : ins p' acc k = ins p acc k).
    { unfold ins. rewrite (task_other k ltac:(lia)). destruct (s_leaf (stask_of p k)); [|reflexivity].
      apply insert_same; [lia|]. intros u Hu. specialize (Ha u Hu). lia. }
    rewrite E. apply IH; [lia|]. intros u Hu. unfold ins in Hu. destruct (s_leaf (stask_of p k)).
    - apply sinsert_in in Hu as [->|Hu]; [lia|]. specialize (Ha u Hu). lia.
    - specialize (Ha u Hu). lia.
  Qed.

  Lemma sorted_leaves_extend : ssorted_leaves p' = ssorted_leaves p ++ [n].
  Proof.
    unfold ssorted_leaves. change (length (sp_tasks p')) with (length (sp_tasks p ++ [x])).
    rewrite app_length. cbn [length]. fold n. replace (n + 1)%nat with (S n) by lia.
    rewrite seq_S, fold_left_app. cbn [fold_left].
    change (fun acc t => if s_leaf (stask_of p' t) then sinsert p' t acc else acc) with (ins p').
    change (fun acc t => if s_leaf (stask_of p t) then sinsert p t acc else acc) with (ins p).
    change (0 + n)%nat with n.
    rewrite (fold_ins_same n 0 []) by (try lia; intros u []). unfold ins at 1. rewrite task_new, Hleaf.
    apply insert_last. intros u Hu. apply (fold_ins_lt n 0 []) in Hu; [lia|intros v []].
  Qed.

  Lemma sorted_leaves_lt u : In u (ssorted_leaves p) -> (u < n)%nat.
  Proof. intros Hu. unfold ssorted_leaves in Hu. apply (fold_ins_lt n 0 []) in Hu; [lia|intros v []]. Qed.

  (* ---- the pre-pass *)
  Lemma pre_step_rel st st' t : rel st st' -> t <> n -> rel (spre_step p st t) (spre_step p' st' t).
  Proof.
    intros Hr Ht. unfold spre_step. cbn zeta. rewrite (task_other t Ht). change (sp_upper p') with (sp_upper p). change (sp_G p') with (sp_G p).
    destruct (s_leaf (stask_of p t) && s_mile (stask_of p t)); [|exact Hr].
    destruct (s_pin (stask_of p t)) as [s|]; [|exact Hr]. destruct ((0 <=? s)%Z && _); [now apply place_rel|exact Hr].
  Qed.

  Lemma pre_step_new st st' : rel st st' -> rel st (spre_step p' st' n).
  Proof.
    intros (A & B & C & D). unfold spre_step. cbn zeta.
    destruct (s_leaf (stask_of p' n) && s_mile (stask_of p' n)); [|repeat split; assumption].
    destruct (s_pin (stask_of p' n)) as [s|]; [|repeat split; assumption].
    destruct ((0 <=? s)%Z && _); [|repeat split; assumption].
    split; [exact A|]. split; [exact B|]. split; [exact C|]. intros u Hu. rewrite sleaf_dates_place_other by exact Hu. now apply D.
  Qed.

  Lemma prepass_rel : rel (sprepass p) (sprepass p').
  Proof.
    change (sprepass p) with (fold_left (spre_step p) (seq 0 (length (sp_tasks p))) sinit).
    change (sprepass p') with (fold_left (spre_step p') (seq 0 (length (sp_tasks p'))) sinit).
    change (length (sp_tasks p')) with (length (sp_tasks p ++ [x])). rewrite app_length. cbn [length]. fold n.
    replace (n + 1)%nat with (S n) by lia. rewrite seq_S, fold_left_app. cbn [fold_left]. change (0 + n)%nat with n.
    assert (Gn : forall l st st', rel st st' -> (forall t, In t l -> t <> n) ->
                rel (fold_left (spre_step p) l st) (fold_left (spre_step p') l st')).
    { induction l as [|t tl IH]; intros st st' Hr Hl; [exact Hr|]. cbn [fold_left]. apply IH.
      - apply pre_step_rel; [exact Hr|apply Hl; now left].
      - intros; apply Hl; now right. }
    assert (H0 : rel (fold_left (spre_step p) (seq 0 n) sinit) (fold_left (spre_step p') (seq 0 n) sinit)).
    { apply Gn; [split; [reflexivity|split; [reflexivity|split; [intros b []|intros u _; reflexivity]]]|].
      intros t Ht. apply in_seq in Ht. lia. }
    now apply pre_step_new.
  Qed.

  (* ---- picking *)
  Lemma pick_app st st' xs : agree st st' -> forall work, (forall t, In t work -> t <> n) ->
    spick p' st' (work ++ xs) =
    match spick p st work with
    | Some (t, rest) => Some (t, rest ++ xs)
    | None => match spick p' st' xs with Some (u, r) => Some (u, work ++ r) | None => None end
    end.
  Proof.
    intros Ha. induction work as [|t tl IH]; intros Hw; cbn [app spick].
    - destruct (spick p' st' xs) as [[u r]|]; reflexivity.
    - rewrite (ready_agree st st' t Ha (Hw t (or_introl eq_refl))).
      destruct (sready p st t); [reflexivity|]. rewrite IH by (intros; apply Hw; now right).
      destruct (spick p st tl) as [[u r]|]; [reflexivity|]. destruct (spick p' st' xs) as [[u r]|]; reflexivity.
  Qed.

  Lemma pick_none_ready q st : forall work, spick q st work = None <-> forall t, In t work -> sready q st t = false.
  Proof.
    induction work as [|t tl IH]; cbn; [split; [intros _ t []|reflexivity]|].
    destruct (sready q st t) eqn:E.
    - split; [discriminate|]. intros H. specialize (H t (or_introl eq_refl)). congruence.
    - destruct (spick q st tl) as [[u r]|].
      + split; [discriminate|]. intros H. assert (Some (u, r) = None) by (apply IH; intros; apply H; now right). discriminate.
      + split; [|reflexivity]. intros _ v [<-|Hv]; [exact E|]. now apply (proj1 IH).
  Qed.

  Lemma pick_length q st : forall work t rest, spick q st work = Some (t, rest) -> length work = S (length rest).
  Proof.
    induction work as [|u tl IH]; intros t rest H; cbn in H; [discriminate|].
    destruct (sready q st u); [injection H as <- <-; reflexivity|].
    destruct (spick q st tl) as [[v r]|] eqn:E; [|discriminate]. injection H as <- <-. cbn. f_equal. eapply IH. reflexivity.
  Qed.

  Lemma pick_sub q st : forall work t rest, spick q st work = Some (t, rest) -> In t work /\ forall u, In u rest -> In u work.
  Proof.
    induction work as [|u tl IH]; intros t rest H; cbn in H; [discriminate|].
    destruct (sready q st u); [injection H as <- <-; split; [now left|intros; now right]|].
    destruct (spick q st tl) as [[v r]|] eqn:E; [|discriminate]. injection H as <- <-.
    destruct (IH _ _ eq_refl) as [A B]. split; [now right|]. intros w [<-|Hw]; [now left|right; now apply B].
  Qed.

  (* placing a task changes nobody else's dates *)
  Lemma schedule_task_agree q st t u : u <> t -> sleaf_dates (sschedule_task q st t) u = sleaf_dates st u.
  Proof.
    intros Hu. unfold sschedule_task. cbn zeta. destruct ((sbound q st t <? 0)%Z || _); [reflexivity|].
    destruct (s_mile (stask_of q t)); [now apply sleaf_dates_place_other|].
    destruct (swalk q t _ _ _ _ _ _ 0 None st) as [a d] eqn:Ew.
    pose proof (swalk_placed q _ _ _ _ _ _ _ _ _ _ _ _ Ew) as N2.
    destruct d as [d|].
    - rewrite sleaf_dates_place_other by exact Hu. unfold sleaf_dates. now rewrite N2.
    - unfold sleaf_dates. now rewrite N2.
  Qed.

  (* ---- the simulation *)
  Lemma loop_sim : forall fuel work st st' xs,
    rel st st' -> (forall t, In t work -> t <> n) -> length work = fuel -> (xs = [] \/ xs = [n]) ->
    forall u, u <> n ->
      sdates p' (sloop p' (fuel + length xs) (work ++ xs) st') u = sdates p (sloop p fuel work st) u.
  Proof.
    induction fuel as [|fuel IH]; intros work st st' xs Hr Hw Hlen Hxs u Hu.
    - destruct work; [|discriminate]. cbn [app sloop]. destruct Hxs as [->| ->]; cbn [length Nat.add sloop app].
      + apply dates_agree; [exact (proj2 (proj2 (proj2 Hr)))|exact Hu].
      + cbn [spick]. destruct (sready p' st' n).
        * cbn [sloop]. apply dates_agree; [|exact Hu].
          intros v Hv. rewrite schedule_task_agree by exact Hv. now apply (proj2 (proj2 (proj2 Hr))).
        * apply dates_agree; [exact (proj2 (proj2 (proj2 Hr)))|exact Hu].
    - cbn [Nat.add sloop]. rewrite (pick_app st st' xs (proj2 (proj2 (proj2 Hr))) work Hw).
      destruct (spick p st work) as [[t rest]|] eqn:Ep.
      + destruct (pick_sub _ _ _ _ _ Ep) as [Hin Hsub].
        apply IH; try assumption.
        * apply schedule_task_rel; [exact Hr|now apply Hw].
        * intros v Hv. apply Hw. now apply Hsub.
        * apply pick_length in Ep. lia.
      + assert (Hnr : forall t, In t work -> sready p st t = false) by now apply pick_none_ready.
        destruct Hxs as [->| ->]; cbn [spick].
        * apply dates_agree; [exact (proj2 (proj2 (proj2 Hr)))|exact Hu].
        * destruct (sready p' st' n); [|apply dates_agree; [exact (proj2 (proj2 (proj2 Hr)))|exact Hu]].
          rewrite app_nil_r.
          set (st2 := sschedule_task p' st' n).
          assert (Ha2 : agree st st2).
          { intros v Hv. unfold st2. rewrite schedule_task_agree by exact Hv. now apply (proj2 (proj2 (proj2 Hr))). }
          assert (Hp2 : spick p' st2 work = None).
          { apply pick_none_ready. intros t Ht. rewrite (ready_agree st st2 t Ha2 (Hw t Ht)). now apply Hnr. }
          destruct (fuel + length [n])%nat as [|f2]; cbn [sloop]; [|rewrite Hp2]; now apply dates_agree.
  Qed.

  Theorem subslot_lowest_priority_harmless u : u <> n -> sdates p' (sschedule p') u = sdates p (sschedule p) u.
  Proof.
    intros Hu. unfold sschedule. cbn zeta. rewrite sorted_leaves_extend, filter_app.
    pose proof prepass_rel as Hr.
    set (keep q := fun t => match sleaf_dates (sprepass q) t with Some _ => false | None => true end).
    assert (Hf : filter (keep p') (ssorted_leaves p) = filter (keep p) (ssorted_leaves p)).
    { apply filter_ext_in. intros t Ht. unfold keep. apply sorted_leaves_lt in Ht.
      now rewrite (proj2 (proj2 (proj2 Hr)) t ltac:(lia)). }
    change (filter (fun t => match sleaf_dates (sprepass p') t with Some _ => false | None => true end) (ssorted_leaves p))
      with (filter (keep p') (ssorted_leaves p)).
    change (filter (fun t => match sleaf_dates (sprepass p') t with Some _ => false | None => true end) [n])
      with (filter (keep p') [n]).
    rewrite Hf. set (work := filter (keep p) (ssorted_leaves p)). set (xs := filter (keep p') [n]).
    assert (Hxs : xs = [] \/ xs = [n]) by (unfold xs; cbn; destruct (keep p' n); auto).
    rewrite app_length. apply loop_sim; try assumption; try reflexivity.
    intros t Ht. unfold work in Ht. apply filter_In in Ht as [Ht _]. apply sorted_leaves_lt in Ht. lia.
  Qed.
End Prio.
