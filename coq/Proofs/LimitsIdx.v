(* The regenerated period index of limits (Limit._idx_to_sb_idx) is the calendar-day difference
   for daily limits and the Monday-week difference for weekly limits; invariance under whole weeks. *)
From Coq Require Import ZArith List Bool Lia ZifyBool.
Require Import SP.Base.PyRt SP.Gen.LimitsPy SP.Spec.Cal.
Open Scope Z_scope.
Ltac Zify.zify_post_hook ::= Z.to_euclidean_division_equations.

Lemma daily_idx start g i :
  Limit_idx_to_sb_idx start g 86400 i = day_of (start + i * g) - day_of start.
Proof. unfold Limit_idx_to_sb_idx, day_of, dt_date. cbn. reflexivity. Qed.

Lemma weekly_idx start g i :
  Limit_idx_to_sb_idx start g 604800 i = week_of (start + i * g) - week_of start.
Proof.
  unfold Limit_idx_to_sb_idx, week_of, dt_date, date_weekday, py_floordiv. cbn.
  set (d := (start + i * g) / 86400). set (d0 := start / 86400). lia.
Qed.

(* same period index <-> same calendar day / same Monday week *)
Lemma daily_same start g i j :
  Limit_idx_to_sb_idx start g 86400 i = Limit_idx_to_sb_idx start g 86400 j
  <-> day_of (start + i * g) = day_of (start + j * g).
Proof. rewrite !daily_idx. lia. Qed.

Lemma weekly_same start g i j :
  Limit_idx_to_sb_idx start g 604800 i = Limit_idx_to_sb_idx start g 604800 j
  <-> week_of (start + i * g) = week_of (start + j * g).
Proof. rewrite !weekly_idx. lia. Qed.

Lemma idx_nonneg start g p i : 0 <= g -> 0 <= i -> p = 86400 \/ p = 604800 ->
  0 <= Limit_idx_to_sb_idx start g p i.
Proof.
  intros Hg Hi [-> | ->]; [rewrite daily_idx; unfold day_of|rewrite weekly_idx; unfold week_of];
    assert (0 <= i * g) by nia; lia.
Qed.

(* whole-week shifts of the interval start leave the index function unchanged (C14) *)
Lemma idx_shift_weeks start g p i k : p = 86400 \/ p = 604800 ->
  Limit_idx_to_sb_idx (start + 604800 * k) g p i = Limit_idx_to_sb_idx start g p i.
Proof.
  intros [-> | ->]; [rewrite !daily_idx; unfold day_of|rewrite !weekly_idx; unfold week_of]; lia.
Qed.

(* weekday, hour and minute are invariant under whole weeks *)
Lemma weekday_shift t k : dt_weekday (t + 604800 * k) = dt_weekday t.
Proof. unfold dt_weekday. lia. Qed.
Lemma hour_shift t k : dt_hour (t + 604800 * k) = dt_hour t.
Proof. unfold dt_hour. lia. Qed.
Lemma minute_shift t k : dt_minute (t + 604800 * k) = dt_minute t.
Proof. unfold dt_minute. lia. Qed.
Lemma weekday_range t : 0 <= dt_weekday t <= 6.
Proof. unfold dt_weekday. lia. Qed.
