From Coq Require Import List Bool Arith Lia.
Require Import SP.Model.Report.
Import ListNotations.

Section P.
  Context {T C : Type}.
  Variable is_leaf : T -> bool.
  Variable cell : T -> nat -> C.

  (* one row per kept task, in declaration order *)
  Lemma body_rows leaf_only ncols tasks :
    length (body is_leaf cell leaf_only ncols tasks) = length (filter (kept is_leaf leaf_only) tasks) /\
    forall i t, nth_error (filter (kept is_leaf leaf_only) tasks) i = Some t ->
                nth_error (body is_leaf cell leaf_only ncols tasks) i = Some (row cell ncols t).
  Proof.
    unfold body. split; [apply map_length|]. intros i t H. now rewrite nth_error_map, H.
  Qed.

  Lemma body_all ncols tasks : body is_leaf cell false ncols tasks = map (row cell ncols) tasks.
  Proof.
    unfold body. f_equal. induction tasks as [|t tl IH]; [reflexivity|]. cbn. now rewrite IH.
  Qed.

  Lemma row_cell ncols t j : j < ncols -> nth_error (row cell ncols t) j = Some (cell t j).
  Proof.
    intros Hj. unfold row. rewrite nth_error_map.
    assert (nth_error (seq 0 ncols) j = Some j).
    { rewrite nth_error_nth' with (d := 0) by (rewrite seq_length; exact Hj). now rewrite seq_nth. }
    now rewrite H.
  Qed.

  (* with distinct titles the JSON record carries, under title j, the CSV cell of column j *)
  Lemma dict_last_combine {H : Type} (eqb : H -> H -> bool) (eqb_spec : forall a b, eqb a b = true <-> a = b) :
    forall (titles : list H) (r : list C) j h c,
      NoDup titles -> length r = length titles ->
      nth_error titles j = Some h -> nth_error r j = Some c ->
      dict_last eqb h (combine titles r) = Some c.
  Proof.
    induction titles as [|h0 tl IH]; intros r j h c Hnd Hlen Hh Hc; [destruct j; discriminate|].
    destruct r as [|c0 r]; [discriminate|]. cbn [combine dict_last].
    inversion Hnd as [|? ? Hnot Hnd']; subst. destruct j as [|j]; cbn in Hh, Hc.
    - injection Hh as <-. injection Hc as <-.
      assert (dict_last eqb h0 (combine tl r) = None).
      { clear -Hnot eqb_spec. revert r. induction tl as [|a tl IH]; intros r; [reflexivity|].
        destruct r as [|c r]; [reflexivity|]. cbn. rewrite IH by (intros Hi; apply Hnot; now right).
        destruct (eqb h0 a) eqn:E; [|reflexivity]. apply eqb_spec in E. subst. exfalso. apply Hnot. now left. }
      rewrite H0. assert (eqb h0 h0 = true) by now apply eqb_spec. now rewrite H1.
    - cbn in Hlen. rewrite (IH r j h c Hnd' ltac:(lia) Hh Hc). reflexivity.
  Qed.
End P.
