(* C08 at second granularity: a slot that a task walked past without booking it was non-working, full (to within
   the 1e-6 s of ResourceScenario.available) or closed by a limit - and it still is in the final ledger, because the
   used seconds of a cell and the bookings a limit counts only grow. *)
From Coq Require Import QArith Qround Qminmax List Bool Arith ZArith Lia Lqa.
Require Import SP.Model.Ledger SP.Proofs.LedgerProofs SP.Model.SubSlot SP.Proofs.SubSlotProofs.
Import ListNotations.

Section Idle.
  Variable p : sproject.
  Hypothesis Hwf : wf p.
  Local Notation G := (inject_Z (sp_G p)).

  (* ------------------------------------------------------------ every ledger entry is positive *)
  Definition PInv (st : sstate) : Prop := forall r s, Forall (fun e => 0 < snd e) (entries (cells st r s)).

  Lemma pinv_set st r s c : PInv st -> Forall (fun e => 0 < snd e) (entries c) -> PInv (set_cell st r s c).
  Proof.
    intros H Hc r' s'. cbn [set_cell cells]. destruct (Nat.eqb r' r && Nat.eqb s' s); [exact Hc|apply H].
  Qed.

  Lemma offset_entries c off : entries (step G c (Offset off)) = entries c.
  Proof. cbn [step]. destruct (Qlt_le_dec (used c) off); reflexivity. Qed.

  (* with positive entries a non-empty cell has used > 0, so the 'released to zero' refusal never applies *)
  Lemma total_pos l : Forall (fun e : nat * Q => 0 < snd e) l -> l <> [] -> 0 < total l.
  Proof.
    intros H Hne. destruct l as [|[t x] tl]; [contradiction|]. inversion H as [|? ? Hx Htl]; subst. cbn in *.
    assert (0 <= total tl).
    { clear -Htl. induction tl as [|[t0 y] tl IH]; cbn; [lra|]. inversion Htl; subst. cbn in *. specialize (IH H2). lra. }
    lra.
  Qed.

  Lemma book_books t c : Inv G c -> Forall (fun e => 0 < snd e) (entries c) -> 0 < G - used c ->
    entries (step G c (Book t None)) = entries c ++ [(t, avail G c)] /\ 0 < avail G c /\ avail G c == G - used c /\
    used (step G c (Book t None)) = used c + avail G c.
  Proof.
    intros (U1 & U2 & U3 & U4) Hp Ha. cbn [step].
    assert (Hnr : match entries c with [] => false | _ :: _ => if Qlt_le_dec 0 (used c) then false else true end = false).
    { destruct (entries c) as [|e0 l0] eqn:E; [reflexivity|]. destruct (Qlt_le_dec 0 (used c)) as [L|L]; [reflexivity|exfalso].
      assert (0 < total (e0 :: l0)) by (apply total_pos; [exact Hp|discriminate]). lra. }
    rewrite Hnr. assert (Hav : avail G c == G - used c) by (unfold avail; apply Q.max_r; lra).
    destruct (Qlt_le_dec 0 (avail G c)) as [L|L]; [|lra]. cbn [entries used]. repeat split; try assumption; reflexivity.
  Qed.
  Lemma set_same st r s c : cells (set_cell st r s c) r s = c.
  Proof. cbn. now rewrite !Nat.eqb_refl. Qed.
  Lemma set_other st r s c r' s' : (r' <> r \/ s' <> s) -> cells (set_cell st r s c) r' s' = cells st r' s'.
  Proof.
    intros H. cbn. destruct (Nat.eqb_spec r' r); [|reflexivity]. destruct (Nat.eqb_spec s' s); [|reflexivity].
    destruct H; contradiction.
  Qed.

  (* why a slot was walked past *)
  Definition Reason (st : sstate) (t r s : nat) : Prop :=
    sr_work (sres_of p r) s = false \/
    G - used (cells st r s) <= tol_avail \/
    exists l, In l (slimits_of p t r) /\ (sl_value (slim_of p l) <= susage p st l (sl_period (slim_of p l) s))%nat.

  Lemma susage_grows st st' l k : (exists new, sbooked st' = new ++ sbooked st) -> (susage p st l k <= susage p st' l k)%nat.
  Proof. intros [new E]. unfold susage. rewrite E, filter_app, app_length. lia. Qed.

  Lemma app_neq_self {A : Type} (l : list A) x : l ++ [x] <> l.
  Proof. intros H. apply (f_equal (@length A)) in H. rewrite app_length in H. cbn in H. lia. Qed.

  Local Opaque step.
  Lemma swalk_idle t r e need off : 0 < e -> 0 <= off -> off <= G ->
    forall fuel slot done start st st' d,
      0 <= done -> done < need -> SInv p st -> PInv st ->
      swalk p t r e need off fuel slot done start st = (st', d) ->
      PInv st' /\
      (forall r' s', used (cells st r' s') <= used (cells st' r' s')) /\
      (exists new, sbooked st' = new ++ sbooked st) /\
      (forall r' s', (r' <> r \/ (s' < slot)%nat) -> cells st' r' s' = cells st r' s') /\
      (forall s s2, (slot <= s)%nat -> (s < s2)%nat ->
         tent t (cells st' r s2) <> tent t (cells st r s2) -> tent t (cells st' r s) = tent t (cells st r s) -> Reason st' t r s).
  Proof.
    intros He Ho1 Ho2. induction fuel as [|fuel IH]; intros slot done start st st' d Hd1 Hd2 Hi Hp H; cbn [swalk] in H.
    { injection H as <- _. split; [exact Hp|]. split; [intros; lra|]. split; [exists []; reflexivity|]. split; [intros; reflexivity|].
      intros s s2 _ _ Hc. now elim Hc. }
    destruct (sr_work (sres_of p r) slot) eqn:Ew.
    2:{ destruct (IH _ _ _ _ _ _ Hd1 Hd2 Hi Hp H) as (A1 & A2 & A3 & A4 & A5).
        split; [exact A1|]. split; [exact A2|]. split; [exact A3|]. split.
        - intros r' s' Hrs. apply A4. destruct Hrs; [now left|right; lia].
        - intros s s2 Hs Hs2 Hc Hn. destruct (Nat.eq_dec s slot) as [->|Hne]; [now left|]. apply (A5 s s2); try assumption; lia. }
    set (c0 := cells st r slot) in *.
    set (c1 := if Qeq_bool done 0 then step G c0 (Offset off) else c0) in *.
    assert (Hc0 : Inv G c0) by apply Hi.
    assert (Hc1 : Inv G c1).
    { unfold c1. destruct (Qeq_bool done 0); [|exact Hc0]. apply step_inv; [apply (G_pos p Hwf)|split; assumption|exact Hc0]. }
    assert (He1 : entries c1 = entries c0) by (unfold c1; destruct (Qeq_bool done 0); [apply offset_entries|reflexivity]).
    assert (Hu1 : used c0 <= used c1).
    { unfold c1. destruct (Qeq_bool done 0); [|lra]. Local Transparent step. cbn [step]. Local Opaque step.
      destruct (Qlt_le_dec (used c0) off); cbn [used]; lra. }
    assert (Hp1 : Forall (fun x => 0 < snd x) (entries c1)) by (rewrite He1; apply Hp).
    set (c2 := step G c1 (Book t None)) in *.
    destruct (Qle_bool (G - used c1) tol_avail || Nat.eqb (length (entries c2)) (length (entries c1))
              || negb (forallb (fun l => slimit_ok p st l slot) (slimits_of p t r))) eqn:Eb.
    { (* walked past *)
      set (st1 := set_cell st r slot c1) in *.
      assert (Hi1 : SInv p st1) by (apply set_cell_inv; [exact Hi|exact Hc1|intros _; exact Ew]).
      assert (Hpm : PInv st1) by (apply pinv_set; assumption).
      destruct (IH _ _ _ _ _ _ Hd1 Hd2 Hi1 Hpm H) as (A1 & A2 & A3 & A4 & A5).
      split; [exact A1|]. split; [|split; [exact A3|split]].
      - intros r' s'. eapply Qle_trans; [|apply A2].
        destruct (Nat.eq_dec r' r) as [->|Hr]; [destruct (Nat.eq_dec s' slot) as [->|Hs]|].
        + unfold st1. rewrite set_same. exact Hu1.
        + unfold st1. rewrite set_other by (right; exact Hs). lra.
        + unfold st1. rewrite set_other by (left; exact Hr). lra.
      - intros r' s' Hrs. rewrite A4 by (destruct Hrs; [now left|right; lia]).
        unfold st1. apply set_other. destruct Hrs as [Hr|Hs]; [now left|right; lia].
      - intros s s2 Hs Hs2 Hc Hn. destruct (Nat.eq_dec s slot) as [->|Hne].
        + (* the slot walked past right now *)
          assert (Ecell : cells st' r slot = c1) by (rewrite A4 by (right; lia); unfold st1; apply set_same).
          apply orb_true_iff in Eb as [Eb|Eb]; [apply orb_true_iff in Eb as [Eb|Eb]|].
          * right. left. rewrite Ecell. now apply Qle_bool_iff.
          * right. left. rewrite Ecell. destruct (Qlt_le_dec 0 (G - used c1)) as [L|L]; [exfalso|unfold tol_avail; lra].
            destruct (book_books t c1 Hc1 Hp1 L) as (Ee & _). fold c2 in Ee. rewrite Ee, app_length in Eb.
            apply Nat.eqb_eq in Eb. cbn in Eb. lia.
          * right. right. apply negb_true_iff in Eb.
            assert (Hex : exists l, In l (slimits_of p t r) /\ slimit_ok p st l slot = false).
            { clear -Eb. induction (slimits_of p t r) as [|l tl IHl]; cbn in Eb; [discriminate|].
              apply andb_false_iff in Eb as [Eb|Eb]; [exists l; split; [now left|exact Eb]|].
              destruct (IHl Eb) as (l' & Hl' & E'). exists l'. split; [now right|exact E']. }
            destruct Hex as (l & Hl & El). exists l. split; [exact Hl|].
            unfold slimit_ok in El. apply Nat.ltb_ge in El.
            eapply Nat.le_trans; [exact El|]. apply susage_grows. destruct A3 as [new E]. exists new. exact E.
        + apply (A5 s s2); try assumption; [lia| |].
          * unfold st1. rewrite set_other by (right; lia). exact Hc.
          * unfold st1. rewrite set_other by (right; exact Hne). exact Hn. }
    (* booked *)
    apply orb_false_iff in Eb as [Eb El]. apply orb_false_iff in Eb as [Ea Elen].
    assert (Ha : tol_avail < G - used c1) by (apply Qnot_le_lt; intros Hle; apply Qle_bool_iff in Hle; congruence).
    assert (Hapos : 0 < G - used c1) by (unfold tol_avail in Ha; lra).
    destruct (book_books t c1 Hc1 Hp1 Hapos) as (Ee2 & Hav & Hav2 & Hu2). fold c2 in Ee2, Hu2.
    assert (Hc2 : Inv G c2) by (apply step_inv; [apply (G_pos p Hwf)|exact I|exact Hc1]).
    assert (Htent2 : tent t c2 <> tent t c0).
    { unfold tent. rewrite Ee2, filter_app, He1. cbn [filter fst]. rewrite Nat.eqb_refl. apply app_neq_self. }
    destruct (Qle_bool (need - tol_done) (done + (G - used c1) * e)) eqn:Ef.
    - (* finishes here *)
      injection H as <- _.
      set (needed := Qmin ((need - done) / e) G) in *.
      assert (Hq : 0 < (need - done) / e) by (apply Qlt_shift_div_l; [exact He|]; rewrite Qmult_0_l; lra).
      assert (Hn0 : 0 < needed) by (apply Q.min_glb_lt; [exact Hq|apply (G_pos p Hwf)]).
      set (c3 := step G c2 (Finish t needed)) in *.
      assert (Hrel : release_last t needed (entries c2) = Some (entries c1 ++ [(t, Qmin needed (avail G c1))], avail G c1, Qmin needed (avail G c1)))
        by (rewrite Ee2; apply release_last_snoc).
      assert (Hc3e : entries c3 = entries c1 ++ [(t, Qmin needed (avail G c1))] /\ used c3 = used c2 - avail G c1 + Qmin needed (avail G c1)).
      { unfold c3. Local Transparent step. cbn [step]. Local Opaque step. rewrite Hrel. split; reflexivity. }
      destruct Hc3e as [Hc3e Hc3u].
      assert (Hk0 : 0 < Qmin needed (avail G c1)) by (apply Q.min_glb_lt; assumption).
      split; [|split; [|split; [|split]]].
      + intros r' s'. rewrite cells_note. apply pinv_set; [exact Hp|]. rewrite Hc3e. apply Forall_app. split; [exact Hp1|].
        constructor; [exact Hk0|constructor].
      + intros r' s'. rewrite cells_note.
        destruct (Nat.eq_dec r' r) as [->|Hr]; [destruct (Nat.eq_dec s' slot) as [->|Hs]|].
        * rewrite set_same. rewrite Hc3u, Hu2. fold c0. lra.
        * rewrite set_other by (right; exact Hs). lra.
        * rewrite set_other by (left; exact Hr). lra.
      + exists [(t, r, slot)]. reflexivity.
      + intros r' s' Hrs. rewrite cells_note. apply set_other. destruct Hrs as [Hr|Hs]; [now left|right; lia].
      + intros s s2 Hs Hs2 Hc _. exfalso. apply Hc. rewrite cells_note, set_other by (right; lia). reflexivity.
    - (* goes on *)
      assert (Hf : ~ need - tol_done <= done + (G - used c1) * e) by (intros Hle; apply Qle_bool_iff in Hle; congruence).
      apply Qnot_le_lt in Hf.
      assert (Hae : 0 < (G - used c1) * e) by (apply Qmult_lt_0_compat; assumption).
      set (st1 := note_booking (set_cell st r slot c2) t r slot) in *.
      assert (Hi1 : SInv p st1) by (apply note_inv, set_cell_inv; [exact Hi|exact Hc2|intros _; exact Ew]).
      assert (Hpm : PInv st1).
      { intros r' s'. unfold st1. rewrite cells_note. apply pinv_set; [exact Hp|]. rewrite Ee2. apply Forall_app. split; [exact Hp1|].
        constructor; [exact Hav|constructor]. }
      destruct (IH (S slot) (done + (G - used c1) * e) (Some (match start with Some s0 => s0 | None => (Z.of_nat slot * sp_G p + Qfloor off)%Z end)) st1 st' d) as (A1 & A2 & A3 & A4 & A5);
        [lra|unfold tol_done in Hf; lra|exact Hi1|exact Hpm|exact H|].
      split; [exact A1|]. split; [|split; [|split]].
      + intros r' s'. eapply Qle_trans; [|apply A2]. unfold st1. rewrite cells_note.
        destruct (Nat.eq_dec r' r) as [->|Hr]; [destruct (Nat.eq_dec s' slot) as [->|Hs]|].
        * rewrite set_same, Hu2. fold c0. lra.
        * rewrite set_other by (right; exact Hs). lra.
        * rewrite set_other by (left; exact Hr). lra.
      + destruct A3 as [new E]. exists (new ++ [(t, r, slot)]). rewrite E. unfold st1. cbn [note_booking sbooked set_cell].
        now rewrite <- app_assoc.
      + intros r' s' Hrs. rewrite A4 by (destruct Hrs; [now left|right; lia]). unfold st1. rewrite cells_note.
        apply set_other. destruct Hrs as [Hr|Hs]; [now left|right; lia].
      + intros s s2 Hs Hs2 Hc Hn. destruct (Nat.eq_dec s slot) as [->|Hne].
        * exfalso. rewrite A4 in Hn by (right; lia). unfold st1 in Hn. rewrite cells_note, set_same in Hn. now apply Htent2.
        * apply (A5 s s2); try assumption; [lia| |].
          -- unfold st1. rewrite cells_note, set_other by (right; lia). exact Hc.
          -- unfold st1. rewrite cells_note, set_other by (right; exact Hne). exact Hn.
  Qed.
  Local Transparent step.
  (* ------------------------------------------------------------ through the ready loop *)
  Definition Grows (st st' : sstate) : Prop :=
    (forall r s, used (cells st r s) <= used (cells st' r s)) /\ (exists new, sbooked st' = new ++ sbooked st).

  Lemma Reason_mono st st' t r s : Grows st st' -> Reason st t r s -> Reason st' t r s.
  Proof.
    intros [Hu Hb] [H|[H|(l & Hl & H)]]; [now left| |].
    - right. left. specialize (Hu r s). lra.
    - right. right. exists l. split; [exact Hl|]. eapply Nat.le_trans; [exact H|]. now apply susage_grows.
  Qed.

  Definition NoIdle (st : sstate) (t : nat) : Prop :=
    let k := stask_of p t in let r := s_res k in
    exists b : Z,
      (0 <= b)%Z /\
      (forall s, s_pin k = Some s -> b = s) /\
      (s_pin k = None ->
         (s_lb k <= b)%Z /\
         forall d, In d (s_deps k) ->
           exists s' e', sdates p st (sd_task d) = Some (s', e') /\ ((if sd_onstart d then s' else e') + sd_gap d <= b)%Z) /\
      forall s s2, (Z.to_nat (b / sp_G p) <= s)%nat -> (s < s2)%nat ->
        tent t (cells st r s2) <> [] -> tent t (cells st r s) = [] -> Reason st t r s.

  Lemma NoIdle_stable st st' t : sext st st' -> Grows st st' -> (forall r s, tent t (cells st' r s) = tent t (cells st r s)) ->
    NoIdle st t -> NoIdle st' t.
  Proof.
    intros He Hg Hc (b & B0 & B1 & B2 & B3). exists b. split; [exact B0|]. split; [exact B1|]. split.
    - intros Hp. destruct (B2 Hp) as [A B]. split; [exact A|]. intros d Hd. destruct (B d Hd) as (s' & e' & D1 & D2).
      exists s', e'. split; [eapply sdates_stable; eassumption|exact D2].
    - intros s s2 Hs Hs2 H1 H2. rewrite Hc in H1, H2. eapply Reason_mono; [exact Hg|]. eapply B3; eassumption.
  Qed.

  Definition K (st : sstate) : Prop :=
    PInv st /\ forall t f e, sleaf_dates st t = Some (f, e) -> s_mile (stask_of p t) = false -> NoIdle st t.

  Lemma Grows_refl st : Grows st st.
  Proof. split; [intros; lra|exists []; reflexivity]. Qed.

  Lemma Grows_place st t d : Grows st (splace st t d).
  Proof. split; [intros; cbn [splace cells]; lra|exists []; reflexivity]. Qed.

  Lemma sstep_K st work t rest : SInv p st -> JS p st work -> K st -> spick p st work = Some (t, rest) -> K (sschedule_task p st t).
  Proof.
    intros Hi HJ [Hp HK] Hpick. destruct (spick_spec p _ _ _ _ Hpick) as (Hready & Hin & _).
    pose proof (js_unplaced _ _ _ HJ t Hin) as Hunpl. pose proof (js_fresh _ _ _ HJ t Hin) as Hfresh.
    destruct (sbound_facts p st t Hready) as [Fpin Fdeps].
    unfold sschedule_task. cbn zeta. set (b := sbound p st t) in *.
    destruct ((b <? 0)%Z || (Z.of_nat (sp_upper p) <? b / sp_G p)%Z) eqn:Eh; [split; assumption|].
    apply orb_false_iff in Eh as [Eh1 _]. apply Z.ltb_ge in Eh1. pose proof (wf_G p Hwf) as HG.
    destruct (s_mile (stask_of p t)) eqn:Em.
    - split; [exact Hp|]. intros u f e Hu Hm. destruct (Nat.eq_dec u t) as [->|Hne]; [congruence|].
      rewrite sleaf_dates_place_other in Hu by exact Hne.
      apply (NoIdle_stable st); [now apply splace_sext|apply Grows_place|reflexivity|eapply HK; eassumption].
    - set (r := s_res (stask_of p t)) in *. set (slot0 := Z.to_nat (b / sp_G p)) in *.
      pose proof (Z.mod_pos_bound b (sp_G p) HG) as Hmod.
      destruct (swalk p t r (sr_eff (sres_of p r)) (s_effort (stask_of p t)) (inject_Z (b mod sp_G p))
                      (S (sp_upper p) - slot0) slot0 0 None st) as [st1 d] eqn:Ew.
      pose proof (swalk_placed p _ _ _ _ _ _ _ _ _ _ _ _ Ew) as Hpl.
      pose proof (swalk_others p _ _ _ _ _ _ _ _ _ _ _ _ Ew) as Hoth.
      assert (Hoff : 0 <= inject_Z (b mod sp_G p) /\ inject_Z (b mod sp_G p) <= G).
      { split; [change 0 with (inject_Z 0); rewrite <- Zle_Qle; lia|rewrite <- Zle_Qle; lia]. }
      destruct (swalk_idle t r _ _ _ (wf_eff p Hwf r) (proj1 Hoff) (proj2 Hoff) _ _ _ _ _ _ _
                  (Qle_refl 0) (wf_work p Hwf t Em) Hi Hp Ew) as (A1 & A2 & A3 & A4 & A5).
      assert (Hg : Grows st st1) by (split; assumption).
      assert (He1 : sext st st1) by (intros u d' Hu; unfold sleaf_dates in *; now rewrite Hpl).
      assert (Hold : forall u f e, u <> t -> sleaf_dates st1 u = Some (f, e) -> s_mile (stask_of p u) = false -> NoIdle st1 u).
      { intros u f e Hne Hu Hm. apply (NoIdle_stable st); [exact He1|exact Hg|intros; now apply Hoth|].
        apply (HK u f e); [unfold sleaf_dates in *; now rewrite Hpl in Hu|exact Hm]. }
      destruct d as [[f e]|].
      + assert (Hunpl1 : sleaf_dates st1 t = None) by (unfold sleaf_dates in *; now rewrite Hpl).
        split; [exact A1|]. intros u f' e' Hu Hm. destruct (Nat.eq_dec u t) as [->|Hne].
        * exists b. cbn zeta. fold r. cbn [splace cells]. split; [exact Eh1|]. split; [exact Fpin|]. split.
          -- intros Hpin. destruct (Fdeps Hpin) as [A B]. split; [exact A|]. intros dd Hd.
             destruct (B dd Hd) as (s' & e'' & D1 & D2). exists s', e''. split; [|exact D2].
             eapply sdates_stable; [apply splace_sext; exact Hunpl1|]. eapply sdates_stable; eassumption.
          -- intros s s2 Hs Hs2 H1 H2. fold slot0 in Hs.
             apply (Reason_mono st1); [apply Grows_place|]. apply (A5 s s2 Hs Hs2).
             ++ rewrite (Hfresh r s2). exact H1.
             ++ rewrite (Hfresh r s). exact H2.
        * rewrite sleaf_dates_place_other in Hu by exact Hne.
          apply (NoIdle_stable st1); [now apply splace_sext|apply Grows_place|reflexivity|eapply Hold; eassumption].
      + split; [exact A1|]. intros u f e Hu Hm. eapply Hold; try eassumption.
        intros ->. unfold sleaf_dates in *. rewrite Hpl in Hu. congruence.
  Qed.

  Lemma sloop_K : forall fuel work st, SInv p st -> JS p st work -> K st -> K (sloop p fuel work st).
  Proof.
    induction fuel as [|fuel IH]; intros work st Hi HJ HK; cbn [sloop]; [exact HK|].
    destruct (spick p st work) as [[t rest]|] eqn:E; [|exact HK].
    apply (IH rest); [now apply (sschedule_task_inv p Hwf)|eapply (sstep_JS p Hwf); eassumption|eapply sstep_K; eassumption].
  Qed.

  (* C08 (seconds): for a placed task with work there is a bound b (its own start if pinned, otherwise no earlier
     than the inherited start and than every predecessor's end (start) plus gap) such that every slot from the slot
     of b up to the last slot the task booked, in which the task has no entry, is - in the FINAL ledger - outside
     the working time of its resource, or full (less than 1e-6 s left), or closed by a limit whose count for that
     period has reached its value *)
  Theorem subslot_no_idle t f e : sleaf_dates (sschedule p) t = Some (f, e) -> s_mile (stask_of p t) = false ->
    NoIdle (sschedule p) t.
  Proof.
    intros Ht Hm. unfold sschedule in *. cbn zeta in *.
    assert (HK : K (sprepass p)).
    { split.
      - intros r s. rewrite (sprepass_cells p). constructor.
      - intros u f' e' Hu Hmu. exfalso.
        pose proof (js_good _ _ _ (sprepass_JS p) u f' e' Hu) as Hg. destruct Hg as [_ _ _ _ Gp].
        destruct (sprepass_spec p (seq 0 (length (sp_tasks p))) sinit (seq_NoDup _ _) (fun _ _ => eq_refl)) as [_ Hsp].
        destruct (Hsp u _ Hu) as [Hi|(s & _ & _ & Hmm)]; [discriminate|congruence]. }
    destruct (sloop_K (length (swork0 p)) (swork0 p) _ (sprepass_inv p Hwf) (sprepass_JS p) HK) as [_ Hall].
    exact (Hall t f e Ht Hm).
  Qed.
End Idle.
