(* More theorems about the second-granularity model: containers (C10) and the horizon (C11). *)
From Coq Require Import QArith Qround Qminmax List Bool Arith ZArith Lia Lqa.
Require Import SP.Model.Ledger SP.Proofs.LedgerProofs SP.Model.SubSlot SP.Proofs.SubSlotProofs.
Import ListNotations.

Section More.
  Variable p : sproject.

  (* C10: a container has dates iff every leaf below it has; then earliest start / latest end *)
  Lemma sspan_spec st : forall ls, ls <> [] ->
    (forall d, sspan st ls = Some d ->
       (forall t, In t ls -> exists d', sleaf_dates st t = Some d') /\
       (forall t s e, In t ls -> sleaf_dates st t = Some (s, e) -> (fst d <= s)%Z /\ (e <= snd d)%Z) /\
       (exists t s e, In t ls /\ sleaf_dates st t = Some (s, e) /\ s = fst d) /\
       (exists t s e, In t ls /\ sleaf_dates st t = Some (s, e) /\ e = snd d)) /\
    (sspan st ls = None -> exists t, In t ls /\ sleaf_dates st t = None).
  Proof.
    induction ls as [|t tl IH]; intros Hne; [contradiction|].
    destruct tl as [|u tl].
    - cbn [sspan]. split.
      + intros d Hd. split; [intros t' [<-|[]]; eauto|]. split.
        * intros t' s e [<-|[]] H. rewrite Hd in H. injection H as ->. cbn. lia.
        * destruct d as [s e]. split; exists t, s, e; (split; [now left|split; [exact Hd|reflexivity]]).
      + intros Hd. exists t. split; [now left|exact Hd].
    - change (sspan st (t :: u :: tl)) with
        (match sleaf_dates st t, sspan st (u :: tl) with
         | Some (s, e), Some (s', e') => Some (Z.min s s', Z.max e e') | _, _ => None end).
      destruct (IH ltac:(discriminate)) as [IH1 IH2].
      destruct (sleaf_dates st t) as [[s e]|] eqn:E1.
      + destruct (sspan st (u :: tl)) as [[s' e']|] eqn:E2.
        * split; [|discriminate]. intros d [= <-].
          destruct (IH1 _ eq_refl) as (A & B & (t1 & s1 & e1 & C1 & C2 & C3) & (t2 & s2 & e2 & D1 & D2 & D3)).
          cbn [fst snd] in *. split; [|split; [|split]].
          -- intros t' [<-|Ht']; [eauto|now apply A].
          -- intros t' s0 e0 [<-|Ht'] H.
             ++ rewrite E1 in H. injection H as <- <-. lia.
             ++ destruct (B _ _ _ Ht' H). lia.
          -- destruct (Z.le_gt_cases s s').
             ++ exists t, s, e. split; [now left|]. split; [exact E1|lia].
             ++ exists t1, s1, e1. split; [now right|]. split; [exact C2|lia].
          -- destruct (Z.le_gt_cases e' e).
             ++ exists t, s, e. split; [now left|]. split; [exact E1|lia].
             ++ exists t2, s2, e2. split; [now right|]. split; [exact D2|lia].
        * split; [discriminate|]. intros _. destruct (IH2 eq_refl) as (t' & Ht' & Hn). exists t'. split; [now right|exact Hn].
      + split; [discriminate|]. intros _. exists t. split; [now left|exact E1].
  Qed.

  Theorem subslot_container c : s_leaf (stask_of p c) = false -> s_leaves (stask_of p c) <> [] ->
    let st := sschedule p in
    (forall s e, sdates p st c = Some (s, e) ->
       (forall t, In t (s_leaves (stask_of p c)) -> exists d, sleaf_dates st t = Some d) /\
       (forall t s' e', In t (s_leaves (stask_of p c)) -> sleaf_dates st t = Some (s', e') -> (s <= s')%Z /\ (e' <= e)%Z) /\
       (exists t s' e', In t (s_leaves (stask_of p c)) /\ sleaf_dates st t = Some (s', e') /\ s' = s) /\
       (exists t s' e', In t (s_leaves (stask_of p c)) /\ sleaf_dates st t = Some (s', e') /\ e' = e)) /\
    (sdates p st c = None -> exists t, In t (s_leaves (stask_of p c)) /\ sleaf_dates st t = None).
  Proof.
    intros Hc Hne st. unfold sdates. rewrite Hc. destruct (sspan_spec st _ Hne) as [A B]. split; [|exact B].
    intros s e H. exact (A _ H).
  Qed.
End More.
