(* Invariants of the booking history of the scheduler model, for every project, every policy-free
   step: no double booking (C01), booked => working (C02), limits (C05), horizon (C11). *)
From Coq Require Import List Bool Arith ZArith Lia.
Require Import SP.Model.Sched.
Import ListNotations.

Section Inv.
  Variable p : project.

  Definition key (b : booking) : nat * nat := (b_res b, b_slot b).

  Record Inv (st : state) : Prop := {
    inv_nodup : NoDup (map key (bookings st));
    inv_work : forall b, In b (bookings st) -> r_work (res_of p (b_res b)) (b_slot b) = true;
    inv_limit : forall l k, usage p st l k <= l_value (lim_of p l);
    inv_range : forall b, In b (bookings st) -> b_slot b <= p_upper p
  }.

  Lemma init_inv : Inv init.
  Proof. constructor; cbn; try constructor; try tauto. intros; unfold usage; cbn; lia. Qed.

  Lemma booked_false_notin st r s :
    booked st r s = false -> ~ In (r, s) (map key (bookings st)).
  Proof.
    unfold booked. intros H Hin. apply in_map_iff in Hin as (b & Hk & Hb).
    assert (existsb (fun b0 => Nat.eqb (b_res b0) r && Nat.eqb (b_slot b0) s) (bookings st) = true).
    { apply existsb_exists. exists b. split; [exact Hb|]. unfold key in Hk. injection Hk as <- <-.
      now rewrite !Nat.eqb_refl. }
    congruence.
  Qed.

  Lemma counts_limits_of l t r s :
    counts p l {| b_task := t; b_res := r; b_slot := s |} = true -> In l (limits_of p t r).
  Proof.
    unfold counts, limits_of; cbn. intros H. apply in_or_app. apply orb_true_iff in H as [H|H].
    - left. apply existsb_exists in H as (x & Hx & E). apply Nat.eqb_eq in E. now subst.
    - right. apply andb_true_iff in H as [H1 H2]. apply existsb_exists in H1 as (x & Hx & E).
      apply Nat.eqb_eq in E. subst x. apply filter_In. split; [exact Hx|exact H2].
  Qed.

  Lemma usage_add st t r s l k :
    usage p (add st t r s) l k =
    (if counts p l {| b_task := t; b_res := r; b_slot := s |} && Z.eqb (l_period (lim_of p l) s) k then 1 else 0)
    + usage p st l k.
  Proof.
    unfold usage, add; cbn [bookings filter b_slot].
    destruct (counts p l _ && Z.eqb _ k); reflexivity.
  Qed.

  Lemma add_inv st t r s : s <= p_upper p -> Inv st -> can_book p st t r s = true -> Inv (add st t r s).
  Proof.
    intros Hs [H1 H2 H3 H4] Hc. unfold can_book in Hc.
    apply andb_true_iff in Hc as [Hc Hl]. apply andb_true_iff in Hc as [Hw Hb]. apply negb_true_iff in Hb.
    constructor; cbn [add bookings map].
    - constructor; [apply booked_false_notin; exact Hb|exact H1].
    - intros b [<-|Hb']; [exact Hw|now apply H2].
    - intros l k. rewrite usage_add.
      destruct (counts p l _) eqn:Ec; cbn [andb]; [|apply H3].
      destruct (Z.eqb_spec (l_period (lim_of p l) s) k) as [<-|Hne]; [|apply H3].
      apply counts_limits_of in Ec.
      rewrite forallb_forall in Hl. specialize (Hl l Ec). unfold limit_ok in Hl.
      apply Nat.ltb_lt in Hl. lia.
    - intros b [<-|Hb']; [exact Hs|now apply H4].
  Qed.

  Lemma book_team_inv t s : s <= p_upper p -> forall team st st',
    Inv st -> book_team p st t s team = Some st' -> Inv st'.
  Proof.
    intros Hs. induction team as [|r tl IH]; intros st st' Hi H; cbn in H.
    - now injection H as <-.
    - destruct (can_book p st t r s) eqn:E; [|discriminate].
      eapply IH; [|exact H]. now apply add_inv.
  Qed.

  Lemma walk_inv t : forall fuel s need first st st' d,
    s + fuel <= S (p_upper p) -> Inv st -> walk p t fuel s need first st = (st', d) -> Inv st'.
  Proof.
    induction fuel as [|fuel IH]; intros s need first st st' d Hr Hi H; cbn in H.
    - now injection H as <- _.
    - destruct (book_team p st t s (t_team (task_of p t))) as [st1|] eqn:E.
      + assert (Inv st1) by (eapply book_team_inv; [|exact Hi|exact E]; lia).
        destruct need as [|[|need]]; try (injection H as <- _; assumption).
        eapply IH; [|eassumption|exact H]. lia.
      + eapply IH; [|exact Hi|exact H]. lia.
  Qed.

  Lemma place_inv st t d : Inv st -> Inv (place st t d).
  Proof. intros [H1 H2 H3 H4]; constructor; assumption. Qed.

  Lemma schedule_task_inv st t : Inv st -> Inv (schedule_task p st t).
  Proof.
    intros Hi. unfold schedule_task.
    destruct (p_upper p <? bound p st t) eqn:Eb; [exact Hi|]. apply Nat.ltb_ge in Eb.
    destruct (t_need (task_of p t)) as [|n] eqn:En; [now apply place_inv|].
    destruct (t_team (task_of p t)) eqn:Et; [exact Hi|].
    destruct (walk p t (S (p_upper p) - bound p st t) (bound p st t) (S n) None st) as [st' [d|]] eqn:Ew.
    - apply place_inv. eapply walk_inv; [|exact Hi|exact Ew]. lia.
    - eapply walk_inv; [|exact Hi|exact Ew]. lia.
  Qed.

  Lemma loop_inv : forall fuel work st, Inv st -> Inv (loop p fuel work st).
  Proof.
    induction fuel as [|fuel IH]; intros work st Hi; cbn; [exact Hi|].
    destruct (pick p st work) as [[t rest]|]; [|exact Hi].
    apply IH. now apply schedule_task_inv.
  Qed.

  Lemma prepass_inv : Inv (prepass p).
  Proof.
    unfold prepass. generalize (seq 0 (length (p_tasks p))). intros l.
    assert (G : forall l st, Inv st -> Inv (fold_left (fun st t => let k := task_of p t in
                         if t_leaf k && Nat.eqb (t_need k) 0
                         then match t_pin k with
                              | Some s => if s <=? p_upper p then place st t (s, s) else st
                              | None => st end
                         else st) l st)).
    { induction l0 as [|t tl IH]; intros st Hi; cbn [fold_left]; [exact Hi|]. apply IH.
      cbn zeta. destruct (t_leaf (task_of p t) && Nat.eqb (t_need (task_of p t)) 0); [|exact Hi].
      destruct (t_pin (task_of p t)) as [s|]; [|exact Hi]. destruct (s <=? p_upper p); [now apply place_inv|exact Hi]. }
    apply G. apply init_inv.
  Qed.

  Theorem schedule_inv : Inv (schedule p).
  Proof. unfold schedule. apply loop_inv. apply prepass_inv. Qed.
End Inv.
