(* The main loop: every placed task keeps its dates, respects its dependencies and its frame,
   and took the earliest eligible slots (C04, C06, C07, C08, C10). *)
From Coq Require Import List Bool Arith ZArith Lia.
Require Import SP.Model.Sched SP.Proofs.SchedInv SP.Proofs.SchedWalk.
Import ListNotations.

Section Main.
  Variable p : project.

  (* monotone growth: bookings are only added, placed tasks keep their dates *)
  Definition ext (st st' : state) : Prop :=
    (exists new, bookings st' = new ++ bookings st) /\
    (forall u d, leaf_dates st u = Some d -> leaf_dates st' u = Some d).

  Lemma ext_refl st : ext st st.
  Proof. split; [exists []; reflexivity|auto]. Qed.

  Lemma ext_trans a b c : ext a b -> ext b c -> ext a c.
  Proof.
    intros [[n1 H1] G1] [[n2 H2] G2]. split; [|auto].
    exists (n2 ++ n1). rewrite H2, H1. now rewrite app_assoc.
  Qed.

  Lemma ext_in a b x : ext a b -> In x (bookings a) -> In x (bookings b).
  Proof. intros [[n H] _] Hin. rewrite H. apply in_or_app. now right. Qed.

  (* ---- dates are stable *)
  Lemma span_stable st st' ls d : ext st st' -> span st ls = Some d -> span st' ls = Some d.
  Proof.
    intros [_ He]. revert d. induction ls as [|t tl IH]; intros d H; [discriminate|].
    destruct tl as [|u tl].
    - cbn in *. now apply He.
    - change (span st (t :: u :: tl)) with
        (match leaf_dates st t, span st (u :: tl) with
         | Some (s, e), Some (s', e') => Some (Nat.min s s', Nat.max e e') | _, _ => None end) in H.
      change (span st' (t :: u :: tl)) with
        (match leaf_dates st' t, span st' (u :: tl) with
         | Some (s, e), Some (s', e') => Some (Nat.min s s', Nat.max e e') | _, _ => None end).
      destruct (leaf_dates st t) as [[s e]|] eqn:E1; [|discriminate].
      destruct (span st (u :: tl)) as [[s' e']|] eqn:E2; [|discriminate].
      rewrite (He _ _ E1), (IH _ eq_refl). exact H.
  Qed.

  Lemma dates_stable st st' t d : ext st st' -> dates p st t = Some d -> dates p st' t = Some d.
  Proof.
    intros He. unfold dates. destruct (t_leaf (task_of p t)).
    - destruct He as [_ He]. apply He.
    - now apply span_stable.
  Qed.

  Lemma dep_time_stable st st' d x : ext st st' -> dep_time p st d = Some x -> dep_time p st' d = Some x.
  Proof.
    intros He. unfold dep_time. destruct (dates p st (d_task d)) as [[s e]|] eqn:E; [|discriminate].
    now rewrite (dates_stable _ _ _ _ He E).
  Qed.

  (* ---- the dependency bound *)
  Lemma fold_max_ge (f : dep -> option nat) : forall l acc,
    acc <= fold_left (fun a d => match f d with Some x => Nat.max a x | None => a end) l acc /\
    forall d x, In d l -> f d = Some x ->
      x <= fold_left (fun a d => match f d with Some x => Nat.max a x | None => a end) l acc.
  Proof.
    induction l as [|d tl IH]; intros acc; cbn [fold_left]; [split; [lia|intros ? ? []]|].
    destruct (IH (match f d with Some x => Nat.max acc x | None => acc end)) as [A B]. split.
    - revert A. destruct (f d); intros; lia.
    - intros d' x [<-|Hin] Hf; [|now apply (B d' x)]. rewrite Hf in A |- *. lia.
  Qed.

  Lemma bound_spec st t : t_pin (task_of p t) = None ->
    t_lb (task_of p t) <= bound p st t /\
    forall d x, In d (t_deps (task_of p t)) -> dep_time p st d = Some x -> x <= bound p st t.
  Proof. intros Hp. unfold bound. rewrite Hp. apply (fold_max_ge (dep_time p st)). Qed.

  Lemma ready_spec st t : ready p st t = true ->
    forall d, In d (t_deps (task_of p t)) -> exists x, dep_time p st d = Some x.
  Proof.
    unfold ready. rewrite forallb_forall. intros H d Hd. specialize (H d Hd). unfold dep_time.
    destruct (dates p st (d_task d)) as [[s e]|]; [eauto|discriminate].
  Qed.

  (* ---- what a placed task looks like; every clause is stable under ext *)
  Inductive Good (st : state) (t f e : nat) : Prop :=
  | mkGood (st0 : state) (b : nat)             (* the state in which t was placed; its bound there *)
      (g_ext : ext st0 st)
      (g_fresh : forall x, In x (bookings st0) -> b_task x <> t)
      (g_bound : b <= f)
      (g_pin : forall s, t_pin (task_of p t) = Some s -> b = s)
      (g_deps : t_pin (task_of p t) = None ->
                t_lb (task_of p t) <= b /\
                forall d, In d (t_deps (task_of p t)) -> exists x, dep_time p st0 d = Some x /\ x <= b)
      (g_ready : t_pin (task_of p t) = None \/ t_need (task_of p t) <> 0 ->
                 forall d, In d (t_deps (task_of p t)) -> exists x, dep_time p st0 d = Some x)
      (g_upper : t_pin (task_of p t) = None \/ t_need (task_of p t) <> 0 -> e <= S (p_upper p) /\ b <= p_upper p)
      (g_mile : t_need (task_of p t) = 0 -> f = b /\ e = b)
      (g_frame : t_need (task_of p t) <> 0 ->
                 f < e /\ t_team (task_of p t) <> [] /\
                 (forall r, In r (t_team (task_of p t)) -> In (mk t r f) (bookings st) /\ In (mk t r (e - 1)) (bookings st)))
      (g_fit : t_need (task_of p t) <> 0 -> forall x, b <= x -> x < e ->
               (forall r, In r (t_team (task_of p t)) -> In (mk t r x) (bookings st)) \/
               (exists stx, bext st0 stx /\ bext stx st /\
                  (forall y, In y (bookings stx) -> In y (bookings st0) \/ (b_task y = t /\ b_slot y < x)) /\
                  book_team p stx t x (t_team (task_of p t)) = None)).

  Lemma Good_stable st st' t f e : ext st st' -> Good st t f e -> Good st' t f e.
  Proof.
    intros He [st0 b G1 G2 G3 G4 G5 G6 G7 G8 G9 G10].
    apply (mkGood st' t f e st0 b); try assumption.
    - eapply ext_trans; eassumption.
    - intros Hn. destruct (G9 Hn) as (A & B & C). split; [exact A|]. split; [exact B|].
      intros r Hr. destruct (C r Hr). split; eapply ext_in; eassumption.
    - intros Hn x Hx1 Hx2. destruct (G10 Hn x Hx1 Hx2) as [L|(stx & X1 & X2 & X3 & X4)].
      + left. intros r Hr. eapply ext_in; [exact He|now apply L].
      + right. exists stx. split; [exact X1|]. split; [|split; assumption].
        eapply bext_trans; [exact X2|]. destruct He as [Hb _]. exact Hb.
  Qed.

  (* ---- loop invariant *)
  Record J (st : state) (work : list nat) : Prop := {
    j_nodup : NoDup work;
    j_unplaced : forall t, In t work -> leaf_dates st t = None;
    j_nobook : forall b, In b (bookings st) -> ~ In (b_task b) work;
    j_good : forall t f e, leaf_dates st t = Some (f, e) -> Good st t f e;
    j_own : forall t f e, leaf_dates st t = Some (f, e) ->
            forall x, In x (bookings st) -> b_task x = t -> f <= b_slot x < e;
    j_blocks : forall t f e, leaf_dates st t = Some (f, e) -> t_need (task_of p t) <> 0 ->
               exists ss, length ss = t_need (task_of p t) /\
                          filter (fun x => Nat.eqb (b_task x) t) (bookings st) = concat (map (block p t) ss)
  }.

  Lemma filter_blocks_same t ss :
    filter (fun x => Nat.eqb (b_task x) t) (concat (map (block p t) ss)) = concat (map (block p t) ss).
  Proof.
    induction ss as [|s tl IH]; [reflexivity|]. cbn [map concat]. rewrite filter_app, IH. f_equal.
    unfold block. induction (t_team (task_of p t)) as [|r rs IHr]; [reflexivity|].
    cbn [map rev]. rewrite filter_app, IHr. cbn. now rewrite Nat.eqb_refl.
  Qed.

  Lemma filter_blocks_other t u ss : u <> t ->
    filter (fun x => Nat.eqb (b_task x) u) (concat (map (block p t) ss)) = [].
  Proof.
    intros Hne. induction ss as [|s tl IH]; [reflexivity|]. cbn [map concat]. rewrite filter_app, IH, app_nil_r.
    unfold block. induction (t_team (task_of p t)) as [|r rs IHr]; [reflexivity|].
    cbn [map rev]. rewrite filter_app, IHr. cbn. destruct (Nat.eqb_spec t u); [congruence|reflexivity].
  Qed.

  Lemma filter_fresh t l : (forall x, In x l -> b_task x <> t) -> filter (fun x => Nat.eqb (b_task x) t) l = [].
  Proof.
    induction l as [|x tl IH]; intros H; [reflexivity|]. cbn.
    destruct (Nat.eqb_spec (b_task x) t) as [E|E]; [exfalso; apply (H x); [now left|exact E]|].
    apply IH. intros; apply H; now right.
  Qed.

  Lemma extends_ext a b : (forall u, leaf_dates a u <> None -> True) ->
    (exists new, bookings b = new ++ bookings a) -> placed b = placed a -> ext a b.
  Proof. intros _ H1 H2. split; [exact H1|]. intros u d. unfold leaf_dates. now rewrite H2. Qed.

  Lemma place_ext st t d : leaf_dates st t = None -> ext st (place st t d).
  Proof.
    intros Hn. split; [exists []; reflexivity|]. intros u d' Hu. unfold leaf_dates, place in *. cbn.
    destruct (Nat.eqb_spec u t) as [->|]; [congruence|exact Hu].
  Qed.

  Lemma leaf_dates_place_same st t d : leaf_dates (place st t d) t = Some d.
  Proof. unfold leaf_dates, place; cbn. now rewrite Nat.eqb_refl. Qed.

  Lemma leaf_dates_place_other st t u d : u <> t -> leaf_dates (place st t d) u = leaf_dates st u.
  Proof. intros Hne. unfold leaf_dates, place; cbn. destruct (Nat.eqb_spec u t); [contradiction|reflexivity]. Qed.

  Lemma pick_spec st : forall work t rest, pick p st work = Some (t, rest) ->
    ready p st t = true /\ In t work /\ (forall u, In u rest <-> In u work /\ u <> t \/ In u rest /\ u = t) /\
    (NoDup work -> NoDup rest /\ ~ In t rest /\ forall u, In u rest -> In u work).
  Proof.
    induction work as [|u tl IH]; intros t rest H; cbn in H; [discriminate|].
    destruct (ready p st u) eqn:E.
    - injection H as <- <-. split; [exact E|]. split; [now left|]. split.
      + intros v. split; [intros Hv|intros [[[->|Hv] Hne]|[Hv _]]]; try tauto.
        destruct (Nat.eq_dec v u) as [->|]; [right; tauto|left; split; [now right|assumption]].
      + intros Hnd. inversion Hnd; subst. split; [assumption|]. split; [assumption|]. intros; now right.
    - destruct (pick p st tl) as [[v rest']|] eqn:Ep; [|discriminate]. injection H as <- <-.
      destruct (IH _ _ eq_refl) as (A & B & C & D). split; [exact A|]. split; [now right|]. split.
      + intros w. cbn [In]. split.
        * intros [<-|Hw].
          -- destruct (Nat.eq_dec u v) as [->|]; [right; split; [now left|reflexivity]|left; split; [now left|assumption]].
          -- destruct (Nat.eq_dec w v) as [->|]; [right; split; [now right|reflexivity]|].
             left. split; [|assumption]. right. apply C in Hw as [[? ?]|[? ?]]; [assumption|contradiction].
        * intros [[[<-|Hw] Hne]|[Hw ->]]; [now left| |exact Hw].
          right. apply C. left. split; assumption.
      + intros Hnd. inversion Hnd as [|? ? Hu Htl]; subst. destruct (D Htl) as (D1 & D2 & D3). split.
        * constructor; [intros Hin; apply Hu; now apply D3|exact D1].
        * split.
          -- intros [<-|Hin]; [|contradiction]. apply Hu. exact B.
          -- intros w [<-|Hw]; [now left|right; now apply D3].
  Qed.

  (* ---- one step of the loop *)
  Lemma bound_pin st t s : t_pin (task_of p t) = Some s -> bound p st t = s.
  Proof. intros H. unfold bound. now rewrite H. Qed.

  Lemma good_deps st t : ready p st t = true ->
    (t_pin (task_of p t) = None ->
       t_lb (task_of p t) <= bound p st t /\
       forall d, In d (t_deps (task_of p t)) -> exists x, dep_time p st d = Some x /\ x <= bound p st t).
  Proof.
    intros Hr Hp. destruct (bound_spec st t Hp) as [A B]. split; [exact A|].
    intros d Hd. destruct (ready_spec _ _ Hr d Hd) as [x Hx]. exists x. split; [exact Hx|]. eapply B; eassumption.
  Qed.

  Lemma J_sub st work rest : J st work -> NoDup rest -> (forall u, In u rest -> In u work) -> J st rest.
  Proof.
    intros [J1 J2 J3 J4 J5 J6] Hnd Hsub. constructor; [exact Hnd| | |exact J4|exact J5|exact J6].
    - intros t Ht. apply J2. now apply Hsub.
    - intros b Hb Hin. apply (J3 b Hb). now apply Hsub.
  Qed.

  Lemma step_J st work t rest :
    J st work -> pick p st work = Some (t, rest) -> J (schedule_task p st t) rest.
  Proof.
    intros HJ Hp. destruct (pick_spec _ _ _ _ Hp) as (Hready & Hin & _ & Hnd).
    destruct HJ as [J1 J2 J3 J4 J5 J6]. destruct (Hnd J1) as (Nrest & Ntrest & Hsub).
    assert (HJr : J st rest) by (apply (J_sub st work); [constructor; assumption|assumption|assumption]).
    assert (Hunpl : leaf_dates st t = None) by now apply J2.
    assert (Hfresh : forall x, In x (bookings st) -> b_task x <> t).
    { intros x Hx Heq. apply (J3 x Hx). now rewrite Heq. }
    unfold schedule_task.
    destruct (p_upper p <? bound p st t) eqn:Eb; [exact HJr|]. apply Nat.ltb_ge in Eb.
    destruct (t_need (task_of p t)) as [|n] eqn:En.
    - (* milestone at its bound *)
      set (b := bound p st t) in *.
      assert (He : ext st (place st t (b, b))) by now apply place_ext.
      constructor; [exact Nrest| | | | |].
      + intros u Hu. rewrite leaf_dates_place_other; [apply J2; now apply Hsub|]. intros ->; contradiction.
      + intros x Hx. cbn in Hx. intros Hr. apply (J3 x Hx). now apply Hsub.
      + intros u f e Hu. destruct (Nat.eq_dec u t) as [->|Hne].
        * rewrite leaf_dates_place_same in Hu. injection Hu as <- <-.
          apply (mkGood _ t b b st b); try assumption; try lia.
          -- intros s Hs. unfold b. now apply bound_pin.
          -- now apply good_deps.
          -- intros _. now apply ready_spec.
        * rewrite leaf_dates_place_other in Hu by exact Hne. eapply Good_stable; [exact He|now apply J4].
      + intros u f e Hu x Hx Hxt. cbn [place bookings] in Hx. destruct (Nat.eq_dec u t) as [->|Hne].
        * exfalso. now apply (Hfresh x Hx).
        * rewrite leaf_dates_place_other in Hu by exact Hne. eapply J5; eassumption.
      + intros u f e Hu Hnu. cbn [place bookings]. destruct (Nat.eq_dec u t) as [->|Hne]; [congruence|].
        rewrite leaf_dates_place_other in Hu by exact Hne. eapply J6; eassumption.
    - destruct (t_team (task_of p t)) as [|r0 team0] eqn:Et; [exact HJr|].
      assert (Hteam : t_team (task_of p t) <> []) by (rewrite Et; discriminate).
      set (b := bound p st t) in *.
      destruct (walk p t (S (p_upper p) - b) b (S n) None st) as [st1 d] eqn:Ew.
      destruct (walk_spec p t _ _ _ _ _ _ _ Hteam Ew) as (new & N1 & N2 & N3 & N4 & N5).
      destruct (walk_blocks p t _ _ _ _ _ _ _ Ew) as (ss & S1 & _ & S3).
      assert (He1 : ext st st1).
      { split; [exists new; exact N1|]. intros u d0. unfold leaf_dates. now rewrite N2. }
      assert (Hblk_other : forall u, u <> t ->
                filter (fun x => Nat.eqb (b_task x) u) (bookings st1) = filter (fun x => Nat.eqb (b_task x) u) (bookings st)).
      { intros u Hne. rewrite S1, filter_app, filter_blocks_other by exact Hne. reflexivity. }
      assert (Hnb1 : forall x, In x (bookings st1) -> ~ In (b_task x) rest).
      { intros x Hx. rewrite N1 in Hx. apply in_app_or in Hx as [Hx|Hx].
        - destruct (N3 x Hx) as (-> & _). exact Ntrest.
        - intros Hr. apply (J3 x Hx). now apply Hsub. }
      destruct d as [[f e]|].
      + destruct (N4 f e eq_refl) as (A1 & A2 & A3 & A4 & A5 & A6 & A7 & A8).
        assert (Hunpl1 : leaf_dates st1 t = None) by (unfold leaf_dates in *; now rewrite N2).
        assert (He2 : ext st1 (place st1 t (f, e))) by now apply place_ext.
        constructor; [exact Nrest| | | | |].
        * intros u Hu. rewrite leaf_dates_place_other; [|intros ->; contradiction].
          unfold leaf_dates. rewrite N2. apply J2. now apply Hsub.
        * exact Hnb1.
        * intros u f' e' Hu. destruct (Nat.eq_dec u t) as [->|Hne].
          -- rewrite leaf_dates_place_same in Hu. injection Hu as <- <-.
             apply (mkGood _ t f e st b); try assumption; try lia.
             ++ eapply ext_trans; [exact He1|exact He2].
             ++ intros s Hs. unfold b. now apply bound_pin.
             ++ now apply good_deps.
             ++ intros _. now apply ready_spec.
             ++ intros _. split; [lia|]. split; [exact Hteam|]. intros r Hr. cbn [place bookings]. rewrite N1.
                split; apply in_or_app; left; [now apply A8|now apply A4].
             ++ intros _ x Hx1 Hx2. destruct (N5 x Hx1 Hx2) as [L|(stx & X1 & X2 & XP & X3 & X4)].
                ** left. intros r Hr. cbn [place bookings]. rewrite N1. apply in_or_app. left. now apply L.
                ** right. exists stx. split; [exact X1|]. split; [exact X2|]. split; [exact X3|exact X4].
          -- rewrite leaf_dates_place_other in Hu by exact Hne.
             apply (Good_stable st); [eapply ext_trans; [exact He1|exact He2]|]. apply J4. unfold leaf_dates in *. rewrite N2 in Hu. exact Hu.
        * intros u f' e' Hu x Hx Hxt. cbn [place bookings] in Hx. rewrite N1 in Hx.
          destruct (Nat.eq_dec u t) as [->|Hne].
          -- rewrite leaf_dates_place_same in Hu. injection Hu as <- <-.
             apply in_app_or in Hx as [Hx|Hx]; [split; [now apply A7|now apply A3]|exfalso; now apply (Hfresh x Hx)].
          -- rewrite leaf_dates_place_other in Hu by exact Hne.
             assert (Hu' : leaf_dates st u = Some (f', e')) by (unfold leaf_dates in *; rewrite N2 in Hu; exact Hu).
             apply in_app_or in Hx as [Hx|Hx]; [|eapply J5; eassumption].
             exfalso. destruct (N3 x Hx) as (Q & _). rewrite Hxt in Q. subst u. congruence.
        * intros u f' e' Hu Hnu. cbn [place bookings]. destruct (Nat.eq_dec u t) as [->|Hne].
          -- exists ss. split; [rewrite (S3 ltac:(discriminate)), En; cbn; lia|].
             rewrite S1, filter_app, filter_blocks_same, (filter_fresh t (bookings st) Hfresh). apply app_nil_r.
          -- rewrite leaf_dates_place_other in Hu by exact Hne. rewrite (Hblk_other u Hne).
             apply (J6 u f' e'); [unfold leaf_dates in *; rewrite N2 in Hu; exact Hu|exact Hnu].
      + constructor; [exact Nrest| |exact Hnb1| | |].
        * intros u Hu. unfold leaf_dates. rewrite N2. apply J2. now apply Hsub.
        * intros u f e Hu. eapply Good_stable; [exact He1|]. apply J4. unfold leaf_dates in *. rewrite N2 in Hu. exact Hu.
        * intros u f e Hu x Hx Hxt. rewrite N1 in Hx.
          assert (Hu' : leaf_dates st u = Some (f, e)) by (unfold leaf_dates in *; rewrite N2 in Hu; exact Hu).
          apply in_app_or in Hx as [Hx|Hx]; [|eapply J5; eassumption].
          exfalso. destruct (N3 x Hx) as (Q & _). rewrite Hxt in Q. subst u. congruence.
        * intros u f e Hu Hnu.
          assert (Hu' : leaf_dates st u = Some (f, e)) by (unfold leaf_dates in *; rewrite N2 in Hu; exact Hu).
          assert (Hne : u <> t) by (intros ->; congruence).
          rewrite (Hblk_other u Hne). eapply J6; eassumption.
  Qed.

  Lemma loop_J : forall fuel work st, J st work -> exists rest, J (loop p fuel work st) rest.
  Proof.
    induction fuel as [|fuel IH]; intros work st HJ; cbn; [eauto|].
    destruct (pick p st work) as [[t rest]|] eqn:E; [|eauto].
    apply (IH rest). eapply step_J; eassumption.
  Qed.

  Lemma loop_ext : forall fuel work st, J st work -> ext st (loop p fuel work st).
  Proof.
    induction fuel as [|fuel IH]; intros work st HJ; cbn; [apply ext_refl|].
    destruct (pick p st work) as [[t rest]|] eqn:E; [|apply ext_refl].
    eapply ext_trans; [|apply (IH rest); eapply step_J; eassumption].
    (* one step is an extension *)
    destruct (pick_spec _ _ _ _ E) as (_ & Hin & _ & _). destruct HJ as [J1 J2 J3 J4 J5 J6].
    assert (Hunpl : leaf_dates st t = None) by now apply J2.
    unfold schedule_task. destruct (p_upper p <? bound p st t); [apply ext_refl|].
    destruct (t_need (task_of p t)) as [|n]; [now apply place_ext|].
    destruct (t_team (task_of p t)) as [|r0 tm] eqn:Et; [apply ext_refl|].
    destruct (walk p t _ _ (S n) None st) as [st1 d] eqn:Ew.
    assert (Hteam : t_team (task_of p t) <> []) by (rewrite Et; discriminate).
    destruct (walk_spec p t _ _ _ _ _ _ _ Hteam Ew) as (new & N1 & N2 & _).
    assert (He1 : ext st st1).
    { split; [exists new; exact N1|]. intros u d0. unfold leaf_dates. now rewrite N2. }
    destruct d as [d|]; [|exact He1].
    eapply ext_trans; [exact He1|]. apply place_ext. unfold leaf_dates in *. now rewrite N2.
  Qed.

End Main.
