(* C08 for teams and limits: why a slot between bound and end was skipped, in terms of the final schedule. *)
From Coq Require Import List Bool Arith ZArith Lia.
Require Import SP.Model.Sched SP.Proofs.SchedInv SP.Proofs.SchedWalk SP.Proofs.SchedMain SP.Proofs.SchedFinal.
Import ListNotations.

Section Team.
  Variable p : project.

  (* the tentative bookings of the members tried before the one that fails *)
  Fixpoint add_all (st : state) (t s : nat) (rs : list nat) : state :=
    match rs with [] => st | r :: tl => add_all (add st t r s) t s tl end.

  Lemma book_team_fails t s : forall team st,
    book_team p st t s team = None ->
    exists pre r post, team = pre ++ r :: post /\ can_book p (add_all st t s pre) t r s = false.
  Proof.
    induction team as [|a team IH]; intros st H; cbn in H; [discriminate|].
    destruct (can_book p st t a s) eqn:E.
    - destruct (IH _ H) as (pre & r & post & -> & Hc). exists (a :: pre), r, post. split; [reflexivity|exact Hc].
    - exists [], a, team. split; [reflexivity|exact E].
  Qed.

  Lemma bookings_add_all t s : forall rs st,
    bookings (add_all st t s rs) = rev (map (fun r => mk t r s) rs) ++ bookings st.
  Proof.
    induction rs as [|r tl IH]; intros st; cbn [add_all map rev]; [reflexivity|].
    rewrite IH. cbn [add bookings]. rewrite <- app_assoc. reflexivity.
  Qed.

  (* how many members of rs limit l counts when they work for task t *)
  Definition team_count (l t : nat) (rs : list nat) : nat :=
    length (filter (fun r => counts p l (mk t r 0)) rs).

  Lemma counts_slot l t r s s' : counts p l (mk t r s) = counts p l (mk t r s').
  Proof. reflexivity. Qed.

  Lemma team_count_app l t a b : team_count l t (a ++ b) = team_count l t a + team_count l t b.
  Proof. unfold team_count. now rewrite filter_app, app_length. Qed.

  Lemma usage_add_all l t s : forall rs st,
    usage p (add_all st t s rs) l (l_period (lim_of p l) s) = team_count l t rs + usage p st l (l_period (lim_of p l) s).
  Proof.
    induction rs as [|r tl IH]; intros st; cbn [add_all]; [reflexivity|].
    rewrite IH, usage_add, Z.eqb_refl, andb_true_r.
    unfold team_count. cbn [filter]. rewrite (counts_slot l t r 0 s). unfold mk.
    destruct (counts p l {| b_task := t; b_res := r; b_slot := s |}); cbn [length]; lia.
  Qed.

  Lemma usage_mono l k a b : bext a b -> usage p a l k <= usage p b l k.
  Proof. intros [n Hn]. unfold usage. rewrite Hn, filter_app, app_length. lia. Qed.

  Lemma usage_ext_eq l k a b : bookings a = bookings b -> usage p a l k = usage p b l k.
  Proof. unfold usage. now intros ->. Qed.

  Lemma forallb_false_exists {A : Type} (f : A -> bool) : forall l, forallb f l = false -> exists x, In x l /\ f x = false.
  Proof.
    induction l as [|a l IH]; cbn; [discriminate|]. intros H. apply andb_false_iff in H as [H|H].
    - exists a. split; [now left|exact H].
    - destruct (IH H) as (x & Hx & Hf). exists x. split; [now right|exact Hf].
  Qed.

  Local Notation final := (schedule p).

  Theorem no_idle_team t f e : leaf_dates final t = Some (f, e) -> t_need (task_of p t) <> 0 ->
    NoDup (t_team (task_of p t)) ->
    exists b, b <= f /\ (forall s, t_pin (task_of p t) = Some s -> b = s) /\
      (t_pin (task_of p t) = None -> forall d, In d (t_deps (task_of p t)) ->
         exists s' e', dates p final (d_task d) = Some (s', e') /\ (if d_onstart d then s' else e') + d_gap d <= b) /\
      forall x, b <= x -> x < e ->
        (forall r, In r (t_team (task_of p t)) -> In (mk t r x) (bookings final)) \/
        exists r, In r (t_team (task_of p t)) /\
          (r_work (res_of p r) x = false \/
           (exists y, In y (bookings final) /\ b_res y = r /\ b_slot y = x /\ b_task y <> t) \/
           (exists l, In l (limits_of p t r) /\
              l_value (lim_of p l) < usage p final l (l_period (lim_of p l) x) + team_count l t (t_team (task_of p t)))).
  Proof.
    intros Ht Hn Hnd. destruct (final_J p) as [rest HJ].
    destruct (j_good _ _ _ HJ t f e Ht) as [st0 b G1 G2 G3 G4 G5 G6 G7 G8 G9 G10].
    exists b. split; [exact G3|]. split; [exact G4|]. split.
    - intros Hpin d Hd. destruct (G5 Hpin) as [_ B]. destruct (B d Hd) as (x & Hx & Hle).
      pose proof (dep_time_stable p _ _ _ _ G1 Hx) as Hx'. unfold dep_time in Hx'.
      destruct (dates p (schedule p) (d_task d)) as [[s' e']|] eqn:E; [|discriminate].
      exists s', e'. split; [reflexivity|]. injection Hx' as <-. lia.
    - intros x Hx1 Hx2. destruct (G10 Hn x Hx1 Hx2) as [L|(stx & X1 & X2 & X3 & X4)]; [now left|]. right.
      destruct (book_team_fails _ _ _ _ X4) as (pre & r & post & Eteam & Hc).
      exists r. split; [rewrite Eteam; apply in_or_app; right; now left|].
      unfold can_book in Hc. apply andb_false_iff in Hc as [Hc|Hc]; [apply andb_false_iff in Hc as [Hc|Hc]|].
      + now left.
      + right. left. apply negb_false_iff in Hc. unfold booked in Hc. apply existsb_exists in Hc as (y & Hy & Hk).
        apply andb_true_iff in Hk as [K1 K2]. apply Nat.eqb_eq in K1. apply Nat.eqb_eq in K2.
        rewrite bookings_add_all in Hy. apply in_app_or in Hy as [Hy|Hy].
        * (* a member listed twice: excluded *)
          exfalso. apply in_rev, in_map_iff in Hy as (r' & <- & Hr'). cbn in K1. subst r'.
          rewrite Eteam in Hnd. apply NoDup_remove_2 in Hnd. apply Hnd. apply in_or_app. now left.
        * destruct (X3 y Hy) as [Q|[Q1 Q2]]; [|lia].
          exists y. split; [eapply ext_in; eassumption|]. split; [exact K1|]. split; [exact K2|now apply G2].
      + right. right. apply forallb_false_exists in Hc. destruct Hc as (l & Hl & Hok). exists l. split; [exact Hl|].
        unfold limit_ok in Hok. apply Nat.ltb_ge in Hok. rewrite usage_add_all in Hok.
        pose proof (usage_mono l (l_period (lim_of p l) x) _ _ X2) as Hm.
        rewrite Eteam, team_count_app. unfold team_count at 2. cbn [filter].
        assert (Hcr : counts p l (mk t r 0) = true).
        { unfold limits_of in Hl. unfold counts. cbn [mk b_res b_task]. apply in_app_or in Hl as [Hl|Hl].
          - apply orb_true_iff. left. apply existsb_exists. exists l. split; [exact Hl|apply Nat.eqb_refl].
          - apply filter_In in Hl as [Hl1 Hl2]. apply orb_true_iff. right. apply andb_true_iff. split; [|exact Hl2].
            apply existsb_exists. exists l. split; [exact Hl1|apply Nat.eqb_refl]. }
        rewrite Hcr. cbn [length]. lia.
  Qed.
End Team.
