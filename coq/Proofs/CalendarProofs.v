From Coq Require Import ZArith List Bool Arith Lia.
Require Import SP.Base.PyRt SP.Spec.Hours SP.Model.Calendar SP.Model.Sched SP.Model.SchedIO SP.Proofs.SchedInv.
Import ListNotations.

Lemma work_table_nth tbl off start g (upper s : nat) : (s <= upper)%nat ->
  nth s (work_table tbl off start g upper) false = working_at tbl off (slot_time start g s).
Proof.
  intros Hs. unfold work_table.
  rewrite nth_indep with (d' := working_at tbl off (slot_time start g 0)) by (rewrite map_length, seq_length; lia).
  rewrite (map_nth (fun s0 => working_at tbl off (slot_time start g s0))). rewrite seq_nth by lia. reflexivity.
Qed.

(* every booking on a resource whose calendar is computed in the model lies at an instant that is inside
   its declared hours (hours_spec at the slot start, or the default calendar) and outside every leave,
   vacation and holiday interval *)
Theorem booking_in_calendar p b tbl off start g lims :
  In b (bookings (schedule p)) ->
  res_of p (b_res b) = mk_resource_cal tbl off start g (p_upper p) lims ->
  let t := slot_time start g (b_slot b) in
  existsb (in_iv t) off = false /\
  match tbl with Some tb => hours_spec tb (dt_weekday t) (minute_of_day t) | None => default_hours t end = true.
Proof.
  intros Hb Hr. pose proof (inv_work p _ (schedule_inv p) b Hb) as Hw.
  pose proof (inv_range p _ (schedule_inv p) b Hb) as Hrg.
  rewrite Hr in Hw. unfold mk_resource_cal, mk_resource in Hw. cbn [r_work] in Hw. rewrite work_table_nth in Hw by exact Hrg.
  unfold working_at in Hw. apply andb_true_iff in Hw as [H1 H2]. apply negb_true_iff in H1. split; assumption.
Qed.
