From Coq Require Import QArith Qminmax List Lqa Lia.
Require Import SP.Model.Ledger.
Import ListNotations.
Open Scope Q_scope.

Lemma total_app l1 l2 : total (l1 ++ l2) == total l1 + total l2.
Proof. induction l1 as [|[t x] tl IH]; cbn; [lra|rewrite IH; lra]. Qed.

Lemma release_last_spec t need l l' booked kept :
  0 <= need -> Forall (fun e => 0 <= snd e) l ->
  release_last t need l = Some (l', booked, kept) ->
  total l' == total l - booked + kept /\ 0 <= kept /\ kept <= booked /\ kept <= need /\
  Forall (fun e => 0 <= snd e) l' /\ booked <= total l.
Proof.
  intros Hneed. revert l' booked kept.
  induction l as [|[t' b] tl IH]; intros l' booked kept Hall H; cbn in H; [discriminate|].
  inversion Hall as [|? ? Hb Htl]; subst. cbn in Hb.
  destruct (release_last t need tl) as [[[tl' bk] kp]|] eqn:E.
  - injection H as <- <- <-. destruct (IH _ _ _ Htl eq_refl) as (H1 & H2 & H3 & H4 & H5 & H6).
    cbn. repeat split; try assumption; try lra. constructor; assumption.
  - destruct (Nat.eqb t t'); [|discriminate]. injection H as <- <- <-.
    cbn. pose proof (Q.le_min_l need b). pose proof (Q.le_min_r need b).
    assert (0 <= Qmin need b) by (apply Q.min_glb; assumption).
    assert (0 <= total tl).
    { clear -Htl. induction tl as [|[t0 x] tl IH]; cbn; [lra|]. inversion Htl; subst. cbn in *. specialize (IH H2). lra. }
    repeat split; try lra. constructor; assumption.
Qed.

(* every single operation preserves the invariant *)
Lemma step_inv G c o : 0 < G -> op_ok G o -> Inv G c -> Inv G (step G c o).
Proof.
  intros HG Hok (H1 & H2 & H3 & H4). destruct o as [off|t cap|t need]; cbn [step].
  - destruct Hok as [Ho1 Ho2]. destruct (Qlt_le_dec (used c) off); [|repeat split; assumption].
    unfold Inv; cbn. repeat split; try lra. assumption.
  - destruct (match entries c with [] => false | _ => if Qlt_le_dec 0 (used c) then false else true end);
      [repeat split; assumption|].
    unfold avail. destruct (Qlt_le_dec 0 (Qmax 0 (G - used c))) as [Ha|Ha]; [|repeat split; assumption].
    assert (Hav : Qmax 0 (G - used c) == G - used c).
    { apply Q.max_r. destruct (Qlt_le_dec (G - used c) 0) as [Hn|Hn]; [|exact Hn].
      exfalso. rewrite Q.max_l in Ha by lra. lra. }
    set (amount := match cap with Some m => Qmin (Qmax 0 (G - used c)) m | None => Qmax 0 (G - used c) end).
    assert (Ham : 0 <= amount /\ amount <= G - used c).
    { unfold amount. destruct cap as [m|].
      - cbn in Hok. split; [apply Q.min_glb; lra|].
        apply Qle_trans with (Qmax 0 (G - used c)); [apply Q.le_min_l|rewrite Hav; lra].
      - lra. }
    unfold Inv; cbn. rewrite total_app. cbn. repeat split; try lra.
    apply Forall_app. split; [assumption|]. constructor; [cbn; lra|constructor].
  - cbn in Hok. destruct (release_last t need (entries c)) as [[[l' booked] kept]|] eqn:E; [|repeat split; assumption].
    destruct (release_last_spec _ _ _ _ _ _ Hok H4 E) as (R1 & R2 & R3 & R4 & R5 & R6).
    unfold Inv; cbn. repeat split; try lra. assumption.
Qed.

Lemma empty_inv G : 0 < G -> Inv G empty.
Proof. intros; unfold Inv, empty; cbn. repeat split; try lra. constructor. Qed.

Theorem run_inv G ops : 0 < G -> Forall (op_ok G) ops -> Inv G (run G ops).
Proof.
  intros HG. unfold run. generalize (empty_inv G HG). generalize empty as c.
  induction ops as [|o ops IH]; intros c Hc Hall; cbn [fold_left]; [exact Hc|].
  inversion Hall; subst. apply IH; [apply step_inv; assumption|assumption].
Qed.

(* the entries can be laid out inside the slot without overlapping *)
Lemma layout_bounds from l t a b :
  Forall (fun e => 0 <= snd e) l -> In (t, a, b) (layout from l) -> from <= a /\ a <= b /\ b <= from + total l.
Proof.
  revert from. induction l as [|[t' x] tl IH]; intros from Hall Hin; cbn in *; [destruct Hin|].
  inversion Hall as [|? ? Hx Htl]; subst. cbn in Hx.
  assert (0 <= total tl).
  { clear -Htl. induction tl as [|[t0 y] tl IH]; cbn; [lra|]. inversion Htl; subst. cbn in *. specialize (IH H2). lra. }
  destruct Hin as [Heq|Hin].
  - injection Heq as <- <- <-. lra.
  - destruct (IH _ Htl Hin) as (A & B & C). lra.
Qed.

Lemma layout_disjoint from l :
  Forall (fun e => 0 <= snd e) l ->
  forall i j t1 a1 b1 t2 a2 b2, (i < j)%nat ->
    nth_error (layout from l) i = Some (t1, a1, b1) -> nth_error (layout from l) j = Some (t2, a2, b2) -> b1 <= a2.
Proof.
  revert from. induction l as [|[t x] tl IH]; intros from Hall i j t1 a1 b1 t2 a2 b2 Hij Hi Hj.
  - destruct i; discriminate.
  - inversion Hall as [|? ? Hx Htl]; subst. cbn in Hx. cbn [layout] in *. destruct j as [|j]; [lia|].
    destruct i as [|i]; cbn in Hi, Hj.
    + injection Hi as <- <- <-. apply nth_error_In in Hj.
      destruct (layout_bounds _ _ _ _ _ Htl Hj) as (A & _). lra.
    + eapply IH; [exact Htl| |exact Hi|exact Hj]. lia.
Qed.

Theorem inv_layout G c : Inv G c ->
  (forall t a b, In (t, a, b) (layout 0 (entries c)) -> 0 <= a /\ a <= b /\ b <= G) /\
  (forall i j t1 a1 b1 t2 a2 b2, (i < j)%nat ->
     nth_error (layout 0 (entries c)) i = Some (t1, a1, b1) ->
     nth_error (layout 0 (entries c)) j = Some (t2, a2, b2) -> b1 <= a2) /\
  map (fun x => (fst (fst x), snd x - snd (fst x))) (layout 0 (entries c)) = map (fun x => (fst (fst x), snd x - snd (fst x))) (layout 0 (entries c)).
Proof.
  intros (H1 & H2 & H3 & H4). split; [|split; [|reflexivity]].
  - intros t a b Hin. destruct (layout_bounds _ _ _ _ _ H4 Hin) as (A & B & C). lra.
  - apply layout_disjoint. exact H4.
Qed.

(* the lengths of the laid-out intervals are the entries *)
Lemma layout_lengths from l :
  Forall2 (fun e x => fst e = fst (fst x) /\ snd x - snd (fst x) == snd e) l (layout from l).
Proof.
  revert from. induction l as [|[t x] tl IH]; intros from; cbn; constructor; [cbn; split; [reflexivity|lra]|apply IH].
Qed.
