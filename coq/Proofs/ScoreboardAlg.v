(* Lemmas about the regenerated slot/time arithmetic (Gen/ScoreboardPy, Gen/ProjectPy, and the
   Cython twins).  The statements quantify over every start/end/resolution/index: no bound. *)
From Coq Require Import ZArith List Bool Lia ZifyBool.
Require Import SP.Base.PyRt SP.Gen.ScoreboardCy SP.Gen.ScoreboardPy SP.Gen.TimeUtilsCy SP.Gen.ProjectPy.
Import ListNotations.
Open Scope Z_scope.
Ltac Zify.zify_post_hook ::= Z.to_euclidean_division_equations.

Lemma c_int_id z : in_c_int z -> c_int z = z.
Proof. unfold in_c_int, c_int; intros H. lia. Qed.

(* ------------------------------------------------------------------ Scoreboard (pure Python) *)
Section Sb.
  Variables (s e r : Z).
  Hypothesis Hr : 0 < r.
  Hypothesis Hse : s <= e.
  Let size := Scoreboard_size s e r.

  Lemma size_pos : 1 <= size.
  Proof. unfold size, Scoreboard_size, py_ceil_div; cbn zeta. lia. Qed.

  (* the table covers [s, e]: its last slot starts at or after e, and no smaller table would *)
  Lemma size_covers : s + (size - 1) * r >= e /\ s + (size - 2) * r < e.
  Proof. unfold size, Scoreboard_size, py_ceil_div; cbn zeta. nia. Qed.

  Lemma idxToDate_in i f : 0 <= i < size ->
    Scoreboard_idxToDate_py s e r size i f = Ok (s + i * r).
  Proof.
    intros Hi. unfold Scoreboard_idxToDate_py.
    destruct f; destruct (i <? 0) eqn:?; destruct (i >=? size) eqn:?; cbn; try lia; reflexivity.
  Qed.

  Lemma idxToDate_mono i j ti tj : 0 <= i -> i < j -> j < size ->
    Scoreboard_idxToDate_py s e r size i false = Ok ti ->
    Scoreboard_idxToDate_py s e r size j false = Ok tj -> ti < tj.
  Proof.
    intros H0 Hij Hj. rewrite !idxToDate_in by lia. intros [= <-] [= <-]. nia.
  Qed.

  Lemma idxToDate_reject i : i < 0 \/ size <= i ->
    Scoreboard_idxToDate_py s e r size i false = Raise IndexError.
  Proof.
    intros H. unfold Scoreboard_idxToDate_py.
    destruct (i <? 0) eqn:?; destruct (i >=? size) eqn:?; cbn; try lia; reflexivity.
  Qed.

  Lemma idxToDate_clamp i :
    Scoreboard_idxToDate_py s e r size i true =
      Ok (if i <? 0 then s else if i >=? size then e else s + i * r).
  Proof.
    unfold Scoreboard_idxToDate_py. destruct (i <? 0); [reflexivity|]. destruct (i >=? size); reflexivity.
  Qed.

  (* time -> index is the floor-inverse of index -> time on instants of the window *)
  Lemma dateToIdx_bracket t f : s <= t <= e ->
    exists i, Scoreboard_dateToIdx_py s e r size t f = Ok i /\ 0 <= i < size /\
              s + i * r <= t < s + (i + 1) * r.
  Proof.
    intros Ht. exists ((t - s) / r).
    assert (Hq : py_trunc_div (t - s) r = (t - s) / r) by (unfold py_trunc_div; rewrite Z.quot_div_nonneg; lia).
    assert (Hin : 0 <= (t - s) / r < size).
    { pose proof size_covers as [Hc _]. split; [apply Z.div_pos; lia|].
      apply Z.div_lt_upper_bound; [lia|]. nia. }
    unfold Scoreboard_dateToIdx_py; cbn zeta. rewrite Hq.
    destruct f; destruct ((t - s) / r <? 0) eqn:?; destruct ((t - s) / r >=? size) eqn:?; cbn; try lia;
      (split; [reflexivity|split; [lia|]]); nia.
  Qed.

  Lemma dateToIdx_idxToDate i f : 0 <= i < size ->
    Scoreboard_dateToIdx_py s e r size (s + i * r) f = Ok i.
  Proof.
    intros Hi. unfold Scoreboard_dateToIdx_py; cbn zeta.
    replace (s + i * r - s) with (i * r) by lia.
    assert (Hq : py_trunc_div (i * r) r = i) by (unfold py_trunc_div; rewrite Z.quot_mul; lia).
    rewrite Hq. destruct f; destruct (i <? 0) eqn:?; destruct (i >=? size) eqn:?; cbn; try lia; reflexivity.
  Qed.

  (* instants at least one slot before the start, or after the table, are rejected without clamping.
     (An instant in (s - r, s) truncates toward zero to index 0 and is accepted: int() is not floor.
      The property only speaks about instants of the window; this band is documented in DESIGN.md.) *)
  Lemma dateToIdx_reject t : t <= s - r \/ s + size * r <= t ->
    Scoreboard_dateToIdx_py s e r size t false = Raise IndexError.
  Proof.
    intros H. unfold Scoreboard_dateToIdx_py; cbn zeta.
    set (q := py_trunc_div (t - s) r).
    assert (Hq : q < 0 \/ size <= q).
    { unfold q, py_trunc_div. pose proof size_pos. destruct H as [H|H]; [left|right]; nia. }
    destruct (q <? 0) eqn:?; destruct (q >=? size) eqn:?; cbn; try lia; reflexivity.
  Qed.
End Sb.

(* index -> time for an arbitrary table size (used by the interval scanner proofs) *)
Lemma idxToDate_in_gen s e r size i f : 0 <= i < size ->
  Scoreboard_idxToDate_py s e r size i f = Ok (s + i * r).
Proof.
  intros Hi. unfold Scoreboard_idxToDate_py.
  destruct f; destruct (i <? 0) eqn:?; destruct (i >=? size) eqn:?; cbn; try lia; reflexivity.
Qed.

Lemma dateToIdx_force_range s e r size t i : 1 <= size ->
  Scoreboard_dateToIdx_py s e r size t true = Ok i -> 0 <= i < size.
Proof.
  intros Hs. unfold Scoreboard_dateToIdx_py; cbn zeta. set (q := py_trunc_div (t - s) r).
  destruct (q <? 0) eqn:?; [intros [= <-]; lia|]. destruct (q >=? size) eqn:?; intros [= <-]; lia.
Qed.

(* ------------------------------------------------------------------ Project-level conversions *)
Lemma prj_idxToDate_mono s g i j : 0 < g -> i < j -> Project_idxToDate_py s g i < Project_idxToDate_py s g j.
Proof. unfold Project_idxToDate_py; cbn zeta. nia. Qed.

Lemma prj_dateToIdx_idxToDate s g i f : 0 < g -> Project_dateToIdx_py s g (Project_idxToDate_py s g i) f = i.
Proof.
  intros Hg. unfold Project_dateToIdx_py, Project_idxToDate_py, py_trunc_div; cbn zeta.
  replace (s + i * g - s) with (i * g) by lia. apply Z.quot_mul. lia.
Qed.

Lemma prj_dateToIdx_bracket s g t f : 0 < g -> s <= t ->
  let i := Project_dateToIdx_py s g t f in
  0 <= i /\ Project_idxToDate_py s g i <= t < Project_idxToDate_py s g (i + 1).
Proof.
  intros Hg Ht. unfold Project_dateToIdx_py, Project_idxToDate_py, py_trunc_div; cbn zeta.
  rewrite Z.quot_div_nonneg by lia. split; [apply Z.div_pos; lia|]. nia.
Qed.
