(* Final-state theorems about [schedule p], for every project of the model dialect. *)
From Coq Require Import List Bool Arith ZArith Lia.
Require Import SP.Model.Sched SP.Proofs.SchedInv SP.Proofs.SchedWalk SP.Proofs.SchedMain.
Import ListNotations.

Section Final.
  Variable p : project.

  (* ---- the work list has no duplicates *)
  Lemma insert_in t : forall l x, In x (insert p t l) <-> x = t \/ In x l.
  Proof.
    induction l as [|u tl IH]; intros x; cbn; [intuition congruence|].
    destruct (t_prio (task_of p u) <? t_prio (task_of p t))%Z; cbn; [intuition congruence|]. rewrite IH. intuition congruence.
  Qed.

  Lemma insert_nodup t : forall l, ~ In t l -> NoDup l -> NoDup (insert p t l).
  Proof.
    induction l as [|u tl IH]; intros Hn Hd; cbn; [constructor; [tauto|constructor]|].
    destruct (t_prio (task_of p u) <? t_prio (task_of p t))%Z; [constructor; assumption|].
    inversion Hd; subst. constructor.
    - rewrite insert_in. intros [->|H]; [apply Hn; now left|contradiction].
    - apply IH; [intros H; apply Hn; now right|assumption].
  Qed.

  Lemma sorted_leaves_nodup : NoDup (sorted_leaves p).
  Proof.
    unfold sorted_leaves.
    assert (G : forall n k acc, NoDup acc -> (forall x, In x acc -> x < k) ->
                NoDup (fold_left (fun acc t => if t_leaf (task_of p t) then insert p t acc else acc) (seq k n) acc)).
    { induction n as [|n IH]; intros k acc Hd Hlt; cbn [seq fold_left]; [exact Hd|].
      apply IH.
      - destruct (t_leaf (task_of p k)); [|exact Hd]. apply insert_nodup; [|exact Hd].
        intros H. specialize (Hlt _ H). lia.
      - intros x Hx. destruct (t_leaf (task_of p k)).
        + apply insert_in in Hx as [->|Hx]; [lia|]. specialize (Hlt _ Hx). lia.
        + specialize (Hlt _ Hx). lia. }
    apply G; [constructor|intros x []].
  Qed.

  (* ---- the pre-pass *)
  Definition pre_step (st : state) (t : nat) : state :=
    let k := task_of p t in
    if t_leaf k && Nat.eqb (t_need k) 0
    then match t_pin k with
         | Some s => if s <=? p_upper p then place st t (s, s) else st
         | None => st end else st.

  Lemma prepass_spec : forall l st,
    NoDup l -> bookings st = [] -> (forall t, In t l -> leaf_dates st t = None) ->
    let st' := fold_left pre_step l st in
    bookings st' = [] /\
    forall t d, leaf_dates st' t = Some d ->
      leaf_dates st t = Some d \/
      (exists s, d = (s, s) /\ t_pin (task_of p t) = Some s /\ t_need (task_of p t) = 0).
  Proof.
    induction l as [|u tl IH]; intros st Hd Hb Hn; cbn [fold_left]; [split; [exact Hb|intros; now left]|].
    inversion Hd as [|? ? Hu Htl]; subst.
    assert (Hb1 : bookings (pre_step st u) = []).
    { unfold pre_step. cbn zeta. destruct (t_leaf _ && _); [|exact Hb]. destruct (t_pin _) as [s|]; [|exact Hb].
      destruct (s <=? p_upper p); exact Hb. }
    assert (Hn1 : forall t, In t tl -> leaf_dates (pre_step st u) t = None).
    { intros t Ht. unfold pre_step. cbn zeta. destruct (t_leaf _ && _); [|apply Hn; now right].
      destruct (t_pin _) as [s|]; [|apply Hn; now right]. destruct (s <=? p_upper p); [|apply Hn; now right].
      rewrite leaf_dates_place_other; [apply Hn; now right|]. intros ->. contradiction. }
    destruct (IH _ Htl Hb1 Hn1) as [A B]. split; [exact A|].
    intros t d Ht. destruct (B t d Ht) as [B1|B1]; [|now right].
    unfold pre_step in B1. cbn zeta in B1.
    destruct (t_leaf (task_of p u) && Nat.eqb (t_need (task_of p u)) 0) eqn:E; [|now left].
    destruct (t_pin (task_of p u)) as [s|] eqn:Ep; [|now left].
    destruct (s <=? p_upper p); [|now left].
    destruct (Nat.eq_dec t u) as [->|Hne].
    - rewrite leaf_dates_place_same in B1. injection B1 as <-. right. exists s.
      apply andb_true_iff in E as [_ E]. apply Nat.eqb_eq in E. auto.
    - rewrite leaf_dates_place_other in B1 by exact Hne. now left.
  Qed.

  Definition work0 : list nat :=
    filter (fun t => match leaf_dates (prepass p) t with Some _ => false | None => true end) (sorted_leaves p).

  Lemma prepass_J : J p (prepass p) work0.
  Proof.
    assert (H := prepass_spec (seq 0 (length (p_tasks p))) init (seq_NoDup _ _) eq_refl (fun t _ => eq_refl)).
    change (fold_left pre_step (seq 0 (length (p_tasks p))) init) with (prepass p) in H. cbn zeta in H.
    destruct H as [Hb Hp]. constructor.
    - apply NoDup_filter. apply sorted_leaves_nodup.
    - intros t Ht. apply filter_In in Ht as [_ Ht]. destruct (leaf_dates (prepass p) t); [discriminate|reflexivity].
    - intros b Hbk. rewrite Hb in Hbk. destruct Hbk.
    - intros t f e Ht. destruct (Hp t _ Ht) as [Hi|(s & Hd & Hpin & Hneed)]; [discriminate|].
      injection Hd as -> ->.
      apply (mkGood p _ t s s init s).
      + split; [exists []; now rewrite Hb|intros u d Hu; discriminate].
      + intros x [].
      + lia.
      + intros s' Hs'. congruence.
      + intros Hn. congruence.
      + intros [Hn|Hn]; congruence.
      + intros [Hn|Hn]; congruence.
      + intros _. split; reflexivity.
      + intros Hn. contradiction.
      + intros Hn. contradiction.
    - intros t f e Ht x Hx. rewrite Hb in Hx. destruct Hx.
    - intros t f e Ht Hn. destruct (Hp t _ Ht) as [Hi|(s & Hd & Hpin & Hneed)]; [discriminate|congruence].
  Qed.

  Theorem final_J : exists rest, J p (schedule p) rest.
  Proof. unfold schedule. apply loop_J. apply prepass_J. Qed.

  (* ================================================================== the theorems *)
  Definition final := schedule p.

  (* C04: every dependency of a task without a date of its own is satisfied *)
  Theorem deps_respected t f e : leaf_dates final t = Some (f, e) -> t_pin (task_of p t) = None ->
    t_lb (task_of p t) <= f /\
    forall d, In d (t_deps (task_of p t)) ->
      exists s' e', dates p final (d_task d) = Some (s', e') /\ (if d_onstart d then s' else e') + d_gap d <= f.
  Proof.
    intros Ht Hpin. destruct final_J as [rest HJ]. destruct (j_good _ _ _ HJ t f e Ht) as [st0 b G1 G2 G3 G4 G5 G6 G7 G8 G9 G10].
    destruct (G5 Hpin) as [A B]. split; [lia|]. intros d Hd. destruct (B d Hd) as (x & Hx & Hle).
    pose proof (dep_time_stable p _ _ _ _ G1 Hx) as Hx'. unfold dep_time in Hx'.
    destruct (dates p (schedule p) (d_task d)) as [[s' e']|] eqn:E; [|discriminate].
    exists s', e'. split; [exact E|]. injection Hx' as <-. lia.
  Qed.

  (* C06: start and end frame the booked work *)
  Theorem frame t f e : leaf_dates final t = Some (f, e) ->
    (t_need (task_of p t) = 0 -> f = e) /\
    (t_need (task_of p t) <> 0 ->
       f < e /\
       (forall r, In r (t_team (task_of p t)) -> In (mk t r f) (bookings final) /\ In (mk t r (e - 1)) (bookings final)) /\
       (forall x, In x (bookings final) -> b_task x = t -> f <= b_slot x < e)).
  Proof.
    intros Ht. destruct final_J as [rest HJ]. destruct (j_good _ _ _ HJ t f e Ht) as [st0 b G1 G2 G3 G4 G5 G6 G7 G8 G9 G10].
    split.
    - intros Hn. destruct (G8 Hn). lia.
    - intros Hn. destruct (G9 Hn) as (A & B & C). split; [exact A|]. split; [exact C|].
      intros x Hx Hxt. eapply (j_own _ _ _ HJ); eassumption.
  Qed.

  (* a task that is not placed has no dates; bookings of unplaced tasks may remain (work that did not fit) *)

  (* C07 (earliest fit): between its bound and its end a task skipped a slot only when the team could
     not be booked there, given exactly the bookings of the tasks placed before it and its own earlier slots *)
  Theorem earliest_fit t f e : leaf_dates final t = Some (f, e) -> t_need (task_of p t) <> 0 ->
    exists b st0,
      b <= f /\ (forall s, t_pin (task_of p t) = Some s -> b = s) /\
      (forall y, In y (bookings st0) -> b_task y <> t /\ In y (bookings final)) /\
      forall x, b <= x -> x < e ->
        (forall r, In r (t_team (task_of p t)) -> In (mk t r x) (bookings final)) \/
        (exists stx,
           (forall y, In y (bookings stx) -> In y (bookings st0) \/ (b_task y = t /\ b_slot y < x)) /\
           (forall y, In y (bookings st0) -> In y (bookings stx)) /\
           book_team p stx t x (t_team (task_of p t)) = None).
  Proof.
    intros Ht Hn. destruct final_J as [rest HJ]. destruct (j_good _ _ _ HJ t f e Ht) as [st0 b G1 G2 G3 G4 G5 G6 G7 G8 G9 G10].
    exists b, st0. split; [exact G3|]. split; [exact G4|]. split.
    - intros y Hy. split; [now apply G2|eapply ext_in; eassumption].
    - intros x Hx1 Hx2. destruct (G10 Hn x Hx1 Hx2) as [L|(stx & X1 & X2 & X3 & X4)]; [now left|].
      right. exists stx. split; [exact X3|]. split; [|exact X4].
      intros y Hy. destruct X1 as [n Hn']. rewrite Hn'. apply in_or_app. now right.
  Qed.

  (* C08: with a single resource and no limit in play, a slot between bound and end that the task did
     not take is outside working time or taken by another task - in the final ledger *)
  Theorem no_idle t r f e : leaf_dates final t = Some (f, e) -> t_need (task_of p t) <> 0 ->
    t_team (task_of p t) = [r] -> limits_of p t r = [] ->
    exists b, b <= f /\ (forall s, t_pin (task_of p t) = Some s -> b = s) /\
                       (t_pin (task_of p t) = None -> forall d, In d (t_deps (task_of p t)) ->
                           exists s' e', dates p final (d_task d) = Some (s', e') /\
                                         (if d_onstart d then s' else e') + d_gap d <= b) /\
      forall x, b <= x -> x < e ->
        In (mk t r x) (bookings final) \/ r_work (res_of p r) x = false \/
        exists y, In y (bookings final) /\ b_res y = r /\ b_slot y = x /\ b_task y <> t.
  Proof.
    intros Ht Hn Hteam Hlim. destruct final_J as [rest HJ].
    destruct (j_good _ _ _ HJ t f e Ht) as [st0 b G1 G2 G3 G4 G5 G6 G7 G8 G9 G10].
    exists b. split; [exact G3|]. split; [exact G4|]. split.
    - intros Hpin d Hd. destruct (G5 Hpin) as [_ B]. destruct (B d Hd) as (x & Hx & Hle).
      pose proof (dep_time_stable p _ _ _ _ G1 Hx) as Hx'. unfold dep_time in Hx'.
      destruct (dates p (schedule p) (d_task d)) as [[s' e']|] eqn:E; [|discriminate].
      exists s', e'. split; [exact E|]. injection Hx' as <-. lia.
    - intros x Hx1 Hx2. destruct (G10 Hn x Hx1 Hx2) as [L|(stx & X1 & X2 & X3 & X4)].
      + left. apply L. rewrite Hteam. now left.
      + right. rewrite Hteam in X4. cbn in X4.
        destruct (can_book p stx t r x) eqn:Ec; [discriminate|].
        unfold can_book in Ec. rewrite Hlim in Ec. cbn [forallb] in Ec. rewrite andb_true_r in Ec.
        apply andb_false_iff in Ec as [Ec|Ec]; [now left|]. right.
        apply negb_false_iff in Ec. unfold booked in Ec. apply existsb_exists in Ec as (y & Hy & Hk).
        apply andb_true_iff in Hk as [K1 K2]. apply Nat.eqb_eq in K1. apply Nat.eqb_eq in K2.
        destruct (X3 y Hy) as [Q|[Q1 Q2]]; [|lia].
        exists y. split; [eapply ext_in; eassumption|]. split; [exact K1|]. split; [exact K2|now apply G2].
  Qed.

  (* C03 (slot granularity): a placed task holds exactly t_need whole-team blocks in the final ledger *)
  Theorem exact_slots t f e : leaf_dates final t = Some (f, e) -> t_need (task_of p t) <> 0 ->
    exists ss, length ss = t_need (task_of p t) /\
               filter (fun x => Nat.eqb (b_task x) t) (bookings final) = concat (map (block p t) ss).
  Proof. intros Ht Hn. destruct final_J as [rest HJ]. eapply (j_blocks _ _ _ HJ); eassumption. Qed.

  (* C10: a container is scheduled exactly when all leaves below it are; dates = min start / max end *)
  Lemma span_spec st : forall ls, ls <> [] ->
    (forall d, span st ls = Some d ->
       (forall t, In t ls -> exists d', leaf_dates st t = Some d') /\
       (forall t s e, In t ls -> leaf_dates st t = Some (s, e) -> fst d <= s /\ e <= snd d) /\
       (exists t s e, In t ls /\ leaf_dates st t = Some (s, e) /\ s = fst d) /\
       (exists t s e, In t ls /\ leaf_dates st t = Some (s, e) /\ e = snd d)) /\
    (span st ls = None -> exists t, In t ls /\ leaf_dates st t = None).
  Proof.
    induction ls as [|t tl IH]; intros Hne; [contradiction|].
    destruct tl as [|u tl].
    - cbn [span]. split.
      + intros d Hd. split; [intros t' [<-|[]]; eauto|]. split.
        * intros t' s e [<-|[]] H. rewrite Hd in H. injection H as ->. cbn. lia.
        * destruct d as [s e]. split; exists t, s, e; (split; [now left|split; [exact Hd|reflexivity]]).
      + intros Hd. exists t. split; [now left|exact Hd].
    - change (span st (t :: u :: tl)) with
        (match leaf_dates st t, span st (u :: tl) with
         | Some (s, e), Some (s', e') => Some (Nat.min s s', Nat.max e e') | _, _ => None end).
      destruct (IH ltac:(discriminate)) as [IH1 IH2].
      destruct (leaf_dates st t) as [[s e]|] eqn:E1.
      + destruct (span st (u :: tl)) as [[s' e']|] eqn:E2.
        * split; [|discriminate]. intros d [= <-]. destruct (IH1 _ eq_refl) as (A & B & (t1 & s1 & e1 & C1 & C2 & C3) & (t2 & s2 & e2 & D1 & D2 & D3)).
          cbn [fst snd] in *. split; [|split; [|split]].
          -- intros t' [<-|Ht']; [eauto|now apply A].
          -- intros t' s0 e0 [<-|Ht'] H.
             ++ rewrite E1 in H. injection H as <- <-. lia.
             ++ destruct (B _ _ _ Ht' H). lia.
          -- destruct (Nat.le_gt_cases s s').
             ++ exists t, s, e. split; [now left|]. split; [exact E1|lia].
             ++ exists t1, s1, e1. split; [now right|]. split; [exact C2|lia].
          -- destruct (Nat.le_gt_cases e' e).
             ++ exists t, s, e. split; [now left|]. split; [exact E1|lia].
             ++ exists t2, s2, e2. split; [now right|]. split; [exact D2|lia].
        * split; [discriminate|]. intros _. destruct (IH2 eq_refl) as (t' & Ht' & Hn). exists t'. split; [now right|exact Hn].
      + split; [discriminate|]. intros _. exists t. split; [now left|exact E1].
  Qed.

  Theorem container_summary c : t_leaf (task_of p c) = false -> t_leaves (task_of p c) <> [] ->
    (forall s e, dates p final c = Some (s, e) ->
       (forall t, In t (t_leaves (task_of p c)) -> exists d, leaf_dates final t = Some d) /\
       (forall t s' e', In t (t_leaves (task_of p c)) -> leaf_dates final t = Some (s', e') -> s <= s' /\ e' <= e) /\
       (exists t s' e', In t (t_leaves (task_of p c)) /\ leaf_dates final t = Some (s', e') /\ s' = s) /\
       (exists t s' e', In t (t_leaves (task_of p c)) /\ leaf_dates final t = Some (s', e') /\ e' = e)) /\
    (dates p final c = None -> exists t, In t (t_leaves (task_of p c)) /\ leaf_dates final t = None).
  Proof.
    intros Hc Hne. unfold dates. rewrite Hc. destruct (span_spec final _ Hne) as [A B]. split; [|exact B].
    intros s e H. exact (A _ H).
  Qed.

  (* only work-list tasks (leaves) are ever booked: containers occupy no resource time *)
  Lemma in_work0_leaf t : In t work0 -> t_leaf (task_of p t) = true.
  Proof.
    intros H. apply filter_In in H as [H _]. unfold sorted_leaves in H.
    assert (G : forall n k acc, (forall x, In x acc -> t_leaf (task_of p x) = true) ->
              forall x, In x (fold_left (fun acc t => if t_leaf (task_of p t) then insert p t acc else acc) (seq k n) acc) ->
              t_leaf (task_of p x) = true).
    { induction n as [|n IH]; intros k acc Ha x Hx; cbn [seq fold_left] in Hx; [now apply Ha|].
      eapply IH; [|exact Hx]. intros y Hy. destruct (t_leaf (task_of p k)) eqn:E; [|now apply Ha].
      apply insert_in in Hy as [->|Hy]; [exact E|now apply Ha]. }
    eapply G; [|exact H]. intros x [].
  Qed.
End Final.
