(* The functional specification [runs] yields exactly the maximal runs of the predicate. *)
From Coq Require Import ZArith List Bool Lia.
Require Import SP.Spec.Runs.
Import ListNotations.
Open Scope Z_scope.

Section Char.
  Variable p : Z -> bool.

  Definition G (n : nat) (i : Z) (cur : option Z) (s e : Z) : Prop :=
    (cur = Some s /\ i <= e /\ e <= i + Z.of_nat n /\ (forall j, i <= j < e -> p j = true) /\
       (e = i + Z.of_nat n \/ p e = false))
    \/ (i <= s /\ s < e /\ e <= i + Z.of_nat n /\ (forall j, s <= j < e -> p j = true) /\
        ((s = i /\ cur = None) \/ (i < s /\ p (s - 1) = false)) /\ (e = i + Z.of_nat n \/ p e = false)).

  Ltac rs := repeat match goal with |- _ /\ _ => split end.
  Ltac pforall :=
    match goal with |- forall j, _ -> p j = true =>
      let j := fresh "j" in let Hj := fresh "Hj" in intros j Hj;
      first [ lia
            | match goal with H : forall k, _ -> p k = true |- _ => apply H; lia end
            | match goal with Hi : p ?i = true |- _ =>
                destruct (Z.eq_dec j i) as [->|]; [exact Hi|match goal with H : forall k, _ -> p k = true |- _ => apply H; lia end] end ] end.
  Ltac pfalse :=
    match goal with |- p ?b = false =>
      first [assumption | match goal with H : p ?a = false |- _ => replace b with a by lia; exact H end] end.
  Ltac pdisj :=
    first [ left; lia | right; pfalse | left; split; [lia|reflexivity] | right; split; [lia|pfalse] | left; split; reflexivity ].
  Ltac pd2 :=
    match goal with
    | H : _ \/ p ?e = false |- _ \/ p ?e = false => destruct H; [left; lia|right; assumption]
    end.
  Ltac one := first [lia | reflexivity | assumption | congruence | pforall | pd2 | pdisj | pfalse].
  Ltac fin := rs; one.

  Lemma runs_G : forall n i cur s e, In (s, e) (runs (pvals p i n) i cur) <-> G n i cur s e.
  Proof.
    induction n as [|n IH]; intros i cur s e.
    - cbn [pvals runs]. unfold G. destruct cur as [s0|]; cbn [In].
      + split.
        * intros [[= <- <-]|[]]. left. fin.
        * intros [(Hc & H1 & H2 & _)|(H1 & H2 & H3 & _)]; [|lia]. injection Hc as <-. left. f_equal. lia.
      + split; [intros []|]. intros [(Hc & _)|(H1 & H2 & H3 & _)]; [discriminate|lia].
    - cbn [pvals runs]. destruct (p i) eqn:Hpi.
      + rewrite IH. unfold G. rewrite Nat2Z.inj_succ. destruct cur as [s0|].
        * split.
          -- intros [(Hc & H1 & H2 & H3 & H4)|(H1 & H2 & H3 & H4 & H5 & H6)].
             ++ left. fin.
             ++ destruct H5 as [[_ Hn]|[H5 H5']]; [discriminate|]. right. fin.
          -- intros [(Hc & H1 & H2 & H3 & H4)|(H1 & H2 & H3 & H4 & H5 & H6)].
             ++ assert (e <> i) by (intros ->; destruct H4 as [H4|H4]; [lia|congruence]). left. fin.
             ++ destruct H5 as [[_ Hn]|[H5 H5']]; [discriminate|].
                assert (s <> i + 1) by (intros ->; replace (i + 1 - 1) with i in H5' by lia; congruence).
                right. fin.
        * split.
          -- intros [(Hc & H1 & H2 & H3 & H4)|(H1 & H2 & H3 & H4 & H5 & H6)].
             ++ injection Hc as <-. right. fin.
             ++ destruct H5 as [[_ Hn]|[H5 H5']]; [discriminate|]. right. fin.
          -- intros [(Hc & _)|(H1 & H2 & H3 & H4 & H5 & H6)]; [discriminate|].
             destruct H5 as [[-> _]|[H5 H5']].
             ++ left. fin.
             ++ assert (s <> i + 1) by (intros ->; replace (i + 1 - 1) with i in H5' by lia; congruence).
                right. fin.
      + unfold G at 1. rewrite Nat2Z.inj_succ. destruct cur as [s0|].
        * cbn [In]. rewrite IH. unfold G. split.
          -- intros [[= <- <-]|[(Hc & _)|(H1 & H2 & H3 & H4 & H5 & H6)]]; [| discriminate |].
             ++ left. fin.
             ++ destruct H5 as [[-> _]|[H5 H5']]; right; fin.
          -- intros [(Hc & H1 & H2 & H3 & H4)|(H1 & H2 & H3 & H4 & H5 & H6)].
             ++ injection Hc as <-. left. f_equal.
                destruct (Z.eq_dec e i) as [|Hne]; [congruence|]. exfalso.
                assert (p i = true) by (apply H3; lia). congruence.
             ++ destruct H5 as [[_ Hn]|[H5 H5']]; [discriminate|]. right. right.
                destruct (Z.eq_dec s (i + 1)) as [->|]; fin.
        * rewrite IH. unfold G. split.
          -- intros [(Hc & _)|(H1 & H2 & H3 & H4 & H5 & H6)]; [discriminate|].
             destruct H5 as [[-> _]|[H5 H5']]; right; fin.
          -- intros [(Hc & _)|(H1 & H2 & H3 & H4 & H5 & H6)]; [discriminate|].
             destruct H5 as [[-> _]|[H5 H5']].
             ++ exfalso. assert (p i = true) by (apply H4; lia). congruence.
             ++ right. destruct (Z.eq_dec s (i + 1)) as [->|]; fin.
  Qed.

  Theorem runs_char a n s e :
    In (s, e) (runs (pvals p a n) a None) <-> maximal_run p a (a + Z.of_nat n) s e.
  Proof.
    rewrite runs_G. unfold G, maximal_run. split.
    - intros [(Hc & _)|(H1 & H2 & H3 & H4 & H5 & H6)]; [discriminate|].
      rs; try lia; try assumption. destruct H5 as [[-> _]|[_ H5]]; [now left|now right].
    - intros (H1 & H2 & H3 & H4 & H5 & H6). right. rs; try lia; try assumption.
      destruct (Z.eq_dec s a) as [->|]; [left; split; reflexivity|right; split; [lia|]].
      destruct H5; [lia|assumption].
  Qed.
End Char.
