(* The second-granularity team scheduler (Model/SubSlotTeam.v) never touches a slot outside the horizon: every cell it
   writes, every booking event it records and every non-empty cell of the final ledger lies in a slot <= tp_upper. *)
From Coq Require Import QArith Qround Qminmax List Bool Arith ZArith Lia Lqa.
Require Import SP.Model.Ledger SP.Proofs.LedgerProofs SP.Model.SubSlot SP.Model.SubSlotTeam SP.Proofs.SubSlotProofs
               SP.Proofs.SubSlotTeamProofs SP.Proofs.SubSlotTeamEffort SP.Proofs.SubSlotTeamLimits.
Import ListNotations.

Section TeamHorizon.
  Variable p : tproject.
  Local Notation G := (inject_Z (tp_G p)).
  Local Notation U := (tp_upper p).

  Record InHorizon (st : sstate) : Prop := {
    ih_touched : forall r s, In (r, s) (stouched st) -> (s <= U)%nat;
    ih_events : forall t r s, In (t, r, s) (sbooked st) -> (s <= U)%nat;
    ih_cells : forall r s, (U < s)%nat -> cells st r s = empty
  }.

  Lemma ih_init : InHorizon sinit.
  Proof. constructor; cbn; intros; try contradiction; reflexivity. Qed.

  Lemma ih_set st r s c : (s <= U)%nat -> InHorizon st -> InHorizon (set_cell st r s c).
  Proof.
    intros Hs [A B C]. constructor.
    - intros r' s' [E|Hin]; [injection E as <- <-; exact Hs|now apply (A r')].
    - exact B.
    - intros r' s' Hlt. cbn [set_cell cells]. destruct (Nat.eqb_spec r' r); destruct (Nat.eqb_spec s' s); cbn [andb]; try (now apply C).
      subst. lia.
  Qed.

  Lemma ih_note st t r s : (s <= U)%nat -> InHorizon st -> InHorizon (note_booking st t r s).
  Proof.
    intros Hs [A B C]. constructor; [exact A| |exact C].
    intros t' r' s' [E|Hin]; [injection E as <- <- <-; exact Hs|now apply (B t' r')].
  Qed.

  Lemma ih_place st t d : InHorizon st -> InHorizon (splace st t d).
  Proof. intros [A B C]. constructor; assumption. Qed.

  Local Opaque step.
  Lemma book_members_ih t off first cap slot : (slot <= U)%nat -> forall team st st' l,
    InHorizon st -> book_members p t off first cap slot team st = (st', l) -> InHorizon st'.
  Proof.
    intros Hs. induction team as [|r tl IH]; intros st st' l Hi H; cbn [book_members] in H.
    - injection H as <- _. exact Hi.
    - cbn zeta in H. destruct (sr_work (tres_of p r) slot); [|eapply IH; eassumption].
      destruct (_ || _ || _).
      + eapply IH; [|exact H]. now apply ih_set.
      + destruct (book_members p t off first cap slot tl _) as [st2 l2] eqn:E2. injection H as <- _.
        eapply IH; [|exact E2]. apply ih_note; [exact Hs|]. now apply ih_set.
  Qed.

  Lemma release_members_ih t needed slot : (slot <= U)%nat -> forall (l : list (nat * Q * Q)) st,
    InHorizon st -> InHorizon (release_members G t needed slot l st).
  Proof.
    intros Hs. unfold release_members. induction l as [|x l IH]; intros st Hi; cbn [fold_left]; [exact Hi|].
    apply IH. now apply ih_set.
  Qed.

  Local Opaque release_members.
  Lemma twalk_ih t team e need off : forall fuel slot done start st st' d,
    (slot + fuel <= S U)%nat -> InHorizon st -> twalk p t team e need off fuel slot done start st = (st', d) -> InHorizon st'.
  Proof.
    induction fuel as [|fuel IH]; intros slot done start st st' d Hf Hi H; cbn [twalk] in H.
    - injection H as <- _. exact Hi.
    - assert (Hs : (slot <= U)%nat) by lia.
      assert (Hn : (S slot + fuel <= S U)%nat) by lia.
      destruct (_ && negb _); [eapply (IH (S slot)); [exact Hn|exact Hi|exact H]|].
      destruct (book_members p t off (Qeq_bool done 0) _ slot team st) as [st1 booked] eqn:Eb.
      pose proof (book_members_ih _ _ _ _ _ Hs _ _ _ _ Hi Eb) as Hi1.
      destruct booked as [|x0 bk]; [eapply (IH (S slot)); [exact Hn|exact Hi1|exact H]|].
      destruct (Qle_bool _ _).
      + injection H as <- _. apply release_members_ih; [exact Hs|exact Hi1].
      + eapply (IH (S slot)); [exact Hn|exact Hi1|exact H].
  Qed.
  Local Transparent release_members.
  Local Transparent step.

  Lemma tschedule_task_ih st t : InHorizon st -> InHorizon (tschedule_task p st t).
  Proof.
    intros Hi. unfold tschedule_task. cbn zeta.
    destruct (Z.ltb_spec (tbound p st t) 0) as [|Hb]; cbn [orb]; [exact Hi|].
    destruct (Z.ltb_spec (Z.of_nat U) (tbound p st t / tp_G p)) as [|Hu]; [exact Hi|].
    destruct (tt_mile (ttask_of p t)); [now apply ih_place|].
    destruct (tt_team (ttask_of p t)) as [|r0 tl]; [exact Hi|].
    destruct (twalk p t (r0 :: tl) _ _ _ _ _ 0 None st) as [st' d] eqn:Ew.
    assert (Hi' : InHorizon st').
    { eapply twalk_ih; [|exact Hi|exact Ew].
      lia. }
    destruct d; [now apply ih_place|exact Hi'].
  Qed.

  Lemma tloop_ih : forall fuel work st, InHorizon st -> InHorizon (tloop p fuel work st).
  Proof.
    induction fuel as [|fuel IH]; intros work st Hi; cbn [tloop]; [exact Hi|].
    destruct (tpick p st work) as [[t rest]|]; [|exact Hi].
    apply IH. now apply tschedule_task_ih.
  Qed.

  Lemma tprepass_ih : InHorizon (tprepass p).
  Proof.
    unfold tprepass. generalize (seq 0 (length (tp_tasks p))). intros l.
    assert (H : forall st, InHorizon st -> InHorizon (fold_left (fun st t => let k := ttask_of p t in
                         if tt_leaf k && tt_mile k
                         then match tt_pin k with
                              | Some s => if (0 <=? s)%Z && (s / tp_G p <=? Z.of_nat (tp_upper p))%Z then splace st t (s, s) else st
                              | None => st end
                         else st) l st)).
    { induction l as [|t l IH]; intros st Hi; cbn [fold_left]; [exact Hi|]. apply IH. cbn zeta.
      destruct (_ && _); [|exact Hi]. destruct (tt_pin _) as [s|]; [|exact Hi].
      destruct (_ && _); [now apply ih_place|exact Hi]. }
    apply H, ih_init.
  Qed.

  Theorem team_in_horizon : InHorizon (tschedule p).
  Proof. unfold tschedule. cbn zeta. apply tloop_ih, tprepass_ih. Qed.

  (* in words: a ledger entry of any task, a cell written and a booking event all lie in slots 0 .. tp_upper *)
  Corollary team_entries_in_horizon t r s : tent t (cells (tschedule p) r s) <> [] -> (s <= U)%nat.
  Proof.
    intros H. destruct (le_gt_dec s U) as [Hl|Hg]; [exact Hl|].
    exfalso. apply H. rewrite (ih_cells _ team_in_horizon r s Hg). reflexivity.
  Qed.

  Theorem team_horizon :
    (forall r s, In (r, s) (stouched (tschedule p)) -> (s <= U)%nat) /\
    (forall t r s, In (t, r, s) (sbooked (tschedule p)) -> (s <= U)%nat) /\
    (forall t r s, tent t (cells (tschedule p) r s) <> [] -> (s <= U)%nat).
  Proof.
    split; [exact (ih_touched _ team_in_horizon)|]. split; [exact (ih_events _ team_in_horizon)|].
    exact team_entries_in_horizon.
  Qed.
End TeamHorizon.

(* ---- reported starts lie inside the horizon: 0 <= start < (upper + 1) * G for every placed task of a well-formed project *)
Section TeamStarts.
  Variable p : tproject.
  Hypothesis Hwf : twf p.
  Local Notation G := (inject_Z (tp_G p)).
  Local Notation U := (tp_upper p).

  Definition in_window (f : Z) : Prop := (0 <= f < (Z.of_nat U + 1) * tp_G p)%Z.
  Definition PD (st : sstate) : Prop := forall t f e, In (t, (f, e)) (splaced st) -> in_window f.

  Lemma slookup_in t : forall l d, slookup t l = Some d -> In (t, d) l.
  Proof.
    induction l as [|[t' d'] l IH]; intros d H; cbn [slookup] in H; [discriminate|].
    destruct (Nat.eqb_spec t t') as [<-|Hne].
    - injection H as <-. now left.
    - right. now apply IH.
  Qed.

  Lemma pd_place st t f e : in_window f -> PD st -> PD (splace st t (f, e)).
  Proof. intros Hf Hp u f' e' [E|Hin]; [injection E as _ <- _; exact Hf|eapply Hp; exact Hin]. Qed.

  Local Opaque book_members release_members.
  (* the start that a walk reports is the beginning of one of the slots it visited plus the offset of the bound *)
  Lemma twalk_start t team e need off : forall fuel slot done start st st' f e',
    twalk p t team e need off fuel slot done start st = (st', Some (f, e')) ->
    (start = None -> exists s1, (slot <= s1 < slot + fuel)%nat /\ f = (Z.of_nat s1 * tp_G p + Qfloor off)%Z) /\
    (forall s0, start = Some s0 -> f = s0).
  Proof.
    induction fuel as [|fuel IH]; intros slot done start st st' f e' H; cbn [twalk] in H; [discriminate|].
    assert (Hlater : forall st1, twalk p t team e need off fuel (S slot) done start st1 = (st', Some (f, e')) ->
              (start = None -> exists s1, (slot <= s1 < slot + S fuel)%nat /\ f = (Z.of_nat s1 * tp_G p + Qfloor off)%Z) /\
              (forall s0, start = Some s0 -> f = s0)).
    { intros st1 H1. destruct (IH (S slot) done start st1 st' f e' H1) as (B & C).
      split; [|exact C]. intros En. destruct (B En) as (s1 & L & E). exists s1. split; [lia|exact E]. }
    destruct (_ && negb _); [exact (Hlater _ H)|].
    destruct (book_members p t off (Qeq_bool done 0) _ slot team st) as [st1 booked] eqn:Eb.
    destruct booked as [|x0 bk]; [exact (Hlater _ H)|].
    destruct (Qle_bool _ _).
    - injection H as _ <- _. split.
      + intros ->. exists slot. split; [lia|reflexivity].
      + intros s0 ->. reflexivity.
    - destruct (IH (S slot) _ _ st1 st' f e' H) as (_ & C). specialize (C _ eq_refl). split.
      + intros ->. exists slot. split; [lia|exact C].
      + intros s0 ->. exact C.
  Qed.
  Local Transparent book_members release_members.

  Lemma tschedule_task_pd st t : PD st -> PD (tschedule_task p st t).
  Proof.
    intros Hp. unfold tschedule_task. cbn zeta. set (b := tbound p st t) in *.
    pose proof (twf_G p Hwf) as HG.
    destruct (Z.ltb_spec b 0) as [|Hb]; cbn [orb]; [exact Hp|].
    destruct (Z.ltb_spec (Z.of_nat U) (b / tp_G p)) as [|Hu]; [exact Hp|].
    assert (Hbw : in_window b).
    { unfold in_window. split; [exact Hb|]. pose proof (Z.mod_pos_bound b (tp_G p) ltac:(lia)) as Hm.
      pose proof (Z.div_mod b (tp_G p) ltac:(lia)) as Hd. nia. }
    destruct (tt_mile (ttask_of p t)); [now apply pd_place|].
    destruct (tt_team (ttask_of p t)) as [|r0 tl]; [exact Hp|].
    destruct (twalk p t (r0 :: tl) _ _ _ _ _ 0 None st) as [st' d] eqn:Ew.
    destruct (twalk_frame p _ _ _ _ _ _ _ _ _ _ _ _ Ew) as (_ & Es).
    assert (Hp' : PD st') by (intros u f e Hin; rewrite Es in Hin; eapply Hp; exact Hin).
    destruct d as [[f e']|]; [|exact Hp'].
    apply pd_place; [|exact Hp'].
    destruct (twalk_start _ _ _ _ _ _ _ _ _ _ _ _ _ Ew) as (A & _). destruct (A eq_refl) as (s1 & L & ->).
    assert (Hoff : (0 <= Qfloor (inject_Z (b mod tp_G p)) < tp_G p)%Z).
    { rewrite Qfloor_Z. apply Z.mod_pos_bound. lia. }
    unfold in_window. split; [nia|].
    assert (Z.of_nat s1 <= Z.of_nat U)%Z by lia. nia.
  Qed.

  Lemma tloop_pd : forall fuel work st, PD st -> PD (tloop p fuel work st).
  Proof.
    induction fuel as [|fuel IH]; intros work st Hp; cbn [tloop]; [exact Hp|].
    destruct (tpick p st work) as [[t rest]|]; [|exact Hp].
    apply IH. now apply tschedule_task_pd.
  Qed.

  Lemma tprepass_pd : PD (tprepass p).
  Proof.
    unfold tprepass. generalize (seq 0 (length (tp_tasks p))). intros l.
    pose proof (twf_G p Hwf) as HG.
    assert (H : forall st, PD st -> PD (fold_left (fun st t => let k := ttask_of p t in
                         if tt_leaf k && tt_mile k
                         then match tt_pin k with
                              | Some s => if (0 <=? s)%Z && (s / tp_G p <=? Z.of_nat (tp_upper p))%Z then splace st t (s, s) else st
                              | None => st end
                         else st) l st)).
    { induction l as [|t l IH]; intros st Hp; cbn [fold_left]; [exact Hp|]. apply IH. cbn zeta.
      destruct (_ && _); [|exact Hp]. destruct (tt_pin _) as [s|]; [|exact Hp].
      destruct (Z.leb_spec 0 s) as [H0|]; cbn [andb]; [|exact Hp].
      destruct (Z.leb_spec (s / tp_G p) (Z.of_nat U)) as [H1|]; [|exact Hp].
      apply pd_place; [|exact Hp]. unfold in_window. split; [exact H0|].
      pose proof (Z.mod_pos_bound s (tp_G p) ltac:(lia)) as Hm.
      pose proof (Z.div_mod s (tp_G p) ltac:(lia)) as Hd. nia. }
    apply H. intros t f e [].
  Qed.

  Theorem team_starts_in_horizon t f e : sleaf_dates (tschedule p) t = Some (f, e) ->
    (0 <= f < (Z.of_nat U + 1) * tp_G p)%Z.
  Proof.
    intros H. apply slookup_in in H.
    assert (Hp : PD (tschedule p)) by (unfold tschedule; cbn zeta; apply tloop_pd, tprepass_pd).
    exact (Hp t f e H).
  Qed.
End TeamStarts.
