(* C08 at second granularity for teams with limits: a slot that a team task walked past without booking it has a member
   that was off, full (to within 1e-6 s) or closed by a limit - counting the tentative bookings of the members
   checked before it - and that is still so in the final ledger, because the used seconds of a cell and the bookings
   a limit counts only grow. *)
From Coq Require Import QArith Qround Qminmax List Bool Arith ZArith Lia Lqa.
Require Import SP.Model.Ledger SP.Proofs.LedgerProofs SP.Model.SubSlot SP.Model.SubSlotTeam SP.Proofs.SubSlotProofs
               SP.Proofs.SubSlotIdle SP.Proofs.SubSlotTeamProofs SP.Proofs.SubSlotTeamEffort SP.Proofs.SubSlotTeamLimits SP.Proofs.SubSlotTeamDates.
Import ListNotations.

Section TeamIdle.
  Variable p : tproject.
  Hypothesis Hwf : twf p.
  Hypothesis Hnd : forall t, NoDup (tt_team (ttask_of p t)).
  Local Notation G := (inject_Z (tp_G p)).

  Definition ev_of (t s : nat) (rs : list nat) : list (nat * nat * nat) := map (fun r => (t, r, s)) rs.

  (* why member r of the team of t could not take slot s; ev = the tentative bookings of the members before it *)
  Definition MemberBlocked (st : sstate) (t r s : nat) (ev : list (nat * nat * nat)) : Prop :=
    sr_work (tres_of p r) s = false \/
    G - used (cells st r s) <= tol_avail \/
    exists l, In l (tlimits_of p t r) /\
              (sl_value (tlim_of p l) <= tusage p (ev ++ sbooked st) l (sl_period (tlim_of p l) s))%nat.

  Definition TReason (st : sstate) (t : nat) (team : list nat) (s : nat) : Prop :=
    exists pre r post, team = pre ++ r :: post /\ MemberBlocked st t r s (ev_of t s (rev pre)).

  Definition TGrows (st st' : sstate) : Prop :=
    (forall r s, used (cells st r s) <= used (cells st' r s)) /\ (exists new, sbooked st' = new ++ sbooked st).

  Lemma TGrows_refl st : TGrows st st.
  Proof. split; [intros; lra|exists []; reflexivity]. Qed.

  Lemma TGrows_trans a b c : TGrows a b -> TGrows b c -> TGrows a c.
  Proof.
    intros [U1 [n1 E1]] [U2 [n2 E2]]. split.
    - intros r s. specialize (U1 r s). specialize (U2 r s). lra.
    - exists (n2 ++ n1). rewrite E2, E1. now rewrite app_assoc.
  Qed.

  Lemma tusage_grows ev b b' l k : (exists new, b' = new ++ b) -> (tusage p (ev ++ b) l k <= tusage p (ev ++ b') l k)%nat.
  Proof. intros [new ->]. unfold tusage. rewrite !filter_app, !app_length. lia. Qed.

  Lemma TReason_mono st st' t team s : TGrows st st' -> TReason st t team s -> TReason st' t team s.
  Proof.
    intros [Hu Hb] (pre & r & post & E & [H|[H|(l & Hl & H)]]); exists pre, r, post; (split; [exact E|]).
    - now left.
    - right. left. specialize (Hu r s). lra.
    - right. right. exists l. split; [exact Hl|]. eapply Nat.le_trans; [exact H|]. now apply tusage_grows.
  Qed.

  Lemma pinv_not_refused st r s : TInv p st -> PInv st -> refused (cells st r s) = false.
  Proof.
    intros [Hi _] Hp. unfold refused. destruct (entries (cells st r s)) as [|e0 l0] eqn:E; [reflexivity|].
    destruct (Qlt_le_dec 0 (used (cells st r s))) as [L|L]; [reflexivity|exfalso].
    destruct (Hi r s) as (_ & _ & U3 & _). rewrite E in U3.
    assert (0 < total (e0 :: l0)) by (apply total_pos; [rewrite <- E; apply Hp|discriminate]). lra.
  Qed.

  Lemma limits_not_ok ev t r s : tlimits_ok p ev t r s = false ->
    exists l, In l (tlimits_of p t r) /\ (sl_value (tlim_of p l) <= tusage p ev l (sl_period (tlim_of p l) s))%nat.
  Proof.
    unfold tlimits_ok. induction (tlimits_of p t r) as [|l tl IH]; cbn [forallb]; [discriminate|].
    intros H. apply andb_false_iff in H as [H|H].
    - exists l. split; [now left|]. now apply Nat.ltb_ge in H.
    - destruct (IH H) as (l' & Hl' & E'). exists l'. split; [now right|exact E'].
  Qed.

  (* the gate refuses the team: some member is blocked *)
  Lemma gate_false_reason st t slot : TInv p st -> PInv st -> forall team pre,
    team_gate p st t slot (ev_of t slot (rev pre) ++ sbooked st) team = false ->
    exists pre' r post, team = pre' ++ r :: post /\ MemberBlocked st t r slot (ev_of t slot (rev (pre ++ pre'))).
  Proof.
    intros Hi Hp. induction team as [|r tl IH]; intros pre H; cbn [team_gate] in H; [discriminate|].
    apply andb_false_iff in H as [H|H]; [apply andb_false_iff in H as [H|H]|].
    - exists [], r, tl. split; [reflexivity|]. rewrite app_nil_r. unfold member_available in H. cbn zeta in H.
      apply andb_false_iff in H as [H|H]; [apply andb_false_iff in H as [H|H]|].
      + now left.
      + right. left. apply negb_false_iff in H. now apply Qle_bool_iff.
      + apply negb_false_iff in H. rewrite (pinv_not_refused st r slot Hi Hp) in H. discriminate.
    - exists [], r, tl. split; [reflexivity|]. rewrite app_nil_r. right. right. now apply limits_not_ok.
    - specialize (IH (pre ++ [r])). unfold ev_of in IH at 1. rewrite rev_app_distr in IH. cbn [rev app map] in IH.
      destruct (IH H) as (pre' & r' & post & E & B). exists (r :: pre'), r', post. split; [now rewrite E|].
      now rewrite <- app_assoc in B.
  Qed.

  (* ------------------------------------------------------------ one Book on a cell *)
  Lemma book_grew g t c cap :
    length (entries (step g c (Book t cap))) <> length (entries c) ->
    let amount := match cap with Some m => Qmin (avail g c) m | None => avail g c end in
    0 < avail g c /\ entries (step g c (Book t cap)) = entries c ++ [(t, amount)] /\
    used (step g c (Book t cap)) = used c + amount.
  Proof.
    cbn [step]. destruct (match entries c with [] => false | _ :: _ => if Qlt_le_dec 0 (used c) then false else true end);
      [intros H; now elim H|].
    destruct (Qlt_le_dec 0 (avail g c)) as [L|L]; [|intros H; now elim H].
    intros _. cbn [entries used]. split; [exact L|]. split; reflexivity.
  Qed.

  Lemma book_none_books t c : Inv G c -> Forall (fun e => 0 < snd e) (entries c) -> 0 < G - used c ->
    length (entries (step G c (Book t None))) <> length (entries c).
  Proof.
    intros (U1 & U2 & U3 & U4) Hp Ha. cbn [step].
    assert (Hnr : match entries c with [] => false | _ :: _ => if Qlt_le_dec 0 (used c) then false else true end = false).
    { destruct (entries c) as [|e0 l0] eqn:E; [reflexivity|]. destruct (Qlt_le_dec 0 (used c)) as [L|L]; [reflexivity|exfalso].
      assert (0 < total (e0 :: l0)) by (apply total_pos; [exact Hp|discriminate]). lra. }
    rewrite Hnr. assert (Hav : avail G c == G - used c) by (unfold avail; apply Q.max_r; lra).
    destruct (Qlt_le_dec 0 (avail G c)) as [L|L]; [|lra]. cbn [entries]. rewrite app_length. cbn. lia.
  Qed.

  Lemma book_members_booked t off first cap slot : forall team st st1 l,
    book_members p t off first cap slot team st = (st1, l) -> exists new, sbooked st1 = new ++ sbooked st.
  Proof.
    induction team as [|r tl IH]; intros st st1 l H; cbn [book_members] in H.
    - injection H as <- _. exists []. reflexivity.
    - destruct (sr_work (tres_of p r) slot); [|eapply IH; eassumption].
      destruct (_ || _ || negb _).
      + apply IH in H. exact H.
      + destruct (book_members p t off first cap slot tl _) as [st2 l2] eqn:E2. injection H as <- _.
        apply IH in E2 as [new E]. exists (new ++ [(t, r, slot)]). rewrite E. cbn [note_booking set_cell sbooked].
        now rewrite <- app_assoc.
  Qed.

  Local Opaque step.
  (* ------------------------------------------------------------ one slot of a single resource *)
  Lemma book_single t off (first : bool) slot r st st1 booked : TInv p st -> PInv st -> 0 <= off -> off <= G ->
    book_members p t off first None slot [r] st = (st1, booked) ->
    (booked = [] /\ MemberBlocked st1 t r slot [] /\ PInv st1 /\ TGrows st st1 /\
       (forall r' s', (r' <> r \/ s' <> slot) -> cells st1 r' s' = cells st r' s') /\
       entries (cells st1 r slot) = entries (cells st r slot))
    \/
    (exists x a u1, booked = [x] /\ fst (fst x) = r /\ 0 < a /\ sr_work (tres_of p r) slot = true /\
       used (cells st r slot) <= u1 /\
       entries (cells st1 r slot) = entries (cells st r slot) ++ [(t, a)] /\ used (cells st1 r slot) = u1 + a /\
       (forall r' s', (r' <> r \/ s' <> slot) -> cells st1 r' s' = cells st r' s') /\
       sbooked st1 = (t, r, slot) :: sbooked st).
  Proof.
    intros Hi Hp Ho1 Ho2 H. cbn [book_members] in H.
    destruct (sr_work (tres_of p r) slot) eqn:Ew.
    2:{ injection H as <- <-. left. split; [reflexivity|]. split; [now left|]. split; [exact Hp|]. split; [apply TGrows_refl|].
        split; reflexivity. }
    set (c0 := cells st r slot) in *. fold (pre p first off c0) in H. set (c1 := pre p first off c0) in *.
    assert (Hc0 : Inv G c0) by apply Hi.
    assert (Hc1 : Inv G c1).
    { unfold c1, pre. destruct first; [|exact Hc0]. apply step_inv; [apply (tG_pos p Hwf)|split; assumption|exact Hc0]. }
    assert (He1 : entries c1 = entries c0) by apply pre_entries.
    assert (Hu1 : used c0 <= used c1) by apply pre_used_ge.
    assert (Hp1 : Forall (fun x => 0 < snd x) (entries c1)) by (rewrite He1; apply Hp).
    set (c2 := step G c1 (Book t None)) in *.
    destruct (Qle_bool (G - used c1) tol_avail || Nat.eqb (length (entries c2)) (length (entries c1))
              || negb (tlimits_ok p (sbooked st) t r slot)) eqn:Eb.
    - injection H as <- <-. left. split; [reflexivity|].
      assert (Ecell : cells (set_cell st r slot c1) r slot = c1) by apply tcells_set_same.
      split; [|split; [|split; [|split]]].
      + apply orb_true_iff in Eb as [Eb|Eb]; [apply orb_true_iff in Eb as [Eb|Eb]|].
        * right. left. rewrite Ecell. now apply Qle_bool_iff.
        * right. left. rewrite Ecell. destruct (Qlt_le_dec 0 (G - used c1)) as [L|L]; [exfalso|unfold tol_avail; lra].
          apply Nat.eqb_eq in Eb. now apply (book_none_books t c1 Hc1 Hp1 L).
        * right. right. apply negb_true_iff in Eb. cbn [app set_cell sbooked]. now apply limits_not_ok.
      + apply pinv_set; assumption.
      + split; [|exists []; reflexivity]. intros r' s'.
        destruct (Nat.eq_dec r' r) as [->|Hr]; [destruct (Nat.eq_dec s' slot) as [->|Hs]|].
        * rewrite Ecell. exact Hu1.
        * rewrite tcells_set_other by (right; exact Hs). lra.
        * rewrite tcells_set_other by (left; exact Hr). lra.
      + intros r' s' Hrs. now apply tcells_set_other.
      + rewrite Ecell. exact He1.
    - injection H as <- <-. right.
      apply orb_false_iff in Eb as [Eb _]. apply orb_false_iff in Eb as [_ Elen]. apply Nat.eqb_neq in Elen.
      destruct (book_grew G t c1 None Elen) as (Hav & Hent & Hused). fold c2 in Hent, Hused.
      eexists _, (avail G c1), (used c1). split; [reflexivity|]. cbn [fst]. split; [reflexivity|]. split; [exact Hav|].
      split; [first [exact Ew|reflexivity]|]. split; [exact Hu1|]. rewrite cells_note, tcells_set_same.
      split; [now rewrite Hent, He1|]. split; [exact Hused|]. split; [|reflexivity].
      intros r' s' Hrs. now apply tcells_set_other.
  Qed.

  (* ------------------------------------------------------------ one slot of a team whose gate is open *)
  Lemma team_slot_more t off (first : bool) slot team st : multi team = true -> NoDup team -> TInv p st -> PInv st ->
    0 <= off -> tol_avail < G - off -> team_gate p st t slot (sbooked st) team = true ->
    exists m st1 booked,
      common_secs G (if first then off else 0) st slot team = Some m /\
      book_members p t off first (Some m) slot team st = (st1, booked) /\ 0 < m /\ booked <> [] /\
      map (fun x => fst (fst x)) booked = team /\
      (forall r, In r team -> sr_work (tres_of p r) slot = true /\ exists xr u1, 0 < xr /\ used (cells st r slot) <= u1 /\
         entries (cells st1 r slot) = entries (cells st r slot) ++ [(t, xr)] /\ used (cells st1 r slot) = u1 + xr) /\
      (forall r' s', (~ In r' team \/ s' <> slot) -> cells st1 r' s' = cells st r' s') /\
      (exists new, sbooked st1 = new ++ sbooked st).
  Proof.
    intros Hmulti Hndt Hi Hp Ho1 Ho2 Hgate.
    destruct (team_slot p Hwf t off first slot team st Hmulti Hndt Hi Ho1 Ho2 Hgate)
      as (m & st1 & booked & Ec & Eb & Hm & HmG & Hbne & Hbteam & _ & _ & Hframe & _ & _).
    exists m, st1, booked. split; [exact Ec|]. split; [exact Eb|]. split; [exact Hm|]. split; [exact Hbne|]. split; [exact Hbteam|].
    split; [|split; [exact Hframe|eapply book_members_booked; exact Eb]].
    set (o := if first then off else 0) in *.
    assert (Hsame : forall r, In r team -> cells st1 r slot = step G (pre p first off (cells st r slot)) (Book t (Some m))).
    { destruct (book_members_full p t off first m slot Ho1 Ho2 Hm team st st Hndt (fun _ _ => eq_refl) Hgate) as (st1' & E & A & _).
      - intros r Hr. destruct (gate_spec p _ _ _ _ _ Hgate r Hr) as (G1 & G2 & G3).
        split; [exact G1|]. split; [apply Hi|]. split; [exact G2|]. split; [exact G3|]. eapply common_le; eassumption.
      - rewrite Eb in E. injection E as <- _. exact A. }
    intros r Hr. destruct (gate_spec p _ _ _ _ _ Hgate r Hr) as (G1 & G2 & G3). split; [exact G1|].
    destruct (book_one p t off first m (cells st r slot) (proj1 Hi r slot) G2 G3 Ho1 Ho2 Hm (common_le p _ _ _ _ _ _ Ec Hr))
      as (Hent & Hmin & Hb).
    cbn zeta in Hb. apply orb_false_iff in Hb as [_ Hlen]. apply Nat.eqb_neq in Hlen.
    destruct (book_grew G t (pre p first off (cells st r slot)) (Some m) Hlen) as (_ & _ & Hused).
    exists (Qmin (avail G (pre p first off (cells st r slot))) m), (used (pre p first off (cells st r slot))).
    split; [rewrite Hmin; exact Hm|]. split; [apply pre_used_ge|]. rewrite (Hsame r Hr). split; [exact Hent|exact Hused].
  Qed.
  Local Transparent step.

  (* ------------------------------------------------------------ a slot in which every member got an entry *)
  Definition SlotBooked (st st1 : sstate) (t : nat) (team : list nat) (slot : nat) (booked : list (nat * Q * Q)) : Prop :=
    map (fun x => fst (fst x)) booked = team /\
    (forall r, In r team -> exists xr u1, 0 < xr /\ used (cells st r slot) <= u1 /\
       entries (cells st1 r slot) = entries (cells st r slot) ++ [(t, xr)] /\ used (cells st1 r slot) = u1 + xr) /\
    (forall r' s', (~ In r' team \/ s' <> slot) -> cells st1 r' s' = cells st r' s') /\
    (exists new, sbooked st1 = new ++ sbooked st).

  Lemma tent_snoc t (l : list (nat * Q)) x : filter (fun y => Nat.eqb (fst y) t) (l ++ [(t, x)]) = filter (fun y => Nat.eqb (fst y) t) l ++ [(t, x)].
  Proof. rewrite filter_app. cbn [filter fst]. now rewrite Nat.eqb_refl. Qed.

  Lemma slotbooked_facts st st1 t team slot booked : SlotBooked st st1 t team slot booked -> PInv st ->
    PInv st1 /\ TGrows st st1 /\ (forall r, In r team -> tent t (cells st1 r slot) <> tent t (cells st r slot)).
  Proof.
    intros (Hb & Hm & Hf & Hs) Hp. split; [|split].
    - intros r s. destruct (in_dec Nat.eq_dec r team) as [Hr|Hr]; [destruct (Nat.eq_dec s slot) as [->|Hs']|].
      + destruct (Hm r Hr) as (xr & u1 & X1 & _ & X3 & _). rewrite X3. apply Forall_app. split; [apply Hp|].
        constructor; [exact X1|constructor].
      + rewrite Hf by (right; exact Hs'). apply Hp.
      + rewrite Hf by (left; exact Hr). apply Hp.
    - split; [|exact Hs]. intros r s.
      destruct (in_dec Nat.eq_dec r team) as [Hr|Hr]; [destruct (Nat.eq_dec s slot) as [->|Hs']|].
      + destruct (Hm r Hr) as (xr & u1 & X1 & X2 & _ & X4). rewrite X4. lra.
      + rewrite Hf by (right; exact Hs'). lra.
      + rewrite Hf by (left; exact Hr). lra.
    - intros r Hr. destruct (Hm r Hr) as (xr & u1 & _ & _ & X3 & _). unfold tent. rewrite X3, tent_snoc. apply app_neq_self.
  Qed.

  Lemma finish_last g t needed c e0 xr : entries c = e0 ++ [(t, xr)] ->
    entries (step g c (Finish t needed)) = e0 ++ [(t, Qmin needed xr)] /\
    used (step g c (Finish t needed)) = used c - xr + Qmin needed xr.
  Proof. intros E. cbn [step]. rewrite E, release_last_snoc. split; reflexivity. Qed.

  Lemma slotbooked_finish st st1 t team slot booked needed : SlotBooked st st1 t team slot booked -> NoDup team ->
    0 < needed -> PInv st ->
    let st' := release_members G t needed slot booked st1 in
    PInv st' /\ TGrows st st' /\ (forall r' s', (~ In r' team \/ s' <> slot) -> cells st' r' s' = cells st r' s').
  Proof.
    intros (Hb & Hm & Hf & Hs) Hndt Hn Hp st'.
    assert (Hndb : NoDup (map (fun x => fst (fst x)) booked)) by (rewrite Hb; exact Hndt).
    destruct (release_members_cells p t needed slot booked st1 Hndb) as (R1 & R2 & _). fold st' in R1, R2.
    assert (Hcell : forall r, In r team -> exists xr u1, 0 < xr /\ used (cells st r slot) <= u1 /\
              entries (cells st' r slot) = entries (cells st r slot) ++ [(t, Qmin needed xr)] /\
              used (cells st' r slot) = u1 + xr - xr + Qmin needed xr).
    { intros r Hr. destruct (Hm r Hr) as (xr & u1 & X1 & X2 & X3 & X4).
      assert (Hin : exists x, In x booked /\ fst (fst x) = r).
      { rewrite <- Hb in Hr. apply in_map_iff in Hr as (x & E & Hx). eauto. }
      destruct Hin as (x & Hx & <-). rewrite (R1 x Hx).
      destruct (finish_last G t needed _ _ _ X3) as [F1 F2]. exists xr, u1. rewrite F1, F2, X4. repeat split; assumption. }
    assert (Hother : forall r' s', (~ In r' team \/ s' <> slot) -> cells st' r' s' = cells st r' s').
    { intros r' s' Hrs. rewrite R2 by (rewrite Hb; exact Hrs). now apply Hf. }
    split; [|split; [split|exact Hother]].
    - intros r s. destruct (in_dec Nat.eq_dec r team) as [Hr|Hr]; [destruct (Nat.eq_dec s slot) as [->|Hs']|].
      + destruct (Hcell r Hr) as (xr & u1 & X1 & _ & X3 & _). rewrite X3. apply Forall_app. split; [apply Hp|].
        constructor; [cbn [snd]; apply Q.min_glb_lt; assumption|constructor].
      + rewrite Hother by (right; exact Hs'). apply Hp.
      + rewrite Hother by (left; exact Hr). apply Hp.
    - intros r s. destruct (in_dec Nat.eq_dec r team) as [Hr|Hr]; [destruct (Nat.eq_dec s slot) as [->|Hs']|].
      + destruct (Hcell r Hr) as (xr & u1 & X1 & X2 & _ & X4). rewrite X4.
        assert (0 < Qmin needed xr) by (apply Q.min_glb_lt; assumption). lra.
      + rewrite Hother by (right; exact Hs'). lra.
      + rewrite Hother by (left; exact Hr). lra.
    - unfold st'. rewrite (release_members_booked p). exact Hs.
  Qed.

  (* ------------------------------------------------------------ the walk *)
  Lemma single_team team : multi team = false -> team <> [] -> exists r, team = [r].
  Proof. destruct team as [|r [|r2 tl]]; intros Hm Hne; [contradiction|eauto|discriminate]. Qed.

  Local Opaque step release_members book_members.
  Lemma twalk_idle t team e need off : 0 < e -> 0 <= off -> tol_avail < G - off -> team <> [] -> NoDup team ->
    forall fuel slot done start st st' d,
      0 <= done -> done < need -> TInv p st -> PInv st ->
      twalk p t team e need off fuel slot done start st = (st', d) ->
      PInv st' /\ TGrows st st' /\
      (forall r' s', (~ In r' team \/ (s' < slot)%nat) -> cells st' r' s' = cells st r' s') /\
      (forall s s2, (slot <= s)%nat -> (s < s2)%nat ->
         (exists r, In r team /\ tent t (cells st' r s2) <> tent t (cells st r s2)) ->
         (forall r, In r team -> tent t (cells st' r s) = tent t (cells st r s)) -> TReason st' t team s).
  Proof.
    intros He Ho1 Ho2 Hne Hndt.
    assert (HoG : off <= G) by (unfold tol_avail in Ho2; lra).
    induction fuel as [|fuel IH]; intros slot done start st st' d Hd1 Hd2 Hi Hp H; cbn [twalk] in H.
    { injection H as <- _. split; [exact Hp|]. split; [apply TGrows_refl|]. split; [reflexivity|].
      intros s s2 _ _ (r & _ & Hc). now elim Hc. }
    fold (multi team) in H.
    (* either the slot is walked past (state st1, with a reason) or every member gets an entry *)
    assert (Hcase :
      (exists st1, twalk p t team e need off fuel (S slot) done start st1 = (st', d) /\ TInv p st1 /\ PInv st1 /\ TGrows st st1 /\
          (forall r' s', (~ In r' team \/ s' <> slot) -> cells st1 r' s' = cells st r' s') /\
          (forall r, In r team -> tent t (cells st1 r slot) = tent t (cells st r slot)) /\
          TReason st1 t team slot) \/
      (exists st1 x0 bk, SlotBooked st st1 t team slot (x0 :: bk) /\ TInv p st1 /\
          (let booked := x0 :: bk in
           let gained := qmax_list (map (fun x => snd (fst x) * sr_eff (tres_of p (fst (fst x)))) booked) in
           (if Qle_bool (need - tol_done) (done + gained)
            then (release_members G t (Qmin ((need - done) / e) G) slot booked st1,
                  Some (match start with Some s => s | None => (Z.of_nat slot * tp_G p + Qfloor off)%Z end,
                        (Z.of_nat slot * tp_G p + round_half_even (qmax_list (map snd booked) + Qmin ((need - done) / e) G))%Z))
            else twalk p t team e need off fuel (S slot) (done + gained)
                   (Some (match start with Some s => s | None => (Z.of_nat slot * tp_G p + Qfloor off)%Z end)) st1) = (st', d)))).
    { destruct (multi team) eqn:Em.
      - destruct (team_gate p st t slot (sbooked st) team) eqn:Eg; cbn [negb andb] in H.
        + right. destruct (team_slot_more t off (Qeq_bool done 0) slot team st Em Hndt Hi Hp Ho1 Ho2 Eg)
            as (m & st1 & booked & Ec & Eb & Hm & Hbne & Hbteam & Hmem & Hframe & Hsb).
          rewrite Ec, Eb in H. destruct booked as [|x0 bk]; [contradiction|].
          exists st1, x0, bk. split; [|split; [|exact H]].
          * split; [exact Hbteam|]. split; [|split; [exact Hframe|exact Hsb]].
            intros r Hr. destruct (Hmem r Hr) as (_ & xr & u1 & X). exists xr, u1. exact X.
          * eapply (book_members_inv p Hwf t off _ (Some m) slot Ho1 HoG); [|exact Hi|exact Eb]. intros m' [= <-]. lra.
        + left. exists st. split; [exact H|]. split; [exact Hi|]. split; [exact Hp|]. split; [apply TGrows_refl|].
          split; [reflexivity|]. split; [reflexivity|].
          destruct (gate_false_reason st t slot Hi Hp team [] Eg) as (pre' & r & post & E & B). exists pre', r, post. split; assumption.
      - cbn [andb] in H. destruct (single_team team Em Hne) as [r ->].
        destruct (book_members p t off (Qeq_bool done 0) None slot [r] st) as [st1 booked] eqn:Eb.
        assert (Hi1 : TInv p st1).
        { eapply (book_members_inv p Hwf t off _ None slot Ho1 HoG); [|exact Hi|exact Eb]. discriminate. }
        destruct (book_single t off _ slot r st st1 booked Hi Hp Ho1 HoG Eb)
          as [(-> & Hblk & Hp1 & Hg1 & Hf1 & He1)|(x & a & u1 & -> & Hx & Ha & Hw & Hu & Hent & Hused & Hf1 & Hsb)].
        + left. exists st1. split; [exact H|]. split; [exact Hi1|]. split; [exact Hp1|]. split; [exact Hg1|]. split; [|split].
          * intros r' s' [Hr|Hs]; apply Hf1; [left; intros ->; apply Hr; now left|now right].
          * intros r' [<-|[]]. unfold tent. now rewrite He1.
          * exists [], r, []. split; [reflexivity|exact Hblk].
        + right. exists st1, x, []. split; [|split; [exact Hi1|exact H]].
          split; [cbn [map]; now rewrite Hx|]. split; [|split].
          * intros r' [<-|[]]. exists a, u1. repeat split; assumption.
          * intros r' s' [Hr|Hs]; apply Hf1; [left; intros ->; apply Hr; now left|now right].
          * exists [(t, r, slot)]. exact Hsb. }
    clear H. destruct Hcase as [(st1 & H & Hi1 & Hp1 & Hg1 & Hf1 & Ht1 & Hreason)|(st1 & x0 & bk & Hsb & Hi1 & H)].
    - (* walked past *)
      destruct (IH _ _ _ _ _ _ Hd1 Hd2 Hi1 Hp1 H) as (A1 & A2 & A3 & A4).
      split; [exact A1|]. split; [eapply TGrows_trans; eassumption|]. split.
      + intros r' s' Hrs. rewrite A3 by (destruct Hrs; [now left|right; lia]). apply Hf1. destruct Hrs; [now left|right; lia].
      + intros s s2 Hs Hs2 (r & Hr & Hc) Hn. destruct (Nat.eq_dec s slot) as [->|Hne'].
        * eapply TReason_mono; [exact A2|exact Hreason].
        * apply (A4 s s2); [lia|exact Hs2| |].
          -- exists r. split; [exact Hr|]. rewrite Hf1 by (right; lia). exact Hc.
          -- intros r' Hr'. rewrite Hf1 by (right; exact Hne'). now apply Hn.
    - (* every member booked *)
      cbn zeta in H. destruct (slotbooked_facts _ _ _ _ _ _ Hsb Hp) as (Hp1 & Hg1 & Hneq).
      set (gained := qmax_list (map (fun x => snd (fst x) * sr_eff (tres_of p (fst (fst x)))) (x0 :: bk))) in *.
      assert (Hg0 : 0 <= gained) by apply qmax_list_nonneg.
      destruct Hsb as (Hb & Hm & Hf & Hs). assert (Hsb : SlotBooked st st1 t team slot (x0 :: bk)) by (repeat split; assumption).
      destruct (Qle_bool (need - tol_done) (done + gained)) eqn:Ef.
      + injection H as <- _.
        assert (Hq : 0 < (need - done) / e) by (apply Qlt_shift_div_l; [exact He|]; rewrite Qmult_0_l; lra).
        assert (Hn0 : 0 < Qmin ((need - done) / e) G) by (apply Q.min_glb_lt; [exact Hq|apply (tG_pos p Hwf)]).
        destruct (slotbooked_finish _ _ _ _ _ _ _ Hsb Hndt Hn0 Hp) as (B1 & B2 & B3).
        split; [exact B1|]. split; [exact B2|]. split.
        * intros r' s' Hrs. apply B3. destruct Hrs; [now left|right; lia].
        * intros s s2 Hs1 Hs2 (r & Hr & Hc) _. exfalso. apply Hc. rewrite B3 by (right; lia). reflexivity.
      + assert (Hfl : ~ need - tol_done <= done + gained) by (intros Hle; apply Qle_bool_iff in Hle; congruence).
        apply Qnot_le_lt in Hfl.
        destruct (IH (S slot) (done + gained) (Some (match start with Some s0 => s0 | None => (Z.of_nat slot * tp_G p + Qfloor off)%Z end)) st1 st' d) as (A1 & A2 & A3 & A4);
          [lra|unfold tol_done in Hfl; lra|exact Hi1|exact Hp1|exact H|].
        split; [exact A1|]. split; [eapply TGrows_trans; eassumption|]. split.
        * intros r' s' Hrs. rewrite A3 by (destruct Hrs; [now left|right; lia]). apply Hf. destruct Hrs; [now left|right; lia].
        * intros s s2 Hs1 Hs2 (r & Hr & Hc) Hn. destruct (Nat.eq_dec s slot) as [->|Hne'].
          -- exfalso. destruct team as [|r0 tl0]; [contradiction|]. apply (Hneq r0 (or_introl eq_refl)).
             rewrite <- (A3 r0 slot) by (right; lia). apply Hn. now left.
          -- apply (A4 s s2); [lia|exact Hs2| |].
             ++ exists r. split; [exact Hr|]. rewrite Hf by (right; lia). exact Hc.
             ++ intros r' Hr'. rewrite Hf by (right; exact Hne'). now apply Hn.
  Qed.
  Local Transparent step release_members book_members.

  (* ------------------------------------------------------------ through the ready loop *)
  Definition TNoIdle (st : sstate) (t : nat) : Prop :=
    let k := ttask_of p t in let team := tt_team k in
    exists b : Z,
      (0 <= b)%Z /\
      (forall s, tt_pin k = Some s -> b = s) /\
      (tt_pin k = None ->
         (tt_lb k <= b)%Z /\
         forall d, In d (tt_deps k) ->
           exists s' e', tdates p st (sd_task d) = Some (s', e') /\ ((if sd_onstart d then s' else e') + sd_gap d <= b)%Z) /\
      forall s s2, (Z.to_nat (b / tp_G p) <= s)%nat -> (s < s2)%nat ->
        (exists r, In r team /\ tent t (cells st r s2) <> []) ->
        (forall r, In r team -> tent t (cells st r s) = []) -> TReason st t team s.

  Lemma TNoIdle_stable st st' t : sext st st' -> TGrows st st' -> (forall r s, tent t (cells st' r s) = tent t (cells st r s)) ->
    TNoIdle st t -> TNoIdle st' t.
  Proof.
    intros He Hg Hc (b & B0 & B1 & B2 & B3). exists b. split; [exact B0|]. split; [exact B1|]. split.
    - intros Hpin. destruct (B2 Hpin) as [A B]. split; [exact A|]. intros d Hd. destruct (B d Hd) as (s' & e' & D1 & D2).
      exists s', e'. split; [eapply (tdates_stable p); eassumption|exact D2].
    - intros s s2 Hs Hs2 (r & Hr & H1) H2. eapply TReason_mono; [exact Hg|]. apply (B3 s s2 Hs Hs2).
      + exists r. split; [exact Hr|]. now rewrite <- Hc.
      + intros r' Hr'. rewrite <- Hc. now apply H2.
  Qed.

  Definition TK (st : sstate) : Prop :=
    PInv st /\ forall t f e, sleaf_dates st t = Some (f, e) -> tt_mile (ttask_of p t) = false -> TNoIdle st t.

  Lemma TGrows_place st t d : TGrows st (splace st t d).
  Proof. split; [intros; cbn [splace cells]; lra|exists []; reflexivity]. Qed.

  Lemma tstep_K st work t rest : TInv p st -> TJ p st work -> TK st -> tpick p st work = Some (t, rest) -> TK (tschedule_task p st t).
  Proof.
    intros Hi HJ [Hp HK] Hpick. pose proof (tpick_ready p _ _ _ _ Hpick) as Hready.
    destruct (tpick_spec p _ _ _ _ Hpick) as (Hin & _).
    pose proof (tj_unplaced _ _ _ HJ t Hin) as Hunpl. pose proof (tj_fresh _ _ _ HJ t Hin) as Hfresh.
    destruct (tbound_facts p st t Hready) as [Fpin Fdeps].
    unfold tschedule_task. cbn zeta. set (b := tbound p st t) in *.
    destruct ((b <? 0)%Z || (Z.of_nat (tp_upper p) <? b / tp_G p)%Z) eqn:Eh; [split; assumption|].
    apply orb_false_iff in Eh as [Eh1 _]. apply Z.ltb_ge in Eh1. pose proof (twf_G p Hwf) as HG.
    destruct (tt_mile (ttask_of p t)) eqn:Em.
    - split; [exact Hp|]. intros u f e Hu Hm. destruct (Nat.eq_dec u t) as [->|Hne]; [congruence|].
      rewrite tleaf_place_other in Hu by exact Hne.
      apply (TNoIdle_stable st); [now apply splace_sext|apply TGrows_place|reflexivity|eapply HK; eassumption].
    - pose proof (Hnd t) as Hndt.
      destruct (tt_team (ttask_of p t)) as [|r0 tl] eqn:Et; [split; assumption|].
      set (team := r0 :: tl) in *. set (slot0 := Z.to_nat (b / tp_G p)) in *.
      pose proof (Z.mod_pos_bound b (tp_G p) HG) as Hmod.
      destruct (twalk p t team (team_eff p team) (tt_effort (ttask_of p t)) (inject_Z (b mod tp_G p))
                      (S (tp_upper p) - slot0) slot0 0 None st) as [st1 d] eqn:Ew.
      destruct (twalk_frame p _ _ _ _ _ _ _ _ _ _ _ _ Ew) as [Hoth Hpl].
      assert (Hoff : 0 <= inject_Z (b mod tp_G p) /\ tol_avail < G - inject_Z (b mod tp_G p)).
      { split; [change 0 with (inject_Z 0); rewrite <- Zle_Qle; lia|].
        assert (1 <= G - inject_Z (b mod tp_G p)).
        { unfold Qminus. rewrite <- inject_Z_opp, <- inject_Z_plus. change 1 with (inject_Z 1). rewrite <- Zle_Qle. lia. }
        unfold tol_avail. lra. }
      assert (Hteam : team <> []) by discriminate.
      destruct (twalk_idle t team _ _ _ (team_eff_pos p Hwf team Hteam) (proj1 Hoff) (proj2 Hoff) Hteam Hndt _ _ _ _ _ _ _
                  (Qle_refl 0) (twf_work p Hwf t Em) Hi Hp Ew) as (A1 & A2 & A3 & A5).
      assert (He1 : sext st st1) by (intros u d' Hu; unfold sleaf_dates in *; now rewrite Hpl).
      assert (Hold : forall u f e, u <> t -> sleaf_dates st1 u = Some (f, e) -> tt_mile (ttask_of p u) = false -> TNoIdle st1 u).
      { intros u f e Hne Hu Hm. apply (TNoIdle_stable st); [exact He1|exact A2|intros; now apply Hoth|].
        apply (HK u f e); [unfold sleaf_dates in *; now rewrite Hpl in Hu|exact Hm]. }
      destruct d as [[f e]|].
      + assert (Hunpl1 : sleaf_dates st1 t = None) by (unfold sleaf_dates in *; now rewrite Hpl).
        split; [exact A1|]. intros u f' e' Hu Hm. destruct (Nat.eq_dec u t) as [->|Hne].
        * exists b. cbn zeta. rewrite Et. fold team. cbn [splace cells]. split; [exact Eh1|]. split; [exact Fpin|]. split.
          -- intros Hpin. destruct (Fdeps Hpin) as [A B]. split; [exact A|]. intros dd Hd.
             destruct (B dd Hd) as (s' & e'' & D1 & D2). exists s', e''. split; [|exact D2].
             eapply (tdates_stable p); [apply splace_sext; exact Hunpl1|]. eapply (tdates_stable p); eassumption.
          -- intros s s2 Hs Hs2 (r & Hr & H1) H2. fold slot0 in Hs.
             apply (TReason_mono st1); [apply TGrows_place|]. apply (A5 s s2 Hs Hs2).
             ++ exists r. split; [exact Hr|]. rewrite (Hfresh r s2). exact H1.
             ++ intros r' Hr'. rewrite (Hfresh r' s). now apply H2.
        * rewrite tleaf_place_other in Hu by exact Hne.
          apply (TNoIdle_stable st1); [now apply splace_sext|apply TGrows_place|reflexivity|eapply Hold; eassumption].
      + split; [exact A1|]. intros u f e Hu Hm. eapply Hold; try eassumption.
        intros ->. unfold sleaf_dates in *. rewrite Hpl in Hu. congruence.
  Qed.

  Lemma tloop_K : forall fuel work st, TInv p st -> TJ p st work -> TK st -> TK (tloop p fuel work st).
  Proof.
    induction fuel as [|fuel IH]; intros work st Hi HJ HK; cbn [tloop]; [exact HK|].
    destruct (tpick p st work) as [[t rest]|] eqn:E; [|exact HK].
    apply (IH rest); [now apply (tschedule_task_inv p Hwf)|eapply (tstep_TJ p Hwf); eassumption|eapply tstep_K; eassumption].
  Qed.

  (* C08 (seconds, teams with limits): for a placed task with work there is a bound b (its own start if pinned, otherwise no
     earlier than the inherited start and than every predecessor's end (start) plus gap) such that for every slot from
     the slot of b up to the last slot the team booked, in which no member has an entry of the task, some member r of the
     team is - in the FINAL ledger - off, or full (less than 1e-6 s left), or closed by a limit whose count for that
     period, together with the tentative bookings of the members before r, has reached its value *)
  Theorem team_no_idle t f e : sleaf_dates (tschedule p) t = Some (f, e) -> tt_mile (ttask_of p t) = false ->
    TNoIdle (tschedule p) t.
  Proof.
    intros Ht Hm. unfold tschedule in *. cbn zeta in *.
    set (work := filter (fun t => match sleaf_dates (tprepass p) t with Some _ => false | None => true end) (tsorted_leaves p)) in *.
    assert (HK : TK (tprepass p)).
    { destruct (tprepass_booked p) as [_ Hc]. split.
      - intros r s. rewrite Hc. constructor.
      - intros u f' e' Hu Hmu. exfalso.
        destruct (tprepass_dates p (seq 0 (length (tp_tasks p))) sinit (seq_NoDup _ _) (fun _ _ => eq_refl) u _ Hu)
          as [Hi0|(s & _ & _ & Hmm)]; [discriminate|congruence]. }
    destruct (tloop_K (length work) work _ (tprepass_inv p Hwf) (tprepass_TJ p) HK) as [_ Hall].
    exact (Hall t f e Ht Hm).
  Qed.
End TeamIdle.
