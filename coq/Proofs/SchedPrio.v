(* C09: appending a strictly lowest-priority task on which nothing depends leaves the dates of
   every other task unchanged (scheduler model, every project, horizon unchanged by hypothesis). *)
From Coq Require Import List Bool Arith ZArith Lia.
Require Import SP.Model.Sched SP.Proofs.SchedInv SP.Proofs.SchedWalk SP.Proofs.SchedMain SP.Proofs.SchedFinal.
Import ListNotations.

Section Prio.
  Variables (p : project) (x : task).
  Let n := length (p_tasks p).
  Definition extend : project :=
    {| p_tasks := p_tasks p ++ [x]; p_res := p_res p; p_limits := p_limits p; p_upper := p_upper p |}.
  Local Notation p' := extend.

  Hypothesis Hleaf : t_leaf x = true.
  Hypothesis Hprio : forall t, t < n -> (t_prio x < t_prio (task_of p t))%Z.
  Hypothesis Hnodep : forall t d, t < n -> In d (t_deps (task_of p t)) -> d_task d <> n.
  Hypothesis Hnocont : forall t, t < n -> ~ In n (t_leaves (task_of p t)).

  (* ---- the two projects agree on every task but the new one *)
  Lemma task_other t : t <> n -> task_of p' t = task_of p t.
  Proof.
    intros Hne. unfold task_of, p', extend; cbn [p_tasks]. fold n.
    destruct (Nat.lt_ge_cases t n) as [Hlt|Hge].
    - now apply app_nth1.
    - rewrite app_nth2 by exact Hge. rewrite (nth_overflow (p_tasks p)) by exact Hge.
      apply nth_overflow. cbn. fold n. lia.
  Qed.

  Lemma task_new : task_of p' n = x.
  Proof. unfold task_of, p', extend; cbn [p_tasks]. unfold n. rewrite app_nth2 by lia. now rewrite Nat.sub_diag. Qed.

  Lemma deps_other t d : t <> n -> In d (t_deps (task_of p t)) -> d_task d <> n.
  Proof.
    intros Hne Hd. destruct (Nat.lt_ge_cases t n) as [Hlt|Hge]; [now apply (Hnodep t)|].
    unfold task_of in Hd. rewrite nth_overflow in Hd by (fold n; lia). destruct Hd.
  Qed.

  Lemma leaves_other t : t <> n -> ~ In n (t_leaves (task_of p t)).
  Proof.
    intros Hne. destruct (Nat.lt_ge_cases t n) as [Hlt|Hge]; [now apply Hnocont|].
    unfold task_of. rewrite nth_overflow by (fold n; lia). intros [].
  Qed.

  (* ---- states that agree on everything but the new task *)
  Definition agree (st st' : state) : Prop := forall u, u <> n -> leaf_dates st' u = leaf_dates st u.

  Lemma span_agree st st' : agree st st' -> forall ls, ~ In n ls -> span st' ls = span st ls.
  Proof.
    intros Ha. induction ls as [|t tl IH]; intros Hn; [reflexivity|].
    assert (Ht : t <> n) by (intros ->; apply Hn; now left).
    assert (Htl : ~ In n tl) by (intros H; apply Hn; now right).
    destruct tl as [|u tl].
    - cbn. now apply Ha.
    - change (span st' (t :: u :: tl)) with
        (match leaf_dates st' t, span st' (u :: tl) with
         | Some (s, e), Some (s', e') => Some (Nat.min s s', Nat.max e e') | _, _ => None end).
      change (span st (t :: u :: tl)) with
        (match leaf_dates st t, span st (u :: tl) with
         | Some (s, e), Some (s', e') => Some (Nat.min s s', Nat.max e e') | _, _ => None end).
      now rewrite (Ha t Ht), (IH Htl).
  Qed.

  Lemma dates_agree st st' u : agree st st' -> u <> n -> dates p' st' u = dates p st u.
  Proof.
    intros Ha Hu. unfold dates. rewrite (task_other u Hu).
    destruct (t_leaf (task_of p u)); [now apply Ha|]. apply span_agree; [exact Ha|now apply leaves_other].
  Qed.

  Lemma dep_time_agree st st' d : agree st st' -> d_task d <> n -> dep_time p' st' d = dep_time p st d.
  Proof. intros Ha Hd. unfold dep_time. now rewrite (dates_agree st st' _ Ha Hd). Qed.

  Lemma forallb_ext_in {A} (f g : A -> bool) l : (forall a, In a l -> f a = g a) -> forallb f l = forallb g l.
  Proof. induction l as [|a tl IH]; intros H; [reflexivity|]. cbn. rewrite H by now left. f_equal. apply IH. intros; apply H; now right. Qed.

  Lemma ready_agree st st' t : agree st st' -> t <> n -> ready p' st' t = ready p st t.
  Proof.
    intros Ha Ht. unfold ready. rewrite (task_other t Ht). apply forallb_ext_in.
    intros d Hd. now rewrite (dates_agree st st' _ Ha (deps_other t d Ht Hd)).
  Qed.

  Lemma fold_ext_in {A B} (f g : A -> B -> A) l : (forall a b, In b l -> f a b = g a b) -> forall acc, fold_left f l acc = fold_left g l acc.
  Proof. induction l as [|b tl IH]; intros H acc; [reflexivity|]. cbn. rewrite H by now left. apply IH. intros; apply H; now right. Qed.

  Lemma bound_agree st st' t : agree st st' -> t <> n -> bound p' st' t = bound p st t.
  Proof.
    intros Ha Ht. unfold bound. rewrite (task_other t Ht). destruct (t_pin (task_of p t)); [reflexivity|].
    apply fold_ext_in. intros acc d Hd. now rewrite (dep_time_agree st st' d Ha (deps_other t d Ht Hd)).
  Qed.

  (* ---- bookings: equal histories that do not mention the new task *)
  Definition clean (st : state) : Prop := forall b, In b (bookings st) -> b_task b <> n.

  Lemma counts_same l b : b_task b <> n -> counts p' l b = counts p l b.
  Proof. intros Hb. unfold counts. now rewrite (task_other _ Hb). Qed.

  Lemma usage_same st st' l k : bookings st' = bookings st -> clean st -> usage p' st' l k = usage p st l k.
  Proof.
    intros Hb Hc. unfold usage. rewrite Hb. f_equal. apply filter_ext_in. intros b Hin.
    now rewrite (counts_same l b (Hc b Hin)).
  Qed.

  Lemma can_book_same st st' t r s : bookings st' = bookings st -> clean st -> t <> n ->
    can_book p' st' t r s = can_book p st t r s.
  Proof.
    intros Hb Hc Ht. unfold can_book, booked, limits_of. rewrite Hb, (task_other t Ht). f_equal.
    apply forallb_ext_in. intros l _. unfold limit_ok. now rewrite (usage_same st st' l _ Hb Hc).
  Qed.

  (* related states: same bookings (none for n), same placements except for n *)
  Definition rel (st st' : state) : Prop := bookings st' = bookings st /\ clean st /\ agree st st'.

  Lemma add_rel st st' t r s : rel st st' -> t <> n -> rel (add st t r s) (add st' t r s).
  Proof.
    intros (A & B & C) Ht. split; [cbn; now rewrite A|]. split; [|exact C].
    intros b [<-|Hb]; [exact Ht|now apply B].
  Qed.

  Lemma book_team_rel t s : t <> n -> forall team st st', rel st st' ->
    match book_team p st t s team, book_team p' st' t s team with
    | Some a, Some a' => rel a a'
    | None, None => True
    | _, _ => False
    end.
  Proof.
    intros Ht. induction team as [|r tl IH]; intros st st' Hr; cbn; [exact Hr|].
    destruct Hr as (A & B & C). rewrite (can_book_same st st' t r s A B Ht).
    destruct (can_book p st t r s); [|exact I]. apply IH. apply add_rel; [split; [exact A|split; assumption]|exact Ht].
  Qed.

  Lemma walk_rel t : t <> n -> forall fuel s need first st st', rel st st' ->
    let '(a, d) := walk p t fuel s need first st in
    let '(a', d') := walk p' t fuel s need first st' in
    d' = d /\ rel a a'.
  Proof.
    intros Ht. induction fuel as [|fuel IH]; intros s need first st st' Hr; cbn [walk]; [split; [reflexivity|exact Hr]|].
    rewrite (task_other t Ht).
    pose proof (book_team_rel t s Ht (t_team (task_of p t)) st st' Hr) as Hb.
    destruct (book_team p st t s (t_team (task_of p t))) as [a|];
      destruct (book_team p' st' t s (t_team (task_of p t))) as [a'|]; try contradiction.
    - destruct need as [|[|need]]; try (split; [reflexivity|exact Hb]). now apply IH.
    - now apply IH.
  Qed.

  Lemma place_rel st st' t d : rel st st' -> rel (place st t d) (place st' t d).
  Proof.
    intros (A & B & C). split; [exact A|]. split; [exact B|].
    intros u Hu. unfold leaf_dates, place; cbn. destruct (Nat.eqb u t); [reflexivity|now apply C].
  Qed.

  Lemma schedule_task_rel st st' t : rel st st' -> t <> n ->
    rel (schedule_task p st t) (schedule_task p' st' t).
  Proof.
    intros Hr Ht. unfold schedule_task. rewrite (bound_agree st st' t (proj2 (proj2 Hr)) Ht), (task_other t Ht).
    change (p_upper p') with (p_upper p).
    destruct (p_upper p <? bound p st t); [exact Hr|].
    destruct (t_need (task_of p t)) as [|nd]; [now apply place_rel|].
    destruct (t_team (task_of p t)) as [|r0 tm] eqn:Et; [exact Hr|].
    pose proof (walk_rel t Ht (S (p_upper p) - bound p st t) (bound p st t) (S nd) None st st' Hr) as Hw.
    destruct (walk p t _ _ (S nd) None st) as [a d]. destruct (walk p' t _ _ (S nd) None st') as [a' d'].
    destruct Hw as [-> Ha]. destruct d as [d|]; [now apply place_rel|exact Ha].
  Qed.

  (* ---- the work list: the new task is last *)
  Lemma insert_same t : t < n -> forall l, (forall u, In u l -> u < n) -> insert p' t l = insert p t l.
  Proof.
    intros Ht. induction l as [|u tl IH]; intros Hl; [reflexivity|]. cbn [insert].
    assert (Hu : u < n) by (apply Hl; now left).
    rewrite !(task_other u ltac:(lia)), !(task_other t ltac:(lia)).
    destruct (t_prio (task_of p u) <? t_prio (task_of p t))%Z; [reflexivity|]. f_equal. apply IH. intros; apply Hl; now right.
  Qed.

  Lemma insert_last : forall l, (forall u, In u l -> u < n) -> insert p' n l = l ++ [n].
  Proof.
    induction l as [|u tl IH]; intros Hl; [reflexivity|]. cbn [insert app].
    assert (Hu : u < n) by (apply Hl; now left).
    rewrite (task_other u ltac:(lia)), task_new.
    destruct (Z.ltb_spec (t_prio (task_of p u)) (t_prio x)) as [H|H]; [pose proof (Hprio u Hu); lia|].
    f_equal. apply IH. intros; apply Hl; now right.
  Qed.

  Definition ins (q : project) acc t := if t_leaf (task_of q t) then insert q t acc else acc.

  Lemma fold_ins_lt : forall m k acc, (forall u, In u acc -> u < k) ->
    forall u, In u (fold_left (ins p) (seq k m) acc) -> u < k + m.
  Proof.
    induction m as [|m IH]; intros k acc Ha u Hu; cbn [seq fold_left] in Hu; [specialize (Ha u Hu); lia|].
    apply IH in Hu; [lia|]. intros v Hv. unfold ins in Hv. destruct (t_leaf (task_of p k)).
    - apply insert_in in Hv as [->|Hv]; [lia|]. specialize (Ha v Hv). lia.
    - specialize (Ha v Hv). lia.
  Qed.

  Lemma fold_ins_same : forall m k acc, k + m <= n -> (forall u, In u acc -> u < k) ->
    fold_left (ins p') (seq k m) acc = fold_left (ins p) (seq k m) acc.
  Proof.
    induction m as [|m IH]; intros k acc Hk Ha; [reflexivity|]. cbn [seq fold_left].
    assert (E : ins p' acc k = ins p acc k).
    { unfold ins. rewrite (task_other k ltac:(lia)). destruct (t_leaf (task_of p k)); [|reflexivity].
      apply insert_same; [lia|]. intros u Hu. specialize (Ha u Hu). lia. }
    rewrite E. apply IH; [lia|]. intros u Hu. unfold ins in Hu. destruct (t_leaf (task_of p k)).
    - apply insert_in in Hu as [->|Hu]; [lia|]. specialize (Ha u Hu). lia.
    - specialize (Ha u Hu). lia.
  Qed.

  Lemma sorted_leaves_extend : sorted_leaves p' = sorted_leaves p ++ [n].
  Proof.
    unfold sorted_leaves. change (length (p_tasks p')) with (length (p_tasks p ++ [x])).
    rewrite app_length. cbn [length]. fold n. replace (n + 1) with (S n) by lia.
    rewrite seq_S, fold_left_app. cbn [fold_left].
    change (fun acc t => if t_leaf (task_of p' t) then insert p' t acc else acc) with (ins p').
    change (fun acc t => if t_leaf (task_of p t) then insert p t acc else acc) with (ins p).
    change (0 + n) with n.
    rewrite (fold_ins_same n 0 []) by (try lia; intros u []). rewrite task_new, Hleaf.
    apply insert_last. intros u Hu. apply (fold_ins_lt n 0 []) in Hu; [lia|intros v []].
  Qed.

  Lemma sorted_leaves_lt u : In u (sorted_leaves p) -> u < n.
  Proof. intros Hu. unfold sorted_leaves in Hu. apply (fold_ins_lt n 0 []) in Hu; [lia|intros v []]. Qed.

  (* ---- the pre-pass *)
  Lemma pre_step_rel st st' t : rel st st' -> t <> n -> rel (pre_step p st t) (pre_step p' st' t).
  Proof.
    intros Hr Ht. unfold pre_step. cbn zeta. rewrite (task_other t Ht). change (p_upper p') with (p_upper p).
    destruct (t_leaf (task_of p t) && Nat.eqb (t_need (task_of p t)) 0); [|exact Hr].
    destruct (t_pin (task_of p t)) as [s|]; [|exact Hr]. destruct (s <=? p_upper p); [now apply place_rel|exact Hr].
  Qed.

  Lemma pre_step_new st st' : rel st st' -> rel st (pre_step p' st' n).
  Proof.
    intros (A & B & C). unfold pre_step. cbn zeta.
    destruct (t_leaf (task_of p' n) && Nat.eqb (t_need (task_of p' n)) 0); [|split; [exact A|split; assumption]].
    destruct (t_pin (task_of p' n)) as [s|]; [|split; [exact A|split; assumption]].
    destruct (s <=? p_upper p'); [|split; [exact A|split; assumption]].
    split; [exact A|]. split; [exact B|]. intros u Hu. rewrite leaf_dates_place_other by exact Hu. now apply C.
  Qed.

  Lemma prepass_rel : rel (prepass p) (prepass p').
  Proof.
    change (prepass p) with (fold_left (pre_step p) (seq 0 (length (p_tasks p))) init).
    change (prepass p') with (fold_left (pre_step p') (seq 0 (length (p_tasks p'))) init).
    change (length (p_tasks p')) with (length (p_tasks p ++ [x])). rewrite app_length. cbn [length]. fold n.
    replace (n + 1) with (S n) by lia. rewrite seq_S, fold_left_app. cbn [fold_left]. change (0 + n) with n.
    assert (G : forall l st st', rel st st' -> (forall t, In t l -> t <> n) ->
                rel (fold_left (pre_step p) l st) (fold_left (pre_step p') l st')).
    { induction l as [|t tl IH]; intros st st' Hr Hl; [exact Hr|]. cbn [fold_left]. apply IH.
      - apply pre_step_rel; [exact Hr|apply Hl; now left].
      - intros; apply Hl; now right. }
    assert (H0 : rel (fold_left (pre_step p) (seq 0 n) init) (fold_left (pre_step p') (seq 0 n) init)).
    { apply G; [split; [reflexivity|split; [intros b []|intros u _; reflexivity]]|].
      intros t Ht. apply in_seq in Ht. lia. }
    now apply pre_step_new.
  Qed.

  (* ---- picking *)
  Lemma pick_app st st' xs : agree st st' -> forall work, (forall t, In t work -> t <> n) ->
    pick p' st' (work ++ xs) =
    match pick p st work with
    | Some (t, rest) => Some (t, rest ++ xs)
    | None => match pick p' st' xs with Some (u, r) => Some (u, work ++ r) | None => None end
    end.
  Proof.
    intros Ha. induction work as [|t tl IH]; intros Hw; cbn [app pick].
    - destruct (pick p' st' xs) as [[u r]|]; reflexivity.
    - rewrite (ready_agree st st' t Ha (Hw t (or_introl eq_refl))).
      destruct (ready p st t); [reflexivity|]. rewrite IH by (intros; apply Hw; now right).
      destruct (pick p st tl) as [[u r]|]; [reflexivity|]. destruct (pick p' st' xs) as [[u r]|]; reflexivity.
  Qed.

  Lemma pick_none_ready q st : forall work, pick q st work = None <-> forall t, In t work -> ready q st t = false.
  Proof.
    induction work as [|t tl IH]; cbn; [split; [intros _ t []|reflexivity]|].
    destruct (ready q st t) eqn:E.
    - split; [discriminate|]. intros H. specialize (H t (or_introl eq_refl)). congruence.
    - destruct (pick q st tl) as [[u r]|].
      + split; [discriminate|]. intros H. assert (Some (u, r) = None) by (apply IH; intros; apply H; now right). discriminate.
      + split; [|reflexivity]. intros _ v [<-|Hv]; [exact E|]. now apply (proj1 IH).
  Qed.

  Lemma pick_length q st : forall work t rest, pick q st work = Some (t, rest) -> length work = S (length rest).
  Proof.
    induction work as [|u tl IH]; intros t rest H; cbn in H; [discriminate|].
    destruct (ready q st u); [injection H as <- <-; reflexivity|].
    destruct (pick q st tl) as [[v r]|] eqn:E; [|discriminate]. injection H as <- <-. cbn. f_equal. eapply IH. reflexivity.
  Qed.

  Lemma pick_sub q st : forall work t rest, pick q st work = Some (t, rest) -> In t work /\ forall u, In u rest -> In u work.
  Proof.
    induction work as [|u tl IH]; intros t rest H; cbn in H; [discriminate|].
    destruct (ready q st u); [injection H as <- <-; split; [now left|intros; now right]|].
    destruct (pick q st tl) as [[v r]|] eqn:E; [|discriminate]. injection H as <- <-.
    destruct (IH _ _ eq_refl) as [A B]. split; [now right|]. intros w [<-|Hw]; [now left|right; now apply B].
  Qed.

  (* placing the new task changes nobody else's dates *)
  Lemma schedule_task_agree q st t u : u <> t -> leaf_dates (schedule_task q st t) u = leaf_dates st u.
  Proof.
    intros Hu. unfold schedule_task. destruct (p_upper q <? bound q st t); [reflexivity|].
    destruct (t_need (task_of q t)) as [|nd]; [now apply leaf_dates_place_other|].
    destruct (t_team (task_of q t)) as [|r0 tm] eqn:Et; [reflexivity|].
    destruct (walk q t _ _ (S nd) None st) as [a d] eqn:Ew.
    assert (Hteam : t_team (task_of q t) <> []) by (rewrite Et; discriminate).
    destruct (walk_spec q t _ _ _ _ _ _ _ Hteam Ew) as (new & _ & N2 & _).
    destruct d as [d|].
    - rewrite leaf_dates_place_other by exact Hu. unfold leaf_dates. now rewrite N2.
    - unfold leaf_dates. now rewrite N2.
  Qed.

  (* ---- the simulation *)
  Lemma loop_sim : forall fuel work st st' xs,
    rel st st' -> (forall t, In t work -> t <> n) -> length work = fuel -> (xs = [] \/ xs = [n]) ->
    forall u, u <> n ->
      dates p' (loop p' (fuel + length xs) (work ++ xs) st') u = dates p (loop p fuel work st) u.
  Proof.
    induction fuel as [|fuel IH]; intros work st st' xs Hr Hw Hlen Hxs u Hu.
    - destruct work; [|discriminate]. cbn [app loop]. destruct Hxs as [->| ->]; cbn [length Nat.add loop app].
      + apply dates_agree; [exact (proj2 (proj2 Hr))|exact Hu].
      + cbn [pick]. destruct (ready p' st' n).
        * cbn [loop]. apply dates_agree; [|exact Hu].
          intros v Hv. rewrite schedule_task_agree by exact Hv. now apply (proj2 (proj2 Hr)).
        * apply dates_agree; [exact (proj2 (proj2 Hr))|exact Hu].
    - cbn [Nat.add loop]. rewrite (pick_app st st' xs (proj2 (proj2 Hr)) work Hw).
      destruct (pick p st work) as [[t rest]|] eqn:Ep.
      + destruct (pick_sub _ _ _ _ _ Ep) as [Hin Hsub].
        apply IH; try assumption.
        * apply schedule_task_rel; [exact Hr|now apply Hw].
        * intros v Hv. apply Hw. now apply Hsub.
        * apply pick_length in Ep. lia.
      + (* nothing of the old work is ready: the old run stops; the new one may still place the new task *)
        assert (Hnr : forall t, In t work -> ready p st t = false) by now apply pick_none_ready.
        destruct Hxs as [->| ->]; cbn [pick].
        * apply dates_agree; [exact (proj2 (proj2 Hr))|exact Hu].
        * destruct (ready p' st' n); [|apply dates_agree; [exact (proj2 (proj2 Hr))|exact Hu]].
          rewrite app_nil_r.
          set (st2 := schedule_task p' st' n).
          assert (Ha2 : agree st st2).
          { intros v Hv. unfold st2. rewrite schedule_task_agree by exact Hv. now apply (proj2 (proj2 Hr)). }
          assert (Hp2 : pick p' st2 work = None).
          { apply pick_none_ready. intros t Ht. rewrite (ready_agree st st2 t Ha2 (Hw t Ht)). now apply Hnr. }
          destruct (fuel + length [n]) as [|f2]; cbn [loop]; [|rewrite Hp2]; now apply dates_agree.
  Qed.

  Theorem lowest_priority_harmless u : u <> n -> dates p' (schedule p') u = dates p (schedule p) u.
  Proof.
    intros Hu. unfold schedule. cbn zeta. rewrite sorted_leaves_extend, filter_app.
    pose proof prepass_rel as Hr.
    set (keep q := fun t => match leaf_dates (prepass q) t with Some _ => false | None => true end).
    assert (Hf : filter (keep p') (sorted_leaves p) = filter (keep p) (sorted_leaves p)).
    { apply filter_ext_in. intros t Ht. unfold keep. apply sorted_leaves_lt in Ht.
      now rewrite (proj2 (proj2 Hr) t ltac:(lia)). }
    change (filter (fun t => match leaf_dates (prepass p') t with Some _ => false | None => true end) (sorted_leaves p))
      with (filter (keep p') (sorted_leaves p)).
    change (filter (fun t => match leaf_dates (prepass p') t with Some _ => false | None => true end) [n])
      with (filter (keep p') [n]).
    rewrite Hf. set (work := filter (keep p) (sorted_leaves p)). set (xs := filter (keep p') [n]).
    assert (Hxs : xs = [] \/ xs = [n]) by (unfold xs; cbn; destruct (keep p' n); auto).
    rewrite app_length. apply loop_sim; try assumption; try reflexivity.
    intros t Ht. unfold work in Ht. apply filter_In in Ht as [Ht _]. apply sorted_leaves_lt in Ht. lia.
  Qed.

End Prio.
