From Coq Require Import List Arith Bool Lia.
Require Import SP.Model.Attr.
Import ListNotations.

Section P.
  Context {Text Proj Res : Type}.
  Variable parse : Text -> option Proj.
  Variable sched : bool -> Proj -> Res.

  Lemma run_state_independent g1 g2 t : snd (run parse sched g1 t) = snd (run parse sched g2 t).
  Proof. unfold run. destruct (parse t); reflexivity. Qed.

  Theorem history_independent g h t :
    snd (run parse sched (after parse sched g h) t) = snd (run parse sched g t).
  Proof. apply run_state_independent. Qed.

  (* without the reset the claim is false as soon as the schedule depends on the stamp *)
  Lemma noreset_refuted pr t : parse t = Some pr -> sched true pr <> sched false pr ->
    exists g1 g2, snd (run_noreset parse sched g1 t) <> snd (run_noreset parse sched g2 t).
  Proof.
    intros Hp Hd. exists {| g_mode := 0; g_left := [] |}, {| g_mode := 2; g_left := [] |}.
    unfold run_noreset. rewrite Hp. cbn. intros H. injection H as H. contradiction.
  Qed.
End P.

(* a second schedule() is the identity *)
Lemma schedule_once_done {S} (step : nat -> S -> S) : forall l done st,
  (forall i, In i l -> In i done) ->
  fold_left (fun acc i => if existsb (Nat.eqb i) (fst acc) then acc else (i :: fst acc, step i (snd acc))) l (done, st) = (done, st).
Proof.
  induction l as [|i tl IH]; intros done st H; [reflexivity|]. cbn [fold_left fst].
  assert (existsb (Nat.eqb i) done = true).
  { apply existsb_exists. exists i. split; [apply H; now left|apply Nat.eqb_refl]. }
  rewrite H0. apply IH. intros j Hj. apply H. now right.
Qed.

Lemma schedule_once_covers {S} (step : nat -> S -> S) : forall l done st i,
  In i l \/ In i done ->
  In i (fst (fold_left (fun acc i => if existsb (Nat.eqb i) (fst acc) then acc else (i :: fst acc, step i (snd acc))) l (done, st))).
Proof.
  induction l as [|j tl IH]; intros done st i H; cbn [fold_left fst].
  - destruct H as [[]|H]; exact H.
  - destruct (existsb (Nat.eqb j) done) eqn:E.
    + apply IH. destruct H as [[<-|H]|H]; [right|now left|now right].
      apply existsb_exists in E as (x & Hx & Hxe). apply Nat.eqb_eq in Hxe. now subst.
    + cbn [fst snd]. apply IH. destruct H as [[<-|H]|H]; [right; now left|now left|right; now right].
Qed.

Theorem reschedule_identity {S} (step : nat -> S -> S) nsc st :
  let r := schedule_once step nsc [] st in
  schedule_once step nsc (fst r) (snd r) = r.
Proof.
  cbn zeta. unfold schedule_once.
  destruct (fold_left _ (seq 0 nsc) ([], st)) as [done st'] eqn:E. cbn [fst snd].
  apply schedule_once_done. intros i Hi.
  pose proof (schedule_once_covers step (seq 0 nsc) [] st i (or_introl Hi)) as H. now rewrite E in H.
Qed.
