(* The backward scheduler (Model/Alap.v) inherits every final-state theorem of the forward scheduler
   through the time mirror: slot s <-> n-1-s, boundary k <-> n-k. *)
From Coq Require Import List Bool Arith ZArith Lia.
Require Import SP.Model.Sched SP.Model.Alap SP.Proofs.SchedInv SP.Proofs.SchedWalk SP.Proofs.SchedMain SP.Proofs.SchedFinal SP.Proofs.SchedTeam.
Import ListNotations.

Section Alap.
  Variable p : project.
  Local Notation n := (p_upper p).
  Local Notation q := (mirror p).

  (* ------------------------------------------------------------ the mirrored project, field by field *)
  Lemma task_of_mirror t :
    (t < length (p_tasks p) /\ task_of q t = mirror_task n (task_of p t)) \/
    (length (p_tasks p) <= t /\ task_of q t = dtask /\ task_of p t = dtask).
  Proof.
    unfold task_of. cbn [mirror p_tasks]. destruct (Nat.lt_ge_cases t (length (p_tasks p))) as [H|H].
    - left. split; [exact H|]. rewrite (nth_indep _ dtask (mirror_task n dtask)) by (now rewrite map_length).
      apply map_nth.
    - right. split; [exact H|]. split; apply nth_overflow; [now rewrite map_length|exact H].
  Qed.

  Ltac mfield t := destruct (task_of_mirror t) as [[_ ->]|[_ [-> ->]]]; reflexivity.
  Lemma m_need t : t_need (task_of q t) = t_need (task_of p t). Proof. mfield t. Qed.
  Lemma m_team t : t_team (task_of q t) = t_team (task_of p t). Proof. mfield t. Qed.
  Lemma m_deps t : t_deps (task_of q t) = t_deps (task_of p t). Proof. mfield t. Qed.
  Lemma m_leaf t : t_leaf (task_of q t) = t_leaf (task_of p t). Proof. mfield t. Qed.
  Lemma m_leaves t : t_leaves (task_of q t) = t_leaves (task_of p t). Proof. mfield t. Qed.
  Lemma m_limits t : t_limits (task_of q t) = t_limits (task_of p t). Proof. mfield t. Qed.
  Lemma m_prio t : t_prio (task_of q t) = t_prio (task_of p t). Proof. mfield t. Qed.
  Lemma m_pin t : t_pin (task_of q t) = option_map (fun e => n - e) (t_pin (task_of p t)). Proof. mfield t. Qed.
  Lemma m_lb t : t < length (p_tasks p) -> t_lb (task_of q t) = n - t_lb (task_of p t).
  Proof. intros H. destruct (task_of_mirror t) as [[_ ->]|[H' _]]; [reflexivity|lia]. Qed.

  Lemma m_work r s : r_work (res_of q r) s = (s <? n) && r_work (res_of p r) (flip n s).
  Proof.
    unfold res_of. cbn [mirror p_res]. destruct (Nat.lt_ge_cases r (length (p_res p))) as [H|H].
    - rewrite (nth_indep _ dres (mirror_res n dres)) by (now rewrite map_length). now rewrite map_nth.
    - rewrite !nth_overflow by (try rewrite map_length; exact H). cbn. now rewrite andb_false_r.
  Qed.
  Lemma m_rlimits r : r_limits (res_of q r) = r_limits (res_of p r).
  Proof.
    unfold res_of. cbn [mirror p_res]. destruct (Nat.lt_ge_cases r (length (p_res p))) as [H|H].
    - rewrite (nth_indep _ dres (mirror_res n dres)) by (now rewrite map_length). now rewrite map_nth.
    - now rewrite !nth_overflow by (try rewrite map_length; exact H).
  Qed.
  Lemma lim_of_mirror l :
    l_value (lim_of q l) = l_value (lim_of p l) /\ l_only (lim_of q l) = l_only (lim_of p l) /\
    forall s, l_period (lim_of q l) s = l_period (lim_of p l) (flip n s).
  Proof.
    unfold lim_of. cbn [mirror p_limits]. destruct (Nat.lt_ge_cases l (length (p_limits p))) as [H|H].
    - rewrite (nth_indep _ dlim (mirror_lim n dlim)) by (now rewrite map_length). rewrite map_nth. repeat split.
    - rewrite !nth_overflow by (try rewrite map_length; exact H). repeat split.
  Qed.

  Lemma m_limits_of t r : limits_of q t r = limits_of p t r.
  Proof.
    unfold limits_of. rewrite m_rlimits, m_limits. f_equal. apply filter_ext. intros l.
    now rewrite (proj1 (proj2 (lim_of_mirror l))).
  Qed.

  Lemma flip_flip s : s < n -> flip n (flip n s) = s.
  Proof. unfold flip. lia. Qed.

  (* ------------------------------------------------------------ every mirrored date lies in 0 .. n *)
  Lemma mirrored_dates_in_horizon t f e : leaf_dates (aschedule p) t = Some (f, e) -> f <= e /\ e <= n.
  Proof.
    intros Ht. unfold aschedule in Ht. destruct (final_J q) as [rest HJ].
    destruct (j_good _ _ _ HJ t f e Ht) as [st0 b G1 G2 G3 G4 G5 G6 G7 G8 G9 G10].
    destruct (Nat.eq_dec (t_need (task_of q t)) 0) as [Hn|Hn].
    - destruct (G8 Hn) as [-> ->]. split; [lia|].
      destruct (t_pin (task_of q t)) as [s|] eqn:Ep.
      + rewrite (G4 s eq_refl). rewrite m_pin in Ep. destruct (t_pin (task_of p t)); [|discriminate].
        injection Ep as <-. lia.
      + destruct (G7 (or_introl eq_refl)) as [_ B]. exact B.
    - destruct (G9 Hn) as (A & B & C). split; [lia|].
      destruct (t_team (task_of q t)) as [|r tl] eqn:Et; [contradiction|].
      destruct (C r (or_introl eq_refl)) as [_ C2].
      pose proof (inv_work q _ (schedule_inv q) _ C2) as W. unfold mk in W. cbn [b_res b_slot] in W. rewrite m_work in W.
      apply andb_true_iff in W as [W _]. apply Nat.ltb_lt in W. lia.
  Qed.
  Lemma mirrored_slot_lt y : In y (bookings (aschedule p)) -> b_slot y < n /\ r_work (res_of p (b_res y)) (flip n (b_slot y)) = true.
  Proof.
    intros Hy. pose proof (inv_work q _ (schedule_inv q) _ Hy) as W. rewrite m_work in W.
    apply andb_true_iff in W as [W1 W2]. apply Nat.ltb_lt in W1. split; assumption.
  Qed.

  Lemma unflip_mk t r s : unflip_booking n (mk t r s) = mk t r (flip n s).
  Proof. reflexivity. Qed.

  Lemma in_alap t r s : In (mk t r s) (bookings (aschedule p)) -> In (mk t r (flip n s)) (alap_bookings p).
  Proof. intros H. unfold alap_bookings. apply in_map_iff. exists (mk t r s). split; [apply unflip_mk|exact H]. Qed.

  (* ------------------------------------------------------------ C04, backward *)
  Theorem alap_deps_respected t f e :
    alap_leaf_dates p t = Some (f, e) -> t_pin (task_of p t) = None -> t < length (p_tasks p) ->
    e <= t_lb (task_of p t) /\
    forall d, In d (t_deps (task_of p t)) ->
      exists s' e', alap_dates p (d_task d) = Some (s', e') /\ e + d_gap d <= (if d_onstart d then e' else s').
  Proof.
    unfold alap_leaf_dates, alap_dates. intros Ht Hpin Hlt.
    destruct (leaf_dates (aschedule p) t) as [[f' e']|] eqn:E; [|discriminate].
    cbn in Ht. injection Ht as <- <-.
    destruct (mirrored_dates_in_horizon _ _ _ E) as [H1 H2].
    assert (Hpin' : t_pin (task_of q t) = None) by (rewrite m_pin, Hpin; reflexivity).
    destruct (deps_respected q t f' e' E Hpin') as [A B].
    rewrite m_lb in A by exact Hlt. split; [lia|].
    intros d Hd. rewrite <- m_deps in Hd. destruct (B d Hd) as (s'' & e'' & D1 & D2).
    unfold final in D1. unfold aschedule. rewrite D1. cbn. exists (n - e''), (n - s''). split; [reflexivity|].
    destruct (d_onstart d); lia.
  Qed.

  (* ------------------------------------------------------------ C06, backward *)
  Theorem alap_frame t f e : alap_leaf_dates p t = Some (f, e) ->
    (t_need (task_of p t) = 0 -> f = e) /\
    (t_need (task_of p t) <> 0 ->
       f < e /\
       (forall r, In r (t_team (task_of p t)) -> In (mk t r f) (alap_bookings p) /\ In (mk t r (e - 1)) (alap_bookings p)) /\
       (forall x, In x (alap_bookings p) -> b_task x = t -> f <= b_slot x < e)).
  Proof.
    unfold alap_leaf_dates. intros Ht.
    destruct (leaf_dates (aschedule p) t) as [[f' e']|] eqn:E; [|discriminate].
    cbn in Ht. injection Ht as <- <-.
    destruct (mirrored_dates_in_horizon _ _ _ E) as [H1 H2].
    destruct (frame q t f' e' E) as [A B]. rewrite m_need in A, B. unfold final in B. split.
    - intros Hn. rewrite (A Hn). reflexivity.
    - intros Hn. destruct (B Hn) as (B1 & B2 & B3). rewrite m_team in B2. split; [lia|]. split.
      + intros r Hr. destruct (B2 r Hr) as [C1 C2]. split.
        * replace (n - e') with (flip n (e' - 1)) by (unfold flip; lia). now apply in_alap.
        * replace (n - f' - 1) with (flip n f') by (unfold flip; lia). now apply in_alap.
      + intros x Hx Hxt. unfold alap_bookings in Hx. apply in_map_iff in Hx as (y & <- & Hy).
        cbn in Hxt |- *. destruct (B3 y Hy Hxt). unfold flip. lia.
  Qed.

  (* ------------------------------------------------------------ C08, backward: latest fit *)
  Theorem alap_no_idle t r f e : alap_leaf_dates p t = Some (f, e) -> t_need (task_of p t) <> 0 ->
    t_team (task_of p t) = [r] -> limits_of p t r = [] ->
    exists dl, e <= dl /\ dl <= n /\
      (forall s, t_pin (task_of p t) = Some s -> s <= n -> dl = s) /\
      (t_pin (task_of p t) = None -> forall d, In d (t_deps (task_of p t)) ->
         exists s' e', alap_dates p (d_task d) = Some (s', e') /\ dl + d_gap d <= (if d_onstart d then e' else s')) /\
      forall x, f <= x -> x < dl ->
        In (mk t r x) (alap_bookings p) \/ r_work (res_of p r) x = false \/
        exists y, In y (alap_bookings p) /\ b_res y = r /\ b_slot y = x /\ b_task y <> t.
  Proof.
    unfold alap_leaf_dates, alap_dates. intros Ht Hn Hteam Hlim.
    destruct (leaf_dates (aschedule p) t) as [[f' e']|] eqn:E; [|discriminate].
    cbn in Ht. injection Ht as <- <-.
    destruct (mirrored_dates_in_horizon _ _ _ E) as [H1 H2].
    assert (Hn' : t_need (task_of q t) <> 0) by now rewrite m_need.
    assert (Ht' : t_team (task_of q t) = [r]) by now rewrite m_team.
    assert (Hl' : limits_of q t r = []) by now rewrite m_limits_of.
    destruct (frame q t f' e' E) as [_ Fr]. destruct (Fr Hn') as (Hlt & _ & _).
    destruct (no_idle q t r f' e' E Hn' Ht' Hl') as (b & Hb & Hpinb & Hdeps & Hslots). unfold final in *.
    exists (n - b). split; [lia|]. split; [lia|]. split; [|split].
    - intros s Hs Hsn. rewrite (Hpinb (n - s)); [lia|]. rewrite m_pin, Hs. reflexivity.
    - intros Hpin d Hd. rewrite <- m_deps in Hd.
      assert (Hpin' : t_pin (task_of q t) = None) by (rewrite m_pin, Hpin; reflexivity).
      destruct (Hdeps Hpin' d Hd) as (s'' & e'' & D1 & D2). unfold aschedule. rewrite D1. cbn.
      exists (n - e''), (n - s''). split; [reflexivity|]. destruct (d_onstart d); lia.
    - intros x Hx1 Hx2. assert (Hxn : x < n) by lia.
      assert (Hb1 : b <= flip n x) by (unfold flip; lia). assert (Hb2 : flip n x < e') by (unfold flip; lia).
      destruct (Hslots _ Hb1 Hb2) as [L|[L|(y & Y1 & Y2 & Y3 & Y4)]].
      + left. rewrite <- (flip_flip x Hxn). now apply in_alap.
      + right. left. rewrite m_work in L. rewrite flip_flip in L by exact Hxn.
        assert (Hf : (flip n x <? n) = true) by (apply Nat.ltb_lt; unfold flip; lia). rewrite Hf in L. exact L.
      + right. right. exists (unflip_booking n y). split; [unfold alap_bookings; now apply in_map|].
        cbn. split; [exact Y2|]. split; [rewrite Y3; now apply flip_flip|exact Y4].
  Qed.

  (* ------------------------------------------------------------ C02 / C11, backward *)
  Theorem alap_working b : In b (alap_bookings p) -> b_slot b < n /\ r_work (res_of p (b_res b)) (b_slot b) = true.
  Proof.
    unfold alap_bookings. intros Hb. apply in_map_iff in Hb as (y & <- & Hy).
    destruct (mirrored_slot_lt y Hy) as [A B]. cbn. split; [unfold flip; lia|exact B].
  Qed.

  Theorem alap_dates_in_horizon t f e : alap_leaf_dates p t = Some (f, e) -> f <= e /\ e <= n.
  Proof.
    unfold alap_leaf_dates. intros Ht. destruct (leaf_dates (aschedule p) t) as [[f' e']|] eqn:E; [|discriminate].
    cbn in Ht. injection Ht as <- <-. destruct (mirrored_dates_in_horizon _ _ _ E). lia.
  Qed.

  (* ------------------------------------------------------------ C01, backward *)
  Lemma NoDup_map_transfer {A B C : Type} (g : A -> B) (h : A -> C) : forall l,
    NoDup (map g l) -> (forall x y, In x l -> In y l -> h x = h y -> g x = g y) -> NoDup (map h l).
  Proof.
    induction l as [|a l IH]; intros Hd Hinj; cbn; [constructor|].
    cbn in Hd. inversion Hd as [|? ? Hna Hdl]; subst. constructor.
    - intros Hin. apply in_map_iff in Hin as (y & Hy1 & Hy2). apply Hna. apply in_map_iff. exists y. split; [|exact Hy2].
      apply Hinj; [now right|now left|exact Hy1].
    - apply IH; [exact Hdl|]. intros x y Hx Hy. apply Hinj; now right.
  Qed.

  Theorem alap_no_double_booking : NoDup (map key (alap_bookings p)).
  Proof.
    unfold alap_bookings. rewrite map_map.
    apply (NoDup_map_transfer key (fun x => key (unflip_booking n x))); [apply (inv_nodup q _ (schedule_inv q))|].
    intros x y Hx Hy H. unfold key in *. cbn in H. injection H as H1 H2.
    destruct (mirrored_slot_lt x Hx) as [Lx _]. destruct (mirrored_slot_lt y Hy) as [Ly _].
    f_equal; [exact H1|unfold flip in H2; lia].
  Qed.

  (* ------------------------------------------------------------ C05, backward *)
  Lemma filter_map_comm {A B : Type} (u : A -> B) (f : B -> bool) : forall l,
    filter f (map u l) = map u (filter (fun x => f (u x)) l).
  Proof. induction l as [|a l IH]; cbn; [reflexivity|]. destruct (f (u a)); cbn; now rewrite IH. Qed.

  Lemma m_counts l y : counts p l (unflip_booking n y) = counts q l y.
  Proof.
    unfold counts. cbn [unflip_booking b_res b_task]. rewrite m_rlimits, m_limits.
    now rewrite (proj1 (proj2 (lim_of_mirror l))).
  Qed.

  Lemma alap_usage_eq l k : usage p {| bookings := alap_bookings p; placed := [] |} l k = usage q (aschedule p) l k.
  Proof.
    unfold usage. cbn [bookings]. unfold alap_bookings. rewrite filter_map_comm, map_length.
    f_equal. apply filter_ext. intros y. cbn beta. rewrite m_counts. cbn [unflip_booking b_slot].
    now rewrite (proj2 (proj2 (lim_of_mirror l))).
  Qed.

  Theorem alap_limits l k : usage p {| bookings := alap_bookings p; placed := [] |} l k <= l_value (lim_of p l).
  Proof.
    rewrite alap_usage_eq, <- (proj1 (lim_of_mirror l)). apply (inv_limit q _ (schedule_inv q)).
  Qed.

  (* ------------------------------------------------------------ C08, backward, teams and limits *)
  Lemma m_team_count l t rs : team_count q l t rs = team_count p l t rs.
  Proof.
    unfold team_count. f_equal. apply filter_ext. intros r. rewrite <- m_counts. reflexivity.
  Qed.

  Theorem alap_no_idle_team t f e : alap_leaf_dates p t = Some (f, e) -> t_need (task_of p t) <> 0 ->
    NoDup (t_team (task_of p t)) ->
    exists dl, e <= dl /\ dl <= n /\
      (forall s, t_pin (task_of p t) = Some s -> s <= n -> dl = s) /\
      (t_pin (task_of p t) = None -> forall d, In d (t_deps (task_of p t)) ->
         exists s' e', alap_dates p (d_task d) = Some (s', e') /\ dl + d_gap d <= (if d_onstart d then e' else s')) /\
      forall x, f <= x -> x < dl ->
        (forall r, In r (t_team (task_of p t)) -> In (mk t r x) (alap_bookings p)) \/
        exists r, In r (t_team (task_of p t)) /\
          (r_work (res_of p r) x = false \/
           (exists y, In y (alap_bookings p) /\ b_res y = r /\ b_slot y = x /\ b_task y <> t) \/
           (exists l, In l (limits_of p t r) /\
              l_value (lim_of p l) <
              usage p {| bookings := alap_bookings p; placed := [] |} l (l_period (lim_of p l) x) + team_count p l t (t_team (task_of p t)))).
  Proof.
    unfold alap_leaf_dates, alap_dates. intros Ht Hn Hnd.
    destruct (leaf_dates (aschedule p) t) as [[f' e']|] eqn:E; [|discriminate].
    cbn in Ht. injection Ht as <- <-.
    destruct (mirrored_dates_in_horizon _ _ _ E) as [H1 H2].
    assert (Hn' : t_need (task_of q t) <> 0) by now rewrite m_need.
    assert (Hnd' : NoDup (t_team (task_of q t))) by now rewrite m_team.
    destruct (frame q t f' e' E) as [_ Fr]. destruct (Fr Hn') as (Hlt & _ & _).
    destruct (no_idle_team q t f' e' E Hn' Hnd') as (b & Hb & Hpinb & Hdeps & Hslots).
    exists (n - b). split; [lia|]. split; [lia|]. split; [|split].
    - intros s Hs Hsn. rewrite (Hpinb (n - s)); [lia|]. rewrite m_pin, Hs. reflexivity.
    - intros Hpin d Hd. rewrite <- m_deps in Hd.
      assert (Hpin' : t_pin (task_of q t) = None) by (rewrite m_pin, Hpin; reflexivity).
      destruct (Hdeps Hpin' d Hd) as (s'' & e'' & D1 & D2). unfold aschedule. rewrite D1. cbn.
      exists (n - e''), (n - s''). split; [reflexivity|]. destruct (d_onstart d); lia.
    - intros x Hx1 Hx2. assert (Hxn : x < n) by lia.
      assert (Hb1 : b <= flip n x) by (unfold flip; lia). assert (Hb2 : flip n x < e') by (unfold flip; lia).
      destruct (Hslots _ Hb1 Hb2) as [L|(r & Hr & [L|[(y & Y1 & Y2 & Y3 & Y4)|(l & Hl & Hu)]])].
      + left. intros r Hr. rewrite <- (flip_flip x Hxn). apply in_alap. apply L. now rewrite m_team.
      + right. exists r. rewrite m_team in Hr. split; [exact Hr|]. left.
        rewrite m_work in L. rewrite flip_flip in L by exact Hxn.
        assert (Hf : (flip n x <? n) = true) by (apply Nat.ltb_lt; unfold flip; lia). rewrite Hf in L. exact L.
      + right. exists r. rewrite m_team in Hr. split; [exact Hr|]. right. left.
        exists (unflip_booking n y). split; [unfold alap_bookings; now apply in_map|].
        cbn. split; [exact Y2|]. split; [rewrite Y3; now apply flip_flip|exact Y4].
      + right. exists r. rewrite m_team in Hr. split; [exact Hr|]. right. right.
        exists l. rewrite m_limits_of in Hl. split; [exact Hl|].
        rewrite alap_usage_eq. rewrite (proj1 (lim_of_mirror l)) in Hu.
        rewrite (proj2 (proj2 (lim_of_mirror l))), flip_flip in Hu by exact Hxn.
        rewrite m_team_count, m_team in Hu. exact Hu.
  Qed.
  (* ------------------------------------------------------------ C10, backward *)
  Theorem alap_container_summary c : t_leaf (task_of p c) = false -> t_leaves (task_of p c) <> [] ->
    (forall s e, alap_dates p c = Some (s, e) ->
       (forall t, In t (t_leaves (task_of p c)) -> exists d, alap_leaf_dates p t = Some d) /\
       (forall t s' e', In t (t_leaves (task_of p c)) -> alap_leaf_dates p t = Some (s', e') -> s <= s' /\ e' <= e) /\
       (exists t s' e', In t (t_leaves (task_of p c)) /\ alap_leaf_dates p t = Some (s', e') /\ s' = s) /\
       (exists t s' e', In t (t_leaves (task_of p c)) /\ alap_leaf_dates p t = Some (s', e') /\ e' = e)) /\
    (alap_dates p c = None -> exists t, In t (t_leaves (task_of p c)) /\ alap_leaf_dates p t = None).
  Proof.
    intros Hc Hne. rewrite <- m_leaf in Hc. rewrite <- m_leaves in Hne |- *.
    destruct (container_summary q c Hc Hne) as [A B]. unfold final in *. unfold alap_dates, alap_leaf_dates, aschedule. split.
    - intros s e H. destruct (dates q (schedule q) c) as [[s2 e2]|] eqn:E; [|discriminate]. cbn in H. injection H as <- <-.
      destruct (A s2 e2 eq_refl) as (A1 & A2 & (t3 & s3 & e3 & A31 & A32 & A33) & (t4 & s4 & e4 & A41 & A42 & A43)).
      split; [|split; [|split]].
      + intros t Ht. destruct (A1 t Ht) as [d Hd]. rewrite Hd. cbn. eauto.
      + intros t s' e' Ht H. destruct (leaf_dates (schedule q) t) as [[sl el]|] eqn:El; [|discriminate].
        cbn in H. injection H as <- <-. destruct (A2 t sl el Ht El). lia.
      + exists t4, (n - e4), (n - s4). split; [exact A41|]. rewrite A42. cbn. split; [reflexivity|lia].
      + exists t3, (n - e3), (n - s3). split; [exact A31|]. rewrite A32. cbn. split; [reflexivity|lia].
    - intros H. destruct (dates q (schedule q) c) eqn:E; [discriminate|]. destruct (B eq_refl) as (t & Ht & Hn).
      exists t. split; [exact Ht|]. now rewrite Hn.
  Qed.

  (* ------------------------------------------------------------ C03, backward *)
  Lemma unflip_block t s : map (unflip_booking n) (block q t s) = block p t (flip n s).
  Proof.
    unfold block. rewrite map_rev, map_map, m_team. f_equal.
  Qed.

  Theorem alap_exact_slots t f e : alap_leaf_dates p t = Some (f, e) -> t_need (task_of p t) <> 0 ->
    exists ss, length ss = t_need (task_of p t) /\
               filter (fun x => Nat.eqb (b_task x) t) (alap_bookings p) = concat (map (block p t) ss).
  Proof.
    unfold alap_leaf_dates. intros Ht Hn. destruct (leaf_dates (aschedule p) t) as [[f' e']|] eqn:E; [|discriminate].
    rewrite <- m_need in Hn. destruct (exact_slots q t f' e' E Hn) as (ss & S1 & S2). unfold final in S2.
    exists (map (flip n) ss). split; [now rewrite map_length, S1, m_need|].
    unfold alap_bookings, aschedule. rewrite filter_map_comm. cbn [unflip_booking b_task]. rewrite S2.
    rewrite concat_map, !map_map. f_equal. apply map_ext. intros s. apply unflip_block.
  Qed.
End Alap.

(* ------------------------------------------------------------ C09, backward *)
Require Import SP.Proofs.SchedPrio.

Lemma mirror_extend p x : mirror (extend p x) = extend (mirror p) (mirror_task (p_upper p) x).
Proof. unfold mirror, extend. cbn [p_tasks p_res p_limits p_upper]. now rewrite map_app. Qed.

(* appending a task with strictly the lowest priority that no task names among its successor edges (in real
   terms: the new task has no predecessor) and that lies in no container leaves every other task's dates
   unchanged; the new task itself may have any effort, team, limits, deadline and successors *)
Theorem alap_lowest_priority_harmless (p : project) (x : task) :
  t_leaf x = true ->
  (forall t, t < length (p_tasks p) -> (t_prio x < t_prio (task_of p t))%Z) ->
  (forall t d, t < length (p_tasks p) -> In d (t_deps (task_of p t)) -> d_task d <> length (p_tasks p)) ->
  (forall t, t < length (p_tasks p) -> ~ In (length (p_tasks p)) (t_leaves (task_of p t))) ->
  forall u, u <> length (p_tasks p) -> alap_dates (extend p x) u = alap_dates p u.
Proof.
  intros H1 H2 H3 H4 u Hu. unfold alap_dates, aschedule. rewrite mirror_extend.
  assert (L : length (p_tasks (mirror p)) = length (p_tasks p)) by (cbn; apply map_length).
  rewrite (lowest_priority_harmless (mirror p) (mirror_task (p_upper p) x)); [reflexivity| | | | |].
  - exact H1.
  - intros t Ht. rewrite L in Ht. rewrite m_prio. now apply H2.
  - intros t d Ht Hd. rewrite L in *. rewrite m_deps in Hd. now apply (H3 t).
  - intros t Ht. rewrite L in *. rewrite m_leaves. now apply H4.
  - now rewrite L.
Qed.
