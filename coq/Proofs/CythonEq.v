(* C13: every Cython twin equals its pure-Python fallback, for all arguments inside the range in
   which the C 'int' variables of the twin do not wrap (stated explicitly, hypothesis in_c_int). *)
From Coq Require Import ZArith List Bool Lia ZifyBool.
Require Import SP.Base.PyRt SP.Gen.ScoreboardCy SP.Gen.ScoreboardPy SP.Gen.TimeUtilsCy SP.Gen.ProjectPy
               SP.Proofs.ScoreboardAlg.
Import ListNotations.
Open Scope Z_scope.
Ltac Zify.zify_post_hook ::= Z.to_euclidean_division_equations.

Lemma sb_idxToDate_eq s e r size i f : in_c_int (i * r) ->
  Scoreboard_idxToDate_cy s e r size i f = Scoreboard_idxToDate_py s e r size i f.
Proof.
  intros H. unfold Scoreboard_idxToDate_cy, Scoreboard_idxToDate_py, idx_to_date_fast.
  rewrite c_int_id by assumption.
  destruct f; destruct (i <? 0) eqn:?; destruct (i >=? size) eqn:?; cbn; reflexivity.
Qed.

Lemma sb_dateToIdx_eq s e r size t f : in_c_int (py_trunc_div (t - s) r) ->
  Scoreboard_dateToIdx_cy s e r size t f = Scoreboard_dateToIdx_py s e r size t f.
Proof.
  intros H. unfold Scoreboard_dateToIdx_cy, Scoreboard_dateToIdx_py, date_to_idx_fast; cbn zeta.
  rewrite c_int_id by assumption. set (q := py_trunc_div (t - s) r).
  destruct f; destruct (q <? 0) eqn:?; destruct (q >=? size) eqn:?; cbn; try reflexivity; lia.
Qed.

Lemma prj_dateToIdx_eq s g t f : in_c_int (py_trunc_div (t - s) g) ->
  Project_dateToIdx_cy s g t f = Project_dateToIdx_py s g t f.
Proof.
  intros H. unfold Project_dateToIdx_cy, Project_dateToIdx_py, project_date_to_idx; cbn zeta.
  now rewrite c_int_id.
Qed.

Lemma prj_idxToDate_eq s g i : in_c_int (i * g) ->
  Project_idxToDate_cy s g i = Project_idxToDate_py s g i.
Proof.
  intros H. unfold Project_idxToDate_cy, Project_idxToDate_py, project_idx_to_date; cbn zeta.
  now rewrite c_int_id.
Qed.

Lemma prj_size_eq s e g : in_c_int (py_trunc_div (e - s) g) -> in_c_int (py_trunc_div (e - s) g + 1) ->
  scoreboard_size_cy s e g = Project_scoreboardSize_nosb s e g.
Proof.
  intros H1 H2. unfold scoreboard_size_cy, Project_scoreboardSize_nosb; cbn.
  now rewrite (c_int_id _ H1), (c_int_id _ H2).
Qed.

(* declared C return types: nothing narrower than the Python value *)
Lemma ret_ctypes_scoreboard :
  date_to_idx_fast_ret_ctype = 1%nat /\ idx_to_date_fast_ret_ctype = 0%nat /\
  collect_intervals_fast_ret_ctype = 0%nat /\ project_date_to_idx_ret_ctype = 1%nat /\
  project_idx_to_date_ret_ctype = 0%nat /\ scoreboard_size_cy_ret_ctype = 1%nat.
Proof. repeat split; reflexivity. Qed.
