(* The regenerated working-hours tests (Python and Cython) equal the declarative specification. *)
From Coq Require Import ZArith List Bool Lia ZifyBool.
Require Import SP.Base.PyRt SP.Gen.WorkingHoursCy SP.Gen.WorkingHoursPy SP.Spec.Hours SP.Proofs.ScoreboardAlg.
Import ListNotations.
Open Scope Z_scope.

Lemma list_truthy_existsb {A} (f : A -> bool) (l : list A) :
  (if list_truthy l then existsb f l else false) = existsb f l.
Proof. destruct l; reflexivity. Qed.

Theorem onShift_py_spec tbl dt :
  WorkingHours_onShift_local_py tbl dt = hours_spec tbl (dt_weekday dt) (minute_of_day dt).
Proof.
  unfold WorkingHours_onShift_local_py, hours_spec, minute_of_day, py_mod. cbn zeta.
  set (m := dt_hour dt * 60 + dt_minute dt). set (wd := dt_weekday dt).
  set (P := dict_get_list tbl ((wd - 1) mod 7)).
  assert (H2' : forall L,
      (fix loop2 (xsR : list interval) : bool :=
         match xsR with
         | [] => false
         | (start_h, start_m, (end_h, end_m)) :: tlR =>
             if (end_h * 60 + end_m <=? start_h * 60 + start_m) && (m <? end_h * 60 + end_m)
             then true else loop2 tlR
         end) L = existsb (next_day_hit m) L).
  { induction L as [|[[sh sm] [eh em]] tl IH]; [reflexivity|].
    cbn [existsb]. unfold next_day_hit at 1, iv_start, iv_end. cbn [fst snd].
    destruct ((eh * 60 + em <=? sh * 60 + sm) && (m <? eh * 60 + em)); [reflexivity|exact IH]. }
  assert (H2 : (if list_truthy P then
      (fix loop2 (xsR : list interval) : bool :=
         match xsR with
         | [] => false
         | (start_h, start_m, (end_h, end_m)) :: tlR =>
             if (end_h * 60 + end_m <=? start_h * 60 + start_m) && (m <? end_h * 60 + end_m)
             then true else loop2 tlR
         end) P else false) = existsb (next_day_hit m) P).
  { rewrite H2'. apply list_truthy_existsb. }
  generalize (dict_get_list tbl wd) as L.
  induction L as [|[[sh sm] [eh em]] tl IH].
  - cbn [existsb orb]. exact H2.
  - cbn [existsb]. unfold same_day_hit at 1, iv_start, iv_end. cbn [fst snd].
    destruct (eh * 60 + em <=? sh * 60 + sm).
    + destruct (m >=? sh * 60 + sm); [reflexivity|exact IH].
    + destruct ((sh * 60 + sm <=? m) && (m <? eh * 60 + em)); [reflexivity|exact IH].
Qed.

Section CyHours.
  Variable tbl : hours_table.
  Hypothesis Hsmall : table_small tbl.

  Lemma dict_get_list_small k x : In x (dict_get_list tbl k) -> iv_small x.
  Proof.
    unfold dict_get_list. intros Hin.
    assert (G : forall d, (forall k' l y, In (k', l) d -> In y l -> iv_small y) ->
                match dict_get d k with Some l => In x l | None => False end -> iv_small x).
    { induction d as [|[k' l] d IH]; cbn; [tauto|]. intros Hd. destruct (k =? k').
      - intros Hx. eapply Hd; [left; reflexivity|exact Hx].
      - apply IH. intros; eapply Hd; [right; eassumption|eassumption]. }
    apply (G tbl Hsmall). destruct (dict_get tbl k); [exact Hin|destruct Hin].
  Qed.

  Lemma cy_next_loop m P : (forall x, In x P -> iv_small x) ->
    (fix loop2 (xsR : list (Z * Z * (Z * Z))) : bool :=
       match xsR with
       | [] => false
       | intervals_item :: tlR =>
           if (c_int (c_int (fst (snd intervals_item)) * 60 + c_int (snd (snd intervals_item))) <=?
               c_int (c_int (fst (fst intervals_item)) * 60 + c_int (snd (fst intervals_item)))) &&
              (m <? c_int (c_int (fst (snd intervals_item)) * 60 + c_int (snd (snd intervals_item))))
           then true else loop2 tlR
       end) P = existsb (next_day_hit m) P.
  Proof.
    induction P as [|x tl IH]; intros Hs; [reflexivity|].
    cbn [existsb]. unfold next_day_hit at 1, iv_start, iv_end.
    destruct (Hs x (or_introl eq_refl)) as (H1 & H2 & H3 & H4).
    rewrite !(c_int_id (fst (snd x))), !(c_int_id (snd (snd x))), !(c_int_id (fst (fst x))), !(c_int_id (snd (fst x)))
      by (unfold in_c_int; lia).
    rewrite !c_int_id by (unfold in_c_int; lia).
    rewrite IH by (intros; apply Hs; now right).
    destruct ((fst (snd x) * 60 + snd (snd x) <=? fst (fst x) * 60 + snd (fst x)) && (m <? fst (snd x) * 60 + snd (snd x))); reflexivity.
  Qed.

  Theorem check_working_hours_fast_spec m wd : 0 <= wd <= 6 ->
    check_working_hours_fast m wd tbl true = hours_spec tbl wd m.
  Proof.
    intros Hwd. unfold check_working_hours_fast, hours_spec. cbn zeta.
    assert (Hrem : c_rem (wd + 6) 7 = (wd - 1) mod 7) by (unfold c_rem; lia).
    rewrite !Hrem. rewrite !(c_int_id ((wd - 1) mod 7)) by (unfold in_c_int; lia).
    set (P := dict_get_list tbl ((wd - 1) mod 7)).
    assert (HP : forall x, In x P -> iv_small x) by (intros x; apply dict_get_list_small).
    assert (Hmem : (if dict_mem tbl ((wd - 1) mod 7) then existsb (next_day_hit m) P else false)
                   = existsb (next_day_hit m) P).
    { unfold P, dict_mem, dict_get_list. destruct (dict_get tbl ((wd - 1) mod 7)); reflexivity. }
    rewrite !(cy_next_loop m P HP). cbn [negb]. rewrite !Hmem.
    destruct (dict_mem tbl wd) eqn:Hm; cbn [negb].
    - destruct (list_truthy (dict_get_list tbl wd)) eqn:Ht; cbn [negb].
      + assert (HL : forall x, In x (dict_get_list tbl wd) -> iv_small x) by (intros x; apply dict_get_list_small).
        revert HL. generalize (dict_get_list tbl wd) as L. clear Ht.
        induction L as [|x tl IH]; intros HL; [reflexivity|].
        cbn [existsb]. unfold same_day_hit at 1, iv_start, iv_end.
        destruct (HL x (or_introl eq_refl)) as (H1 & H2 & H3 & H4).
        rewrite !(c_int_id (fst (snd x))), !(c_int_id (snd (snd x))), !(c_int_id (fst (fst x))), !(c_int_id (snd (fst x)))
          by (unfold in_c_int; lia).
        rewrite !c_int_id by (unfold in_c_int; lia).
        rewrite IH by (intros; apply HL; now right).
        destruct (fst (snd x) * 60 + snd (snd x) <=? fst (fst x) * 60 + snd (fst x)).
        * destruct (m >=? fst (fst x) * 60 + snd (fst x)); reflexivity.
        * destruct ((fst (fst x) * 60 + snd (fst x) <=? m) && (m <? fst (snd x) * 60 + snd (snd x))); reflexivity.
      + destruct (dict_get_list tbl wd); [reflexivity|discriminate].
    - unfold dict_mem in Hm. unfold dict_get_list at 1. destruct (dict_get tbl wd); [discriminate|]. reflexivity.
  Qed.

  Theorem onShift_cy_eq_py dt :
    WorkingHours_onShift_local_cy tbl dt = WorkingHours_onShift_local_py tbl dt.
  Proof.
    rewrite onShift_py_spec. unfold WorkingHours_onShift_local_cy. cbn zeta.
    apply check_working_hours_fast_spec. unfold dt_weekday. pose proof (Z.mod_pos_bound (dt / 86400 + 3) 7). lia.
  Qed.

  (* daily minutes: both twins compute the same integral number of minutes; the value returned to
     the caller is that number / 60.0 in double precision on both sides iff the declared C return
     type is 'double' (obligation ret_ctype below) *)
  Lemma daily_py_loop l acc :
    (fix loop1 (xsR : list (Z * Z * (Z * Z))) (total_minutes : Z) {struct xsR} : Z :=
       match xsR with
       | [] => total_minutes
       | (start_h, start_m, (end_h, end_m)) :: tlR =>
           loop1 tlR (total_minutes + (end_h * 60 + end_m - (start_h * 60 + start_m)))
       end) l acc = fold_left (fun a x => a + (iv_end x - iv_start x)) l acc.
  Proof.
    revert acc. induction l as [|[[sh sm] [eh em]] tl IH]; intros acc; [reflexivity|].
    cbn [fold_left]. unfold iv_start at 2, iv_end at 2. cbn [fst snd]. apply IH.
  Qed.

  Theorem daily_minutes_cy_eq_py wd :
    (forall x, In x (dict_get_list tbl wd) -> iv_end x >= iv_start x) ->
    py_len (dict_get_list tbl wd) <= 1000 ->
    WorkingHours_get_daily_minutes_cy tbl wd = WorkingHours_get_daily_minutes_py tbl wd.
  Proof.
    intros Hord Hlen. unfold WorkingHours_get_daily_minutes_cy, WorkingHours_get_daily_minutes_py.
    destruct (dict_mem tbl wd); cbn [negb]; [|reflexivity]. cbn zeta.
    rewrite daily_py_loop. unfold calculate_daily_minutes_cy. cbn zeta. rewrite (c_int_id 0) by (unfold in_c_int; lia).
    assert (HL : forall x, In x (dict_get_list tbl wd) -> iv_small x) by (intros x; apply dict_get_list_small).
    revert HL Hord Hlen. generalize (dict_get_list tbl wd) as L.
    assert (G : forall L acc, (forall x, In x L -> iv_small x) -> (forall x, In x L -> iv_end x >= iv_start x) ->
                0 <= acc -> acc + Z.of_nat (length L) * 100000 <= 200000000 ->
       (fix loop1 (xsR : list (Z * Z * (Z * Z))) (total_minutes : Z) {struct xsR} : Z :=
          match xsR with
          | [] => total_minutes
          | intervals_item :: tlR =>
              loop1 tlR (c_int (total_minutes +
                (c_int (c_int (fst (snd intervals_item)) * 60 + c_int (snd (snd intervals_item))) -
                 c_int (c_int (fst (fst intervals_item)) * 60 + c_int (snd (fst intervals_item))))))
          end) L acc = fold_left (fun a x => a + (iv_end x - iv_start x)) L acc).
    { induction L as [|x tl IH]; intros acc Hs Ho Hacc Hbound; [reflexivity|].
      cbn [fold_left]. destruct (Hs x (or_introl eq_refl)) as (H1 & H2 & H3 & H4).
      pose proof (Ho x (or_introl eq_refl)) as Hox. unfold iv_start, iv_end in *.
      rewrite !(c_int_id (fst (snd x))), !(c_int_id (snd (snd x))), !(c_int_id (fst (fst x))), !(c_int_id (snd (fst x)))
        by (unfold in_c_int; lia).
      cbn [length] in Hbound.
      rewrite (c_int_id (fst (snd x) * 60 + snd (snd x))), (c_int_id (fst (fst x) * 60 + snd (fst x)))
        by (unfold in_c_int; lia).
      rewrite (c_int_id (acc + _)) by (unfold in_c_int; lia).
      apply IH; [intros; apply Hs; now right|intros; apply Ho; now right|lia|lia]. }
    intros L HL Hord Hlen. unfold py_len in Hlen. apply G; [exact HL|exact Hord|lia|lia].
  Qed.
End CyHours.

Lemma ret_ctypes_hours :
  check_working_hours_fast_ret_ctype = 2%nat /\ calculate_daily_minutes_cy_ret_ctype = 3%nat.
Proof. split; reflexivity. Qed.
