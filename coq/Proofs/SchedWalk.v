(* What one task placement does: the slot walk books only this task, from the dependency bound
   onward, takes the earliest eligible slots, and frames them with start/end (C04, C06, C07, C08). *)
From Coq Require Import List Bool Arith ZArith Lia.
Require Import SP.Model.Sched SP.Proofs.SchedInv.
Import ListNotations.

Section Walk.
  Variable p : project.

  (* st' is st plus later bookings / placements; nothing is withdrawn *)
  Definition extends (st st' : state) : Prop :=
    (exists new, bookings st' = new ++ bookings st) /\
    (exists newp, placed st' = newp ++ placed st).

  Lemma extends_refl st : extends st st.
  Proof. split; exists []; reflexivity. Qed.

  Lemma extends_trans a b c : extends a b -> extends b c -> extends a c.
  Proof.
    intros [[n1 H1] [m1 G1]] [[n2 H2] [m2 G2]]. split.
    - exists (n2 ++ n1). rewrite H2, H1. now rewrite app_assoc.
    - exists (m2 ++ m1). rewrite G2, G1. now rewrite app_assoc.
  Qed.

  Definition bext (a b : state) : Prop := exists n, bookings b = n ++ bookings a.
  Lemma bext_refl a : bext a a. Proof. exists []; reflexivity. Qed.
  Lemma bext_trans a b c : bext a b -> bext b c -> bext a c.
  Proof. intros [n1 H1] [n2 H2]. exists (n2 ++ n1). rewrite H2, H1. now rewrite app_assoc. Qed.

  Definition mk (t r s : nat) : booking := {| b_task := t; b_res := r; b_slot := s |}.

  (* ---- book_team *)
  Lemma book_team_spec t s : forall team st st',
    book_team p st t s team = Some st' ->
    bookings st' = rev (map (fun r => mk t r s) team) ++ bookings st /\ placed st' = placed st.
  Proof.
    induction team as [|r tl IH]; intros st st' H; cbn in H.
    - injection H as <-. split; reflexivity.
    - destruct (can_book p st t r s); [|discriminate].
      destruct (IH _ _ H) as [H1 H2]. cbn [add bookings placed] in *.
      split; [|exact H2]. rewrite H1. cbn [map rev]. rewrite <- app_assoc. reflexivity.
  Qed.

  Lemma book_team_first_fails t s r tl st :
    book_team p st t s (r :: tl) = None -> can_book p st t r s = true ->
    book_team p (add st t r s) t s tl = None.
  Proof. cbn. intros H E. now rewrite E in H. Qed.

  (* ---- the walk *)
  Definition new_ok (t s : nat) (new : list booking) : Prop :=
    forall b, In b new -> b_task b = t /\ s <= b_slot b /\ In (b_res b) (t_team (task_of p t)).

  Lemma walk_spec t : forall fuel s need first st st' d,
    t_team (task_of p t) <> [] ->
    walk p t fuel s need first st = (st', d) ->
    exists new,
      bookings st' = new ++ bookings st /\ placed st' = placed st /\ new_ok t s new /\
      (forall f e, d = Some (f, e) ->
         e <= s + fuel /\ s < e /\ (forall b, In b new -> b_slot b < e) /\
         (forall r, In r (t_team (task_of p t)) -> In (mk t r (e - 1)) new) /\
         match first with
         | Some f0 => f = f0
         | None => s <= f /\ f < e /\ (forall b, In b new -> f <= b_slot b) /\
                   (forall r, In r (t_team (task_of p t)) -> In (mk t r f) new)
         end) /\
      (* earliest fit: a slot that was passed over was not bookable for the team at that moment *)
      (forall x, s <= x -> x < match d with Some (_, e) => e | None => s + fuel end ->
         (forall r, In r (t_team (task_of p t)) -> In (mk t r x) new) \/
         (exists stx, bext st stx /\ bext stx st' /\ placed stx = placed st /\
                      (forall b, In b (bookings stx) -> In b (bookings st) \/ (b_task b = t /\ b_slot b < x)) /\
                      book_team p stx t x (t_team (task_of p t)) = None)).
  Proof.
    intros fuel. induction fuel as [|fuel IH]; intros s need first st st' d Hteam H; cbn in H.
    - injection H as <- <-. exists [].
      split; [reflexivity|split; [reflexivity|split; [intros b []|split; [intros f e Hd; discriminate|intros x Hx1 Hx2; lia]]]].
    - destruct (book_team p st t s (t_team (task_of p t))) as [st1|] eqn:E.
      + destruct (book_team_spec _ _ _ _ _ E) as [B1 B2].
        set (now := rev (map (fun r => mk t r s) (t_team (task_of p t)))) in *.
        assert (Hnow : forall b, In b now <-> exists r, In r (t_team (task_of p t)) /\ b = mk t r s).
        { intros b. unfold now. rewrite <- in_rev, in_map_iff. split; intros (r & A & B); exists r; auto. }
        assert (Hfin : forall f0, (need = 0 \/ need = 1) -> (st1, Some (f0, S s)) = (st', d) ->
                 match first with Some f => f | None => s end = f0 ->
                 exists new, bookings st' = new ++ bookings st /\ placed st' = placed st /\ new_ok t s new /\
                   (forall f e, d = Some (f, e) ->
                      e <= s + S fuel /\ s < e /\ (forall b, In b new -> b_slot b < e) /\
                      (forall r, In r (t_team (task_of p t)) -> In (mk t r (e - 1)) new) /\
                      match first with
                      | Some f1 => f = f1
                      | None => s <= f /\ f < e /\ (forall b, In b new -> f <= b_slot b) /\
                                (forall r, In r (t_team (task_of p t)) -> In (mk t r f) new)
                      end) /\
                   (forall x, s <= x -> x < match d with Some (_, e) => e | None => s + S fuel end ->
                      (forall r, In r (t_team (task_of p t)) -> In (mk t r x) new) \/
                      (exists stx, bext st stx /\ bext stx st' /\ placed stx = placed st /\
                         (forall b, In b (bookings stx) -> In b (bookings st) \/ (b_task b = t /\ b_slot b < x)) /\
                         book_team p stx t x (t_team (task_of p t)) = None))).
        { intros f0 _ Heq Hf0. injection Heq as <- <-. exists now. split; [exact B1|]. split; [exact B2|]. split.
          - intros b Hb. apply Hnow in Hb as (r & Hr & ->). cbn. repeat split; [lia|exact Hr].
          - split.
            + intros f e [= <- <-]. split; [lia|]. split; [lia|]. split.
              * intros b Hb. apply Hnow in Hb as (r & Hr & ->). cbn. lia.
              * split.
                -- intros r Hr. apply Hnow. exists r. split; [exact Hr|]. f_equal. lia.
                -- destruct first as [f1|]; [now symmetry|]. subst f0. split; [lia|]. split; [lia|]. split.
                   ++ intros b Hb. apply Hnow in Hb as (r & Hr & ->). cbn. lia.
                   ++ intros r Hr. apply Hnow. exists r. split; [exact Hr|reflexivity].
            + intros x Hx1 Hx2. assert (x = s) by lia. subst x. left.
              intros r Hr. apply Hnow. exists r. split; [exact Hr|reflexivity]. }
        destruct need as [|[|need]].
        * eapply Hfin; [left; reflexivity|exact H|reflexivity].
        * eapply Hfin; [right; reflexivity|exact H|reflexivity].
        * destruct (IH _ _ _ _ _ _ Hteam H) as (new & N1 & N2 & N3 & N4 & N5).
          exists (new ++ now). split; [rewrite N1, B1; now rewrite app_assoc|]. split; [congruence|]. split.
          -- intros b Hb. apply in_app_or in Hb as [Hb|Hb].
             ++ destruct (N3 b Hb) as (A & B & C). repeat split; [exact A|lia|exact C].
             ++ apply Hnow in Hb as (r & Hr & ->). cbn. repeat split; [lia|exact Hr].
          -- split.
             ++ intros f e Hd. destruct (N4 f e Hd) as (A & B & C & D & F). split; [lia|]. split; [lia|]. split.
                ** intros b Hb. apply in_app_or in Hb as [Hb|Hb]; [now apply C|].
                   apply Hnow in Hb as (r & Hr & ->). cbn. lia.
                ** split; [intros r Hr; apply in_or_app; left; now apply D|].
                   cbn in F. destruct first as [f1|]; [exact F|]. subst f. split; [lia|]. split; [lia|]. split.
                   --- intros b Hb. apply in_app_or in Hb as [Hb|Hb].
                       +++ destruct (N3 b Hb) as (_ & Q & _). lia.
                       +++ apply Hnow in Hb as (r & Hr & ->). cbn. lia.
                   --- intros r Hr. apply in_or_app. right. apply Hnow. exists r. split; [exact Hr|reflexivity].
             ++ intros x Hx1 Hx2. destruct (Nat.eq_dec x s) as [->|Hne].
                ** left. intros r Hr. apply in_or_app. right. apply Hnow. exists r. split; [exact Hr|reflexivity].
                ** assert (Hx3 : x < match d with Some (_, e) => e | None => S s + fuel end)
                     by (destruct d as [[? ?]|]; lia).
                   destruct (N5 x ltac:(lia) Hx3) as [L|(stx & X1 & X2 & XP & X3 & X4)].
                   --- left. intros r Hr. apply in_or_app. left. now apply L.
                   --- right. exists stx. split.
                       +++ eapply bext_trans; [|exact X1]. exists now; exact B1.
                       +++ split; [exact X2|]. split; [congruence|]. split; [|exact X4].
                           intros b Hb. destruct (X3 b Hb) as [Q|Q]; [|now right].
                           rewrite B1 in Q. apply in_app_or in Q as [Q|Q]; [|now left].
                           apply Hnow in Q as (r & Hr & ->). right. cbn. split; [reflexivity|lia].
      + destruct (IH _ _ _ _ _ _ Hteam H) as (new & N1 & N2 & N3 & N4 & N5).
        exists new. split; [exact N1|]. split; [exact N2|]. split.
        * intros b Hb. destruct (N3 b Hb) as (A & B & C). repeat split; [exact A|lia|exact C].
        * split.
          -- intros f e Hd. destruct (N4 f e Hd) as (A & B & C & D & F). split; [lia|]. split; [lia|]. split; [exact C|].
             split; [exact D|]. destruct first as [f1|]; [exact F|].
             destruct F as (F1 & F2 & F3 & F4). split; [lia|]. split; [exact F2|]. split; [exact F3|exact F4].
          -- intros x Hx1 Hx2. destruct (Nat.eq_dec x s) as [->|Hne].
             ++ right. exists st. split; [apply bext_refl|]. split; [exists new; exact N1|].
                split; [reflexivity|]. split; [intros b Hb; now left|exact E].
             ++ assert (Hx3 : x < match d with Some (_, e) => e | None => S s + fuel end)
                  by (destruct d as [[? ?]|]; lia).
                destruct (N5 x ltac:(lia) Hx3) as [L|(stx & X1 & X2 & XP & X3 & X4)]; [now left|].
                right. exists stx. split; [exact X1|]. split; [exact X2|]. split; [exact XP|]. split; [exact X3|exact X4].
  Qed.
End Walk.

(* the bookings added by a walk are whole-team blocks, one per booked slot, and a successful walk
   books exactly the requested number of slots (C03 at slot granularity) *)
Section Blocks.
  Variable p : project.

  Definition block (t s : nat) : list booking := rev (map (fun r => mk t r s) (t_team (task_of p t))).

  Lemma walk_blocks t : forall fuel s need first st st' d,
    walk p t fuel s need first st = (st', d) ->
    exists ss, bookings st' = concat (map (block t) ss) ++ bookings st /\
               (forall x, In x ss -> s <= x) /\
               (d <> None -> length ss = Nat.max 1 need).
  Proof.
    induction fuel as [|fuel IH]; intros s need first st st' d H; cbn in H.
    - injection H as <- <-. exists []. split; [reflexivity|]. split; [intros x []|intros Hd; congruence].
    - destruct (book_team p st t s (t_team (task_of p t))) as [st1|] eqn:E.
      + destruct (book_team_spec p _ _ _ _ _ E) as [B1 _].
        destruct need as [|[|need]].
        * injection H as <- <-. exists [s]. cbn. rewrite app_nil_r. split; [exact B1|]. split; [intros x [<-|[]]; lia|reflexivity].
        * injection H as <- <-. exists [s]. cbn. rewrite app_nil_r. split; [exact B1|]. split; [intros x [<-|[]]; lia|reflexivity].
        * destruct (IH _ _ _ _ _ _ H) as (ss & S1 & S2 & S3). exists (ss ++ [s]). split.
          -- rewrite S1, B1, map_app, concat_app. cbn. rewrite app_nil_r, <- app_assoc. reflexivity.
          -- split.
             ++ intros x Hx. apply in_app_or in Hx as [Hx|[<-|[]]]; [specialize (S2 _ Hx); lia|lia].
             ++ intros Hd. rewrite app_length, (S3 Hd). cbn. lia.
      + destruct (IH _ _ _ _ _ _ H) as (ss & S1 & S2 & S3). exists ss. split; [exact S1|]. split; [|exact S3].
        intros x Hx. specialize (S2 _ Hx). lia.
  Qed.
End Blocks.
