(* C14: moving the project start and every leave / vacation / holiday by whole weeks leaves the
   per-slot working table and the per-slot limit period table unchanged. *)
From Coq Require Import ZArith List Bool Lia ZifyBool.
Require Import SP.Base.PyRt SP.Spec.Hours SP.Gen.LimitsPy SP.Model.Calendar SP.Proofs.LimitsIdx.
Import ListNotations.
Open Scope Z_scope.
Ltac Zify.zify_post_hook ::= Z.to_euclidean_division_equations.

Lemma minute_of_day_shift t k : minute_of_day (t + 604800 * k) = minute_of_day t.
Proof. unfold minute_of_day. now rewrite hour_shift, minute_shift. Qed.

Lemma in_iv_shift t d iv : in_iv (t + d) (shift_iv d iv) = in_iv t iv.
Proof. unfold in_iv, shift_iv; cbn. lia. Qed.

Lemma working_at_shift tbl off t k :
  working_at tbl (map (shift_iv (604800 * k)) off) (t + 604800 * k) = working_at tbl off t.
Proof.
  unfold working_at. f_equal.
  - f_equal. induction off as [|iv tl IH]; [reflexivity|]. cbn [map existsb]. now rewrite in_iv_shift, IH.
  - destruct tbl as [tb|].
    + now rewrite weekday_shift, minute_of_day_shift.
    + unfold default_hours. now rewrite weekday_shift, hour_shift.
Qed.

Theorem work_table_shift tbl off start g upper k :
  work_table tbl (map (shift_iv (604800 * k)) off) (start + 604800 * k) g upper = work_table tbl off start g upper.
Proof.
  unfold work_table. apply map_ext. intros s. unfold slot_time.
  replace (start + 604800 * k + Z.of_nat s * g) with (start + Z.of_nat s * g + 604800 * k) by lia.
  apply working_at_shift.
Qed.

Theorem period_table_shift start g period upper k : period = 86400 \/ period = 604800 ->
  period_table (start + 604800 * k) g period upper = period_table start g period upper.
Proof. intros Hp. unfold period_table. apply map_ext. intros s. now apply idx_shift_weeks. Qed.
