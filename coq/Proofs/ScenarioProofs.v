From Coq Require Import List Arith Lia Bool.
Require Import SP.Model.Scenario.
Import ListNotations.

Section P.
  Context {V : Type}.
  Variable parent : nat -> option nat.
  Hypothesis parent_lt : forall i j, parent i = Some j -> j < i.

  (* a scenario without a value of its own has the value of its parent *)
  Lemma eff_same (ov : nat -> option V) base i j : ov i = None -> parent i = Some j ->
    eff parent ov base i i = eff parent ov base j j.
  Proof.
    intros Ho Hp. destruct i as [|i]; [apply parent_lt in Hp; lia|].
    cbn [eff]. rewrite Ho, Hp.
    (* eff with more fuel than needed *)
    assert (G : forall f1 f2 k, k <= f1 -> k <= f2 -> eff parent ov base f1 k = eff parent ov base f2 k).
    { induction f1 as [|f1 IH]; intros f2 k H1 H2.
      - assert (k = 0) by lia. subst. destruct f2; cbn; destruct (ov 0); try reflexivity;
          destruct (parent 0) as [q|] eqn:E; try reflexivity; apply parent_lt in E; lia.
      - destruct f2 as [|f2].
        + assert (k = 0) by lia. subst. cbn. destruct (ov 0); try reflexivity.
          destruct (parent 0) as [q|] eqn:E; try reflexivity. apply parent_lt in E; lia.
        + cbn. destruct (ov k); [reflexivity|]. destruct (parent k) as [q|] eqn:E; [|reflexivity].
          apply parent_lt in E. apply IH; lia. }
    apply G; [apply parent_lt in Hp; lia|lia].
  Qed.

  Lemma eff_root (ov : nat -> option V) base i : ov i = None -> parent i = None -> eff parent ov base i i = base.
  Proof. intros Ho Hp. destruct i; cbn; rewrite Ho, ?Hp; reflexivity. Qed.

  Lemma eff_own (ov : nat -> option V) base i v f : ov i = Some v -> eff parent ov base f i = v.
  Proof. intros H. destruct f; cbn; now rewrite H. Qed.

  (* an override written for scenario j is local: it can change scenario i only if i lies below j *)
  Lemma eff_local (ov : nat -> option V) base j v : forall f i,
    below parent f i j = false ->
    eff parent (fun k => if Nat.eqb k j then Some v else ov k) base f i = eff parent ov base f i.
  Proof.
    induction f as [|f IH]; intros i Hb; cbn in *.
    - apply orb_false_iff in Hb as [Hb _]. rewrite Hb. reflexivity.
    - apply orb_false_iff in Hb as [Hb1 Hb2]. rewrite Hb1. destruct (ov i); [reflexivity|].
      destruct (parent i) as [k|]; [|reflexivity]. now apply IH.
  Qed.
End P.

Lemma schedule_all_nth {P R} (sched : P -> R) vs i d : i < length vs ->
  nth i (schedule_all sched vs) (sched d) = sched (nth i vs d).
Proof. intros _. unfold schedule_all. apply map_nth. Qed.

Lemma schedule_all_add {P R} (sched : P -> R) vs v :
  schedule_all sched (vs ++ [v]) = schedule_all sched vs ++ [sched v].
Proof. unfold schedule_all. now rewrite map_app. Qed.
