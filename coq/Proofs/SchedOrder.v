(* C07: the order in which the list scheduler serves tasks. *)
From Coq Require Import List Arith ZArith Lia Sorted.
Require Import SP.Model.Sched.
Import ListNotations.

Section Order.
  Variable p : project.

  (* u is served before v: higher priority, or the same priority and declared earlier *)
  Definition before (u v : nat) : Prop :=
    (t_prio (task_of p v) < t_prio (task_of p u))%Z \/ (t_prio (task_of p u) = t_prio (task_of p v) /\ u < v).

  Lemma insert_in t : forall l x, In x (insert p t l) <-> x = t \/ In x l.
  Proof.
    induction l as [|u tl IH]; intros x; cbn; [intuition congruence|].
    destruct (t_prio (task_of p u) <? t_prio (task_of p t))%Z; cbn; [intuition congruence|]. rewrite IH. intuition congruence.
  Qed.

  Lemma insert_sorted t : forall l, StronglySorted before l -> (forall u, In u l -> u < t) -> StronglySorted before (insert p t l).
  Proof.
    induction l as [|u tl IH]; intros Hs Hlt; cbn; [constructor; [constructor|constructor]|].
    inversion Hs as [|? ? Htl Hall]; subst.
    destruct (Z.ltb_spec (t_prio (task_of p u)) (t_prio (task_of p t))) as [L|L].
    - constructor; [exact Hs|]. constructor; [left; exact L|].
      rewrite Forall_forall in Hall |- *. intros v Hv. specialize (Hall v Hv). left.
      destruct Hall as [A|[A _]]; lia.
    - constructor.
      + apply IH; [exact Htl|intros v Hv; apply Hlt; now right].
      + rewrite Forall_forall in Hall |- *. intros v Hv. apply insert_in in Hv as [->|Hv]; [|now apply Hall].
        assert (u < t) by (apply Hlt; now left).
        destruct (Z.eq_dec (t_prio (task_of p u)) (t_prio (task_of p t))) as [E|E]; [right; split; assumption|left; lia].
  Qed.

  (* the work list: exactly the leaf tasks, each once, by priority and, among equals, in declaration order *)
  Theorem sorted_leaves_spec :
    StronglySorted before (sorted_leaves p) /\ NoDup (sorted_leaves p) /\
    forall t, In t (sorted_leaves p) <-> t < length (p_tasks p) /\ t_leaf (task_of p t) = true.
  Proof.
    unfold sorted_leaves.
    assert (Gn : forall n k acc, StronglySorted before acc -> NoDup acc -> (forall x, In x acc -> x < k) ->
              let r := fold_left (fun acc t => if t_leaf (task_of p t) then insert p t acc else acc) (seq k n) acc in
              StronglySorted before r /\ NoDup r /\
              forall t, In t r <-> In t acc \/ (k <= t < k + n /\ t_leaf (task_of p t) = true)).
    { induction n as [|n IH]; intros k acc Hs Hd Hlt; cbn [seq fold_left].
      - split; [exact Hs|]. split; [exact Hd|]. intros t. split; [now left|]. intros [H|[H _]]; [exact H|lia].
      - destruct (t_leaf (task_of p k)) eqn:El.
        + destruct (IH (S k) (insert p k acc)) as (A & B & C).
          * now apply insert_sorted.
          * clear IH. revert Hd Hlt. clear. induction acc as [|u tl IHa]; intros Hd Hlt; cbn; [constructor; [intros []|constructor]|].
            destruct (t_prio (task_of p u) <? t_prio (task_of p k))%Z.
            -- constructor; [|exact Hd]. intros H. specialize (Hlt _ H). lia.
            -- inversion Hd; subst. constructor.
               ++ rewrite insert_in. intros [->|H]; [specialize (Hlt k (or_introl eq_refl)); lia|contradiction].
               ++ apply IHa; [assumption|intros x Hx; apply Hlt; now right].
          * intros x Hx. apply insert_in in Hx as [->|Hx]; [lia|]. specialize (Hlt _ Hx). lia.
          * split; [exact A|]. split; [exact B|]. intros t. rewrite C, insert_in. split.
            -- intros [[->|H]|[H1 H2]]; [right; split; [lia|exact El]|now left|right; split; [lia|exact H2]].
            -- intros [H|[H1 H2]]; [left; now right|]. destruct (Nat.eq_dec t k) as [->|Hne]; [left; now left|right; split; [lia|exact H2]].
        + destruct (IH (S k) acc Hs Hd) as (A & B & C); [intros x Hx; specialize (Hlt _ Hx); lia|].
          split; [exact A|]. split; [exact B|]. intros t. rewrite C. split.
          * intros [H|[H1 H2]]; [now left|right; split; [lia|exact H2]].
          * intros [H|[H1 H2]]; [now left|]. destruct (Nat.eq_dec t k) as [->|Hne]; [congruence|right; split; [lia|exact H2]]. }
    destruct (Gn (length (p_tasks p)) 0 [] (SSorted_nil _) (NoDup_nil _) (fun x H => match H with end)) as (A & B & C).
    split; [exact A|]. split; [exact B|]. intros t. rewrite C. cbn. split; [intros [[]|[H1 H2]]; split; [lia|exact H2]|intros [H1 H2]; right; split; [lia|exact H2]].
  Qed.

  (* pick: the first ready task of the work list; everything before it is not ready; the rest keeps its order *)
  Theorem pick_first_ready st : forall work t rest, pick p st work = Some (t, rest) ->
    exists pre post, work = pre ++ t :: post /\ rest = pre ++ post /\ ready p st t = true /\
                     forall u, In u pre -> ready p st u = false.
  Proof.
    induction work as [|u tl IH]; intros t rest H; cbn in H; [discriminate|].
    destruct (ready p st u) eqn:E.
    - injection H as <- <-. exists [], tl. repeat split; try assumption. intros ? [].
    - destruct (pick p st tl) as [[v rest']|] eqn:Ep; [|discriminate]. injection H as <- <-.
      destruct (IH _ _ eq_refl) as (pre & post & E1 & E2 & E3 & E4). exists (u :: pre), post. cbn. rewrite E1, E2.
      repeat split; try assumption. intros w [<-|Hw]; [exact E|now apply E4].
  Qed.
End Order.
