(* The pure-Python interval scanner (whole method, wrapper included) equals the maximal-runs
   specification, and so does the method with the Cython kernel. *)
From Coq Require Import ZArith List Bool Lia ZifyBool.
Require Import SP.Base.PyRt SP.Gen.ScoreboardCy SP.Gen.ScoreboardPy SP.Spec.Runs
               SP.Proofs.ScoreboardAlg SP.Proofs.CollectCy SP.Proofs.CythonEq.
Import ListNotations.
Open Scope Z_scope.

(* the scan parameters the wrapper derives from the query window *)
Definition scan_m (minDuration r : Z) : Z :=
  if py_trunc_div minDuration r <=? 0 then 1 else py_trunc_div minDuration r.
Definition scan_a (sI m : Z) : Z := if sI - m <? 0 then 0 else sI - m.
Definition scan_b (eI m size : Z) : Z := if eI + m >? size - 1 then size - 1 else eI + m.

Section Py.
  Context {V : Type}.
  Variables (sd ed r size : Z) (sb : list V) (pred : option V -> bool).
  Variables (a b sI eI m : Z).
  Hypothesis Ha : 0 <= a.
  Hypothesis Hab : a <= b + 1.
  Hypothesis Hb : b <= size - 1.
  Hypothesis HsI : 0 <= sI < size.
  Hypothesis HeI : 0 <= eI < size.

  Let p := pcy sb pred.

  Definition outp (idx d st : Z) : list (Z * Z) :=
    map (conv sd r) (map (clip sI eI) (filter (long_enough m)
      (runs (pvals p idx (Z.to_nat (b - idx))) idx (cur_of d st)))).

  Definition py_loop :=
    (fix loop1 (fuel_ : nat) (idx duration start : Z) (intervals : list (Z * Z)) {struct fuel_}
       : res (list (Z * Z)) :=
       match fuel_ with
       | O => Raise OutOfFuel
       | S fuelR =>
         if (idx <=? b) then (let val := (if (idx <? (py_len sb)) then (py_get sb idx) else None) in (if ((pred val) && (idx <? b)) then (let start := (if (duration =? 0) then (let start := idx in start) else start) in
      (let duration := (duration + 1) in (let idx := (idx + 1) in (loop1 fuelR idx duration start intervals)))) else (if (duration >? 0) then (if (duration >=? m) then (let start := (if (start <? sI) then (let start := sI in start) else start) in
      (let current_idx := idx in (let current_idx := (if (current_idx >? eI) then (let current_idx := eI in current_idx) else current_idx) in
      (tmp3 <- (Scoreboard_idxToDate_py sd ed r size start false) ;; (tmp4 <- (Scoreboard_idxToDate_py sd ed r size current_idx false) ;; (let intervals := intervals ++ [(tmp3, tmp4)] in (let duration := 0 in (let start := 0 in (let idx := (idx + 1) in (loop1 fuelR idx duration start intervals)))))))))) else (let duration := 0 in (let start := 0 in (let idx := (idx + 1) in (loop1 fuelR idx duration start intervals))))) else (let idx := (idx + 1) in (loop1 fuelR idx duration start intervals)))))
         else (Ok intervals)
       end).

  Lemma py_loop_spec : forall n idx d st acc,
      n = Z.to_nat (b - idx) -> a <= idx -> idx <= b + 1 -> (idx = b + 1 -> d = 0) ->
      0 <= d -> (d > 0 -> st = idx - d /\ a <= st) -> (d = 0 -> st = 0) ->
      py_loop (Z.to_nat (b + 2 - idx)) idx d st acc
      = Ok (acc ++ (if idx <=? b then outp idx d st else [])).
  Proof.
    induction n as [|n IH]; intros idx d st acc Hn Hai Hib Hend Hd Hst Hst0.
    - assert (Hc : idx = b \/ idx = b + 1) by lia. destruct Hc as [-> | ->].
      + replace (Z.to_nat (b + 2 - b)) with 2%nat by lia.
        cbn [py_loop]. replace (b <=? b) with true by lia. replace (b <? b) with false by lia.
        rewrite andb_false_r. cbn zeta.
        unfold outp. replace (Z.to_nat (b - b)) with 0%nat by lia. cbn [pvals runs].
        unfold cur_of. destruct (d >? 0) eqn:Hd0.
        * destruct Hst as [Hst Hast]; [lia|]. subst st.
          cbn [filter]. unfold long_enough at 1. cbn [fst snd].
          replace (b - (b - d) >=? m) with (d >=? m) by lia.
          destruct (d >=? m) eqn:Hm.
          -- rewrite !idxToDate_in_gen by (destruct (b - d <? sI) eqn:?; destruct (b >? eI) eqn:?; lia).
             cbn [bind]. replace (b + 1 <=? b) with false by lia.
             cbn [map]. rewrite conv_clip. reflexivity.
          -- replace (b + 1 <=? b) with false by lia. cbn. now rewrite app_nil_r.
        * replace (b + 1 <=? b) with false by lia. cbn. now rewrite app_nil_r.
      + replace (Z.to_nat (b + 2 - (b + 1))) with 1%nat by lia.
        cbn [py_loop]. replace (b + 1 <=? b) with false by lia. now rewrite app_nil_r.
    - assert (Hlt : idx < b) by lia.
      replace (Z.to_nat (b + 2 - idx)) with (S (Z.to_nat (b + 2 - (idx + 1)))) by lia.
      cbn [py_loop]. replace (idx <=? b) with true by lia. replace (idx <? b) with true by lia.
      rewrite andb_true_r. cbn zeta.
      unfold outp at 1. rewrite <- Hn, pvals_S.
      assert (Hn' : n = Z.to_nat (b - (idx + 1))) by lia.
      change (pred (if idx <? py_len sb then py_get sb idx else None)) with (p idx).
      destruct (p idx) eqn:Hpi.
      + cbn [runs]. destruct (d =? 0) eqn:Hd0.
        * assert (d = 0) by lia. subst d.
          rewrite (IH (idx + 1) (0 + 1) idx acc) by lia.
          replace (idx + 1 <=? b) with true by lia. unfold outp, cur_of. cbn.
          now rewrite <- Hn'.
        * destruct Hst as [Hst Hast]; [lia|]. subst st.
          rewrite (IH (idx + 1) (d + 1) (idx - d) acc) by lia.
          replace (idx + 1 <=? b) with true by lia. unfold outp, cur_of.
          replace (d >? 0) with true by lia. replace (d + 1 >? 0) with true by lia. now rewrite <- Hn'.
      + unfold cur_of. destruct (d >? 0) eqn:Hd0.
        * destruct Hst as [Hst Hast]; [lia|]. subst st. cbn [runs filter]. unfold long_enough at 1. cbn [fst snd].
          replace (idx - (idx - d) >=? m) with (d >=? m) by lia.
          destruct (d >=? m) eqn:Hm.
          -- rewrite !idxToDate_in_gen by (destruct (idx - d <? sI) eqn:?; destruct (idx >? eI) eqn:?; lia).
             cbn [bind].
             match goal with |- py_loop _ _ _ _ ?acc' = _ => rewrite (IH (idx + 1) 0 0 acc') by lia end.
             replace (idx + 1 <=? b) with true by lia. unfold outp, cur_of. cbn [map].
             replace (0 >? 0) with false by lia. rewrite <- Hn', <- app_assoc. f_equal. cbn [app].
             rewrite conv_clip. reflexivity.
          -- rewrite (IH (idx + 1) 0 0 acc) by lia.
             replace (idx + 1 <=? b) with true by lia. unfold outp, cur_of.
             replace (0 >? 0) with false by lia. now rewrite <- Hn'.
        * cbn [runs]. assert (d = 0) by lia. subst d. rewrite (Hst0 eq_refl).
          rewrite (IH (idx + 1) 0 0 acc) by lia.
          replace (idx + 1 <=? b) with true by lia. unfold outp, cur_of.
          replace (0 >? 0) with false by lia. now rewrite <- Hn'.
  Qed.
End Py.

(* ---- the whole method, both kernels ---- *)
Section Method.
  Context {V : Type}.
  Variables (sd ed r size : Z) (sb : list V) (pred : option V -> bool) (iv : Z * Z) (minDuration : Z).
  Variables (sI eI : Z).
  Hypothesis Hsize : 1 <= size.
  Hypothesis HsI : Scoreboard_dateToIdx_py sd ed r size (fst iv) true = Ok sI.
  Hypothesis HeI : Scoreboard_dateToIdx_py sd ed r size (snd iv) true = Ok eI.
  Hypothesis Hord : sI <= eI + 1.     (* the query window is not inverted by more than a slot *)

  Let m := scan_m minDuration r.
  Let a := scan_a sI m.
  Let b := scan_b eI m size.

  Theorem collectIntervals_py_spec :
    Scoreboard_collectIntervals_py sd ed r size sb iv minDuration pred
    = Ok (map (conv sd r) (scan_spec (pcy sb pred) a b sI eI m)).
  Proof.
    pose proof (dateToIdx_force_range _ _ _ _ _ _ Hsize HsI) as RsI.
    pose proof (dateToIdx_force_range _ _ _ _ _ _ Hsize HeI) as ReI.
    unfold Scoreboard_collectIntervals_py. rewrite HsI, HeI. cbn [bind]. cbn zeta.
    fold (scan_m minDuration r). fold m.
    assert (Hm : 1 <= m) by (unfold m, scan_m; destruct (py_trunc_div minDuration r <=? 0) eqn:?; lia).
    change (if sI - m <? 0 then 0 else sI - m) with (scan_a sI m). fold a.
    change (if eI + m >? size - 1 then size - 1 else eI + m) with (scan_b eI m size). fold b.
    assert (Ha : 0 <= a) by (unfold a, scan_a; destruct (sI - m <? 0) eqn:?; lia).
    assert (Hb : b <= size - 1) by (unfold b, scan_b; destruct (eI + m >? size - 1) eqn:?; lia).
    assert (Hab : a <= b + 1).
    { unfold a, b, scan_a, scan_b. destruct (sI - m <? 0) eqn:?; destruct (eI + m >? size - 1) eqn:?; lia. }
    change (fix loop1 (fuel_ : nat) (idx duration start : Z) (intervals : list (Z * Z)) {struct fuel_} :
              res (list (Z * Z)) := _) with (py_loop sd ed r size sb pred b sI eI m).
    rewrite (py_loop_spec sd ed r size sb pred a b sI eI m Ha Hb RsI ReI (Z.to_nat (b - a)) a 0 0 []) by lia.
    cbn [app]. unfold scan_spec, outp, cur_of.
    destruct (a <=? b) eqn:Hle; [reflexivity|].
    replace (Z.to_nat (b - a)) with 0%nat by lia. reflexivity.
  Qed.

  (* the same method with the Cython kernel, when no C int of the kernel wraps *)
  Hypothesis Hc1 : in_c_int (py_trunc_div (fst iv - sd) r).
  Hypothesis Hc2 : in_c_int (py_trunc_div (snd iv - sd) r).
  Hypothesis Hc3 : size < 2147483647.
  Hypothesis Hc4 : py_len sb < 2147483648.

  Theorem collectIntervals_cy_spec :
    Scoreboard_collectIntervals_cy sd ed r size sb iv minDuration pred
    = Ok (map (conv sd r) (scan_spec (pcy sb pred) a b sI eI m)).
  Proof.
    pose proof (dateToIdx_force_range _ _ _ _ _ _ Hsize HsI) as RsI.
    pose proof (dateToIdx_force_range _ _ _ _ _ _ Hsize HeI) as ReI.
    unfold Scoreboard_collectIntervals_cy.
    rewrite !sb_dateToIdx_eq by assumption. rewrite HsI, HeI. cbn [bind]. cbn zeta.
    fold (scan_m minDuration r). fold m.
    assert (Hm : 1 <= m) by (unfold m, scan_m; destruct (py_trunc_div minDuration r <=? 0) eqn:?; lia).
    change (if sI - m <? 0 then 0 else sI - m) with (scan_a sI m). fold a.
    change (if eI + m >? size - 1 then size - 1 else eI + m) with (scan_b eI m size). fold b.
    assert (Ha : 0 <= a) by (unfold a, scan_a; destruct (sI - m <? 0) eqn:?; lia).
    assert (Hb : b <= size - 1) by (unfold b, scan_b; destruct (eI + m >? size - 1) eqn:?; lia).
    assert (Hab : a <= b + 1).
    { unfold a, b, scan_a, scan_b. destruct (sI - m <? 0) eqn:?; destruct (eI + m >? size - 1) eqn:?; lia. }
    rewrite collect_cy_spec by lia. reflexivity.
  Qed.

  Corollary collectIntervals_cy_eq_py :
    Scoreboard_collectIntervals_cy sd ed r size sb iv minDuration pred
    = Scoreboard_collectIntervals_py sd ed r size sb iv minDuration pred.
  Proof. now rewrite collectIntervals_cy_spec, collectIntervals_py_spec. Qed.
End Method.
