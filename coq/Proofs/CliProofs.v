From Coq Require Import List Bool Arith Lia.
Require Import SP.Model.Cli SP.Spec.Fs.
Import ListNotations.

(* ---- exit status table and stdout ---- *)
Section P.
  Variable hash : list nat -> list nat.
  Variable stamp : list nat -> list nat -> list nat.

  Lemma exit_table ch inp f auto eng :
    r_exit (plan_report hash stamp ch inp f auto eng) =
    match inp with
    | Missing | NotAFile | EmptyInput => E1
    | Undecodable => E2
    | Content b => match eng b with
                   | EngineFailed => E2
                   | EngineOk files => match pick_auto auto f files with Some _ => E0 | None => E2 end
                   end
    end.
  Proof. destruct inp; cbn; try reflexivity. destruct (eng bytes); [reflexivity|]. destruct (pick_auto auto f files); reflexivity. Qed.

  (* stdout carries something exactly on success; diagnostics exactly on failure *)
  Lemma stdout_iff_success ch inp f auto eng :
    (r_exit (plan_report hash stamp ch inp f auto eng) = E0 <-> r_stdout (plan_report hash stamp ch inp f auto eng) <> None) /\
    (r_exit (plan_report hash stamp ch inp f auto eng) = E0 <-> r_diag (plan_report hash stamp ch inp f auto eng) = false).
  Proof.
    destruct inp; cbn; try (split; split; [discriminate|congruence|discriminate|discriminate]).
    destruct (eng bytes); cbn; [split; split; [discriminate|congruence|discriminate|discriminate]|].
    destruct (pick_auto auto f files); cbn; split; split; try discriminate; try congruence; reflexivity.
  Qed.

  (* the channel does not matter: same bytes, same result *)
  Lemma channel_independent inp f auto eng :
    plan_report hash stamp FromFile inp f auto eng = plan_report hash stamp FromStdin inp f auto eng.
  Proof. destruct inp; reflexivity. Qed.

  (* the emitted document is the auto report whatever other reports the project defines *)
  Lemma pick_auto_found auto f files doc :
    In (auto, f, doc) files -> (forall d', In (auto, f, d') files -> d' = doc) ->
    pick_auto auto f files = Some doc.
  Proof.
    intros Hin Huniq. unfold pick_auto.
    destruct (find (fun x => Nat.eqb (fst (fst x)) auto && fmt_eqb (snd (fst x)) f) files) as [[[a g] d]|] eqn:E.
    - apply find_some in E as [Hi Hc]. cbn in Hc. apply andb_true_iff in Hc as [H1 H2].
      apply Nat.eqb_eq in H1. subst a. assert (g = f) by (destruct g, f; try discriminate; reflexivity). subst g.
      f_equal. cbn. now apply Huniq.
    - exfalso. apply (find_none _ _ E) in Hin. cbn in Hin. rewrite Nat.eqb_refl in Hin.
      destruct f; discriminate.
  Qed.

  Lemma own_reports_irrelevant ch bytes f auto eng files others doc :
    eng bytes = EngineOk files -> In (auto, f, doc) files -> (forall d', In (auto, f, d') files -> d' = doc) ->
    (forall x, In x others -> fst (fst x) <> auto) ->
    r_stdout (plan_report hash stamp ch (Content bytes) f auto (fun _ => EngineOk (others ++ files))) =
    r_stdout (plan_report hash stamp ch (Content bytes) f auto eng).
  Proof.
    intros He Hin Hu Ho. cbn. rewrite He.
    rewrite (pick_auto_found auto f files doc Hin Hu).
    rewrite (pick_auto_found auto f (others ++ files) doc); [reflexivity|apply in_or_app; now right|].
    intros d' Hd. apply in_app_or in Hd as [Hd|Hd]; [exfalso; now apply (Ho _ Hd)|now apply Hu].
  Qed.

  Lemma report_id_is_hash ch bytes auto eng files doc :
    eng bytes = EngineOk files -> pick_auto auto Json files = Some doc ->
    r_stdout (plan_report hash stamp ch (Content bytes) Json auto eng) = Some (stamp (hash bytes) doc).
  Proof. intros He Hp. cbn. now rewrite He, Hp. Qed.
End P.

(* ---- every exit path removes what it created ---- *)
Lemma cleanup ch inp ok : apply_ops (trace ch inp ok) [] = [].
Proof. destruct ch, inp, ok; reflexivity. Qed.

Lemma only_private_names ch inp ok n : In (Create n) (trace ch inp ok) -> n <= 2.
Proof.
  destruct ch, inp, ok; cbn; intros H; repeat (destruct H as [H|H]; [inversion H; subst; lia|]); try contradiction.
Qed.

(* ---- concurrent runs over disjoint names do not interfere ---- *)
Section Commute.
  Variable owner : nat -> nat.

  Definition agree (who : nat) (f g : fs) : Prop := forall n, owner n = who -> f n = g n.

  Lemma run_project : forall sched who f g, owned owner sched -> agree who f g ->
    run f sched who = run g (project sched who) who.
  Proof.
    induction sched as [|[p o] tl IH]; intros who f g Hown Hag; [reflexivity|].
    assert (Hown' : owned owner tl) by (intros q o' Hi; apply Hown; now right).
    assert (Hp : owner (name_of o) = p) by (apply Hown; now left).
    cbn [project filter fst]. destruct (Nat.eqb_spec p who) as [->|Hne].
    - (* a step of the observed process: same effect on both file systems *)
      cbn [run]. destruct o as [n c|n|n]; cbn [step name_of] in *.
      + apply IH; [exact Hown'|]. intros m Hm. unfold upd. destruct (Nat.eqb m n); [reflexivity|now apply Hag].
      + apply IH; [exact Hown'|]. intros m Hm. unfold upd. destruct (Nat.eqb m n); [reflexivity|now apply Hag].
      + rewrite Nat.eqb_refl. rewrite (Hag n Hp). f_equal. now apply IH.
    - (* a step of another process: it cannot touch names of the observed one *)
      cbn [run]. destruct o as [n c|n|n]; cbn [step name_of] in *.
      + apply IH; [exact Hown'|]. intros m Hm. unfold upd. destruct (Nat.eqb_spec m n) as [->|]; [congruence|now apply Hag].
      + apply IH; [exact Hown'|]. intros m Hm. unfold upd. destruct (Nat.eqb_spec m n) as [->|]; [congruence|now apply Hag].
      + destruct (Nat.eqb_spec p who); [contradiction|]. now apply IH.
  Qed.

  (* every interleaving gives each process the observations of its solitary run *)
  Theorem interleaving_invisible sched who f : owned owner sched ->
    run f sched who = run f (project sched who) who.
  Proof. intros H. apply run_project; [exact H|intros n _; reflexivity]. Qed.
End Commute.
