(* Executable model of the forward scheduler at SECOND granularity (dialect SD): efforts, efficiencies and
   gaps are arbitrary, a task may begin and finish inside a slot, several tasks share a slot.
   It mirrors TaskScenario.schedule / scheduleSlot / bookResources / bookResource /
   _calculatePreciseEndTimeAndRelease and ResourceScenario.available / book for tasks that allocate ONE
   resource and projects without limits; every cell of the usage ledger is driven through the three
   operations of Model/Ledger.v (Offset, Book, Finish).

   Times are seconds from the project start (Z), slot s covers [s*G, (s+1)*G).  Seconds inside a slot and
   efforts are exact rationals; reported dates are whole seconds (the code rounds the end inside the last
   slot to the nearest second, ties to even - Python's round).  Definitions only. *)
From Coq Require Import QArith Qround Qminmax List Bool Arith ZArith.
Require Import SP.Model.Ledger.
Import ListNotations.

Record sdep := { sd_task : nat; sd_onstart : bool; sd_gap : Z }.     (* gap in seconds *)

Record stask := {
  s_leaf : bool;
  s_leaves : list nat;          (* leaf tasks below a container (a leaf: itself) *)
  s_prio : Z;
  s_mile : bool;                (* milestone: no work *)
  s_effort : Q;                 (* effort-seconds *)
  s_res : nat;                  (* the allocated resource *)
  s_deps : list sdep;           (* own + inherited + inverted 'precedes' *)
  s_pin : option Z;             (* start written on the task itself *)
  s_lb : Z;                     (* start inherited from the nearest dated container, else 0 *)
  s_limits : list nat           (* limits of this task and of its ancestors *)
}.

Record sres := { sr_work : nat -> bool; sr_eff : Q;                   (* efficiency > 0 *)
                 sr_limits : list nat }.                              (* limits of the resource and of its groups *)

(* a limit counts BOOKINGS (one per resource and slot, whatever part of the slot is used), as Limit.inc does *)
Record slimit := { sl_value : nat; sl_period : nat -> Z; sl_only : option nat }.

Record sproject := {
  sp_tasks : list stask;
  sp_res : list sres;
  sp_limits : list slimit;
  sp_upper : nat;               (* last admissible slot *)
  sp_G : Z                      (* slot length in seconds, > 0 *)
}.

Definition dstask : stask := {| s_leaf := true; s_leaves := []; s_prio := 0%Z; s_mile := true; s_effort := 0; s_res := 0%nat;
                                s_deps := []; s_pin := None; s_lb := 0%Z; s_limits := [] |}.
Definition dsres : sres := {| sr_work := fun _ => false; sr_eff := 1; sr_limits := [] |}.
Definition dslim : slimit := {| sl_value := 0%nat; sl_period := fun _ => 0%Z; sl_only := None |}.
Definition stask_of (p : sproject) (t : nat) : stask := nth t (sp_tasks p) dstask.
Definition sres_of (p : sproject) (r : nat) : sres := nth r (sp_res p) dsres.
Definition slim_of (p : sproject) (l : nat) : slimit := nth l (sp_limits p) dslim.

(* ------------------------------------------------------------------ state *)
Record sstate := {
  cells : nat -> nat -> cell;                   (* resource -> slot -> ledger cell *)
  splaced : list (nat * (Z * Z));               (* leaf task -> (start, end) in seconds, newest first *)
  stouched : list (nat * nat);                  (* cells written so far (for enumerating the ledger) *)
  sbooked : list (nat * nat * nat)              (* booking events (task, resource, slot), newest first: what limits count *)
}.
Definition sinit : sstate := {| cells := fun _ _ => empty; splaced := []; stouched := []; sbooked := [] |}.

Definition set_cell (st : sstate) (r s : nat) (c : cell) : sstate :=
  {| cells := fun r' s' => if Nat.eqb r' r && Nat.eqb s' s then c else cells st r' s'; splaced := splaced st;
     stouched := (r, s) :: stouched st; sbooked := sbooked st |}.

Definition note_booking (st : sstate) (t r s : nat) : sstate :=
  {| cells := cells st; splaced := splaced st; stouched := stouched st; sbooked := (t, r, s) :: sbooked st |}.

Fixpoint slookup (t : nat) (l : list (nat * (Z * Z))) : option (Z * Z) :=
  match l with
  | [] => None
  | (t', d) :: tl => if Nat.eqb t t' then Some d else slookup t tl
  end.
Definition sleaf_dates (st : sstate) (t : nat) : option (Z * Z) := slookup t (splaced st).

Fixpoint sspan (st : sstate) (ls : list nat) : option (Z * Z) :=
  match ls with
  | [] => None
  | [t] => sleaf_dates st t
  | t :: tl =>
      match sleaf_dates st t, sspan st tl with
      | Some (s, e), Some (s', e') => Some (Z.min s s', Z.max e e')
      | _, _ => None
      end
  end.

Definition sdates (p : sproject) (st : sstate) (t : nat) : option (Z * Z) :=
  if s_leaf (stask_of p t) then sleaf_dates st t else sspan st (s_leaves (stask_of p t)).

Definition splace (st : sstate) (t : nat) (d : Z * Z) : sstate :=
  {| cells := cells st; splaced := (t, d) :: splaced st; stouched := stouched st; sbooked := sbooked st |}.

(* ------------------------------------------------------------------ rounding *)
(* Python's round(): to the nearest integer, ties to the even one *)
Definition round_half_even (q : Q) : Z :=
  let f := Qfloor q in
  let r := q - inject_Z f in
  match Qcompare r (1 # 2) with
  | Lt => f
  | Gt => (f + 1)%Z
  | Eq => if Z.even f then f else (f + 1)%Z
  end.

(* ------------------------------------------------------------------ one task *)
Definition tol_done : Q := 9 # 2500000.        (* 1e-9 hours of effort, in effort-seconds (TaskScenario.scheduleSlot) *)
Definition tol_avail : Q := 1 # 1000000.       (* ResourceScenario.available: nothing left *)

Definition sdep_time (p : sproject) (st : sstate) (d : sdep) : option Z :=
  match sdates p st (sd_task d) with
  | Some (s, e) => Some ((if sd_onstart d then s else e) + sd_gap d)%Z
  | None => None
  end.

Definition sready (p : sproject) (st : sstate) (t : nat) : bool :=
  forallb (fun d => match sdates p st (sd_task d) with Some _ => true | None => false end) (s_deps (stask_of p t)).

Definition sbound (p : sproject) (st : sstate) (t : nat) : Z :=
  match s_pin (stask_of p t) with
  | Some s => s
  | None => fold_left (fun acc d => match sdep_time p st d with Some x => Z.max acc x | None => acc end)
                      (s_deps (stask_of p t)) (s_lb (stask_of p t))
  end.

(* ------------------------------------------------------------------ limits (as in Model/Sched.v) *)
Definition scounts (p : sproject) (l : nat) (b : nat * nat * nat) : bool :=
  let '(t, r, _) := b in
  (existsb (Nat.eqb l) (sr_limits (sres_of p r)))
  || (existsb (Nat.eqb l) (s_limits (stask_of p t))
      && match sl_only (slim_of p l) with None => true | Some r' => Nat.eqb r' r end).

Definition susage (p : sproject) (st : sstate) (l : nat) (k : Z) : nat :=
  length (filter (fun b => scounts p l b && Z.eqb (sl_period (slim_of p l) (snd b)) k) (sbooked st)).

Definition slimit_ok (p : sproject) (st : sstate) (l : nat) (s : nat) : bool :=
  (susage p st l (sl_period (slim_of p l) s) <? sl_value (slim_of p l))%nat.

Definition slimits_of (p : sproject) (t r : nat) : list nat :=
  sr_limits (sres_of p r)
  ++ filter (fun l => match sl_only (slim_of p l) with None => true | Some r' => Nat.eqb r' r end) (s_limits (stask_of p t)).

(* the slot walk.  off: seconds of the first slot that lie before the bound (applied to the first slot in
   which the task books); done: effort-seconds credited so far; start: set by the first booking *)
Fixpoint swalk (p : sproject) (t r : nat) (e need off : Q) (fuel slot : nat) (done : Q) (start : option Z) (st : sstate)
  : sstate * option (Z * Z) :=
  match fuel with
  | O => (st, None)                                               (* ran past the horizon: not scheduled *)
  | S fuel' =>
      if sr_work (sres_of p r) slot then
        let G := inject_Z (sp_G p) in
        let c0 := cells st r slot in
        let c1 := if Qeq_bool done 0 then step G c0 (Offset off) else c0 in
        let a := G - used c1 in
        let c2 := step G c1 (Book t None) in
        if Qle_bool a tol_avail || Nat.eqb (length (entries c2)) (length (entries c1))
           || negb (forallb (fun l => slimit_ok p st l slot) (slimits_of p t r)) then
          swalk p t r e need off fuel' (S slot) done start (set_cell st r slot c1)       (* nothing bookable here *)
        else
          let start' := match start with
                        | Some s => s
                        | None => (Z.of_nat slot * sp_G p + Qfloor off)%Z                 (* slot start + offset *)
                        end in
          let done' := done + a * e in
          if Qle_bool (need - tol_done) done' then
            (* finished inside this slot: keep what is needed, give the rest back, report the end *)
            let needed := Qmin ((need - done) / e) G in
            let c3 := step G c2 (Finish t needed) in
            let endt := (Z.of_nat slot * sp_G p + round_half_even (used c1 + needed))%Z in
            (note_booking (set_cell st r slot c3) t r slot, Some (start', endt))
          else swalk p t r e need off fuel' (S slot) done' (Some start') (note_booking (set_cell st r slot c2) t r slot)
      else swalk p t r e need off fuel' (S slot) done start st
  end.

Definition sschedule_task (p : sproject) (st : sstate) (t : nat) : sstate :=
  let k := stask_of p t in
  let b := sbound p st t in
  let slot := (b / sp_G p)%Z in
  if (b <? 0)%Z || (Z.of_nat (sp_upper p) <? slot)%Z then st              (* bound outside the horizon *)
  else if s_mile k then splace st t (b, b)                                 (* milestone at its bound *)
  else
    let r := s_res k in
    match swalk p t r (sr_eff (sres_of p r)) (s_effort k) (inject_Z (b mod sp_G p))
                (S (sp_upper p) - Z.to_nat slot) (Z.to_nat slot) 0 None st with
    | (st', Some d) => splace st' t d
    | (st', None) => st'
    end.

(* ------------------------------------------------------------------ main loop (as in Model/Sched.v) *)
Fixpoint sinsert (p : sproject) (t : nat) (l : list nat) : list nat :=
  match l with
  | [] => [t]
  | u :: tl => if (s_prio (stask_of p u) <? s_prio (stask_of p t))%Z then t :: l else u :: sinsert p t tl
  end.
Definition ssorted_leaves (p : sproject) : list nat :=
  fold_left (fun acc t => if s_leaf (stask_of p t) then sinsert p t acc else acc) (seq 0 (length (sp_tasks p))) [].

Fixpoint spick (p : sproject) (st : sstate) (l : list nat) : option (nat * list nat) :=
  match l with
  | [] => None
  | t :: tl => if sready p st t then Some (t, tl)
               else match spick p st tl with Some (u, rest) => Some (u, t :: rest) | None => None end
  end.

Fixpoint sloop (p : sproject) (fuel : nat) (work : list nat) (st : sstate) : sstate :=
  match fuel with
  | O => st
  | S fuel' =>
      match spick p st work with
      | Some (t, rest) => sloop p fuel' rest (sschedule_task p st t)
      | None => st
      end
  end.

Definition sprepass (p : sproject) : sstate :=
  fold_left (fun st t => let k := stask_of p t in
                         if s_leaf k && s_mile k
                         then match s_pin k with
                              | Some s => if (0 <=? s)%Z && (s / sp_G p <=? Z.of_nat (sp_upper p))%Z then splace st t (s, s) else st
                              | None => st end
                         else st)
            (seq 0 (length (sp_tasks p))) sinit.

Definition sschedule (p : sproject) : sstate :=
  let st0 := sprepass p in
  let work := filter (fun t => match sleaf_dates st0 t with Some _ => false | None => true end) (ssorted_leaves p) in
  sloop p (length work) work st0.

(* observations for the driver *)
Definition sall_results (p : sproject) : sstate * list (option (Z * Z)) :=
  let st := sschedule p in (st, map (fun t => sdates p st t) (seq 0 (length (sp_tasks p)))).
