(* Task references (parser/tjp_parser.py: _resolve_task_reference) on a forest of task ids.
   A resolved task is its POSITION (list of child indexes), which is name-free.  Definitions only. *)
From Coq Require Import List Arith Bool.
Import ListNotations.

Inductive tree := Node (id : nat) (kids : list tree).
Definition tid (t : tree) : nat := match t with Node i _ => i end.
Definition tkids (t : tree) : list tree := match t with Node _ k => k end.

(* index of the first sibling with the given id *)
Fixpoint find_idx (id : nat) (l : list tree) (k : nat) : option (nat * tree) :=
  match l with
  | [] => None
  | t :: tl => if Nat.eqb (tid t) id then Some (k, t) else find_idx id tl (S k)
  end.

(* walk a path of ids down from a list of siblings *)
Fixpoint descend (ids : list nat) (sibs : list tree) : option (list nat) :=
  match ids with
  | [] => Some []
  | i :: rest =>
      match find_idx i sibs 0 with
      | Some (k, t) => match descend rest (tkids t) with Some p => Some (k :: p) | None => None end
      | None => None
      end
  end.

(* node at a position *)
Fixpoint at_pos (pos : list nat) (sibs : list tree) : option tree :=
  match pos with
  | [] => None
  | [k] => nth_error sibs k
  | k :: rest => match nth_error sibs k with Some t => at_pos rest (tkids t) | None => None end
  end.

(* absolute reference: from the top level *)
Definition resolve_abs (forest : list tree) (ids : list nat) : option (list nat) := descend ids forest.

(* relative reference with n >= 1 exclamation marks from the task at position 'from':
   the base is the ancestor n levels up (n = 1: the parent, i.e. siblings of 'from') *)
Definition resolve_rel (forest : list tree) (from : list nat) (n : nat) (ids : list nat) : option (list nat) :=
  let base := firstn (length from - n) from in
  match base with
  | [] => descend ids forest
  | _ => match at_pos base forest with
         | Some t => match descend ids (tkids t) with Some p => Some (base ++ p) | None => None end
         | None => None
         end
  end.

Fixpoint rename (r : nat -> nat) (t : tree) : tree :=
  match t with Node i k => Node (r i) (map (rename r) k) end.

(* 'a precedes b' is stored as a dependency of b on a: edges as (dependent, predecessor, options) *)
Definition edges_of {O : Type} (depends precedes : list (nat * nat * O)) : list (nat * nat * O) :=
  depends ++ map (fun e => (snd (fst e), fst (fst e), snd e)) precedes.
