(* Model of one (resource, slot) cell of the usage ledger: ResourceScenario.slotSecondsUsed[s]
   (used) and slotTaskUsage[s] (entries), and the three operations the scheduler performs on it.
   Seconds are exact rationals (floats are modelled exactly; see DESIGN.md 2.1).  Definitions only. *)
From Coq Require Import QArith Qminmax List.
Import ListNotations.
Open Scope Q_scope.

Record cell := { used : Q; entries : list (nat * Q) }.
Definition empty : cell := {| used := 0; entries := [] |}.

Inductive op :=
| Offset (o : Q)                      (* TaskScenario.bookResource: first slot of a task whose bound is mid-slot *)
| Book (t : nat) (cap : option Q)     (* ResourceScenario.available + book (cap = the team's common seconds) *)
| Finish (t : nat) (need : Q).        (* TaskScenario._calculatePreciseEndTimeAndRelease *)

Definition avail (G : Q) (c : cell) : Q := Qmax 0 (G - used c).

(* replace the LAST entry of task t by f booked; returns the new list and the old booked value *)
Fixpoint release_last (t : nat) (need : Q) (l : list (nat * Q)) : option (list (nat * Q) * Q * Q) :=
  match l with
  | [] => None
  | (t', b) :: tl =>
      match release_last t need tl with
      | Some (tl', booked, kept) => Some ((t', b) :: tl', booked, kept)
      | None => if Nat.eqb t t' then let kept := Qmin need b in Some ((t', kept) :: tl, b, kept) else None
      end
  end.

Definition step (G : Q) (c : cell) (o : op) : cell :=
  match o with
  | Offset off => if Qlt_le_dec (used c) off then {| used := off; entries := entries c |} else c
  | Book t cap =>
      let a := avail G c in
      (* a slot that carries a task marker (some booking happened) but has all of its seconds free
         again is refused by ResourceScenario.available (marker set and available = slot length);
         unreachable for the scheduler, whose releases always keep a positive amount *)
      if match entries c with [] => false | _ => if Qlt_le_dec 0 (used c) then false else true end then c
      else if Qlt_le_dec 0 a then
        let amount := match cap with Some m => Qmin a m | None => a end in
        {| used := used c + amount; entries := entries c ++ [(t, amount)] |}
      else c
  | Finish t need =>
      match release_last t need (entries c) with
      | Some (l', booked, kept) => {| used := used c - booked + kept; entries := l' |}
      | None => c
      end
  end.

Definition run (G : Q) (ops : list op) : cell := fold_left (step G) ops empty.

Fixpoint total (l : list (nat * Q)) : Q := match l with [] => 0 | (_, x) :: tl => x + total tl end.

(* the operations the scheduler can issue: offsets, caps and needs are never negative, offsets lie in the slot *)
Definition op_ok (G : Q) (o : op) : Prop :=
  match o with
  | Offset off => 0 <= off /\ off <= G
  | Book _ (Some m) => 0 <= m
  | Book _ None => True
  | Finish _ need => 0 <= need
  end.

Definition Inv (G : Q) (c : cell) : Prop :=
  0 <= used c /\ used c <= G /\ total (entries c) <= used c /\ Forall (fun e => 0 <= snd e) (entries c).

(* consecutive placement of the entries inside the slot: entry k occupies [start_k, start_k + len_k) *)
Fixpoint layout (from : Q) (l : list (nat * Q)) : list (nat * Q * Q) :=
  match l with
  | [] => []
  | (t, x) :: tl => (t, from, from + x) :: layout (from + x) tl
  end.
