(* The second-granularity forward scheduler for TEAMS (several resources booked together), a generalisation
   of Model/SubSlot.v: TaskScenario.bookResources' team gate, the seconds common to all members
   (common_seconds), the credit per slot (seconds x the best member's efficiency) and the release of every
   member's last slot in _calculatePreciseEndTimeAndRelease (latest begin counts for the end).
   No limits, no alternatives.  Definitions only. *)
From Coq Require Import QArith Qround Qminmax List Bool Arith ZArith.
Require Import SP.Model.Ledger SP.Model.SubSlot.
Import ListNotations.

Record ttask := {
  tt_leaf : bool;
  tt_leaves : list nat;
  tt_prio : Z;
  tt_mile : bool;
  tt_effort : Q;                (* effort-seconds *)
  tt_team : list nat;           (* the allocated resources, in the order written *)
  tt_deps : list sdep;
  tt_pin : option Z;
  tt_lb : Z;
  tt_limits : list nat          (* limits of this task and of its ancestors *)
}.

Record tproject := {
  tp_tasks : list ttask;
  tp_res : list sres;
  tp_limits : list slimit;
  tp_upper : nat;
  tp_G : Z
}.

Definition dttask : ttask := {| tt_leaf := true; tt_leaves := []; tt_prio := 0%Z; tt_mile := true; tt_effort := 0; tt_team := [];
                                tt_deps := []; tt_pin := None; tt_lb := 0%Z; tt_limits := [] |}.
Definition ttask_of (p : tproject) (t : nat) : ttask := nth t (tp_tasks p) dttask.
Definition tres_of (p : tproject) (r : nat) : sres := nth r (tp_res p) dsres.
Definition tlim_of (p : tproject) (l : nat) : slimit := nth l (tp_limits p) dslim.

(* limits count bookings (as in Model/SubSlot.v); [extra] are the tentative bookings of the members of the team that
   were checked before (TaskScenario._countTentativeBooking) *)
Definition tcounts (p : tproject) (l : nat) (b : nat * nat * nat) : bool :=
  let '(t, r, _) := b in
  (existsb (Nat.eqb l) (sr_limits (tres_of p r)))
  || (existsb (Nat.eqb l) (tt_limits (ttask_of p t))
      && match sl_only (tlim_of p l) with None => true | Some r' => Nat.eqb r' r end).

Definition tusage (p : tproject) (events : list (nat * nat * nat)) (l : nat) (k : Z) : nat :=
  length (filter (fun b => tcounts p l b && Z.eqb (sl_period (tlim_of p l) (snd b)) k) events).

Definition tlimits_of (p : tproject) (t r : nat) : list nat :=
  sr_limits (tres_of p r)
  ++ filter (fun l => match sl_only (tlim_of p l) with None => true | Some r' => Nat.eqb r' r end) (tt_limits (ttask_of p t)).

Definition tlimits_ok (p : tproject) (events : list (nat * nat * nat)) (t r slot : nat) : bool :=
  forallb (fun l => (tusage p events l (sl_period (tlim_of p l) slot) <? sl_value (tlim_of p l))%nat) (tlimits_of p t r).

Definition tdates (p : tproject) (st : sstate) (t : nat) : option (Z * Z) :=
  if tt_leaf (ttask_of p t) then sleaf_dates st t else sspan st (tt_leaves (ttask_of p t)).

Definition tdep_time (p : tproject) (st : sstate) (d : sdep) : option Z :=
  match tdates p st (sd_task d) with
  | Some (s, e) => Some ((if sd_onstart d then s else e) + sd_gap d)%Z
  | None => None
  end.

Definition tready (p : tproject) (st : sstate) (t : nat) : bool :=
  forallb (fun d => match tdates p st (sd_task d) with Some _ => true | None => false end) (tt_deps (ttask_of p t)).

Definition tbound (p : tproject) (st : sstate) (t : nat) : Z :=
  match tt_pin (ttask_of p t) with
  | Some s => s
  | None => fold_left (fun acc d => match tdep_time p st d with Some x => Z.max acc x | None => acc end)
                      (tt_deps (ttask_of p t)) (tt_lb (ttask_of p t))
  end.

(* ------------------------------------------------------------------ one slot for the whole team *)
(* ResourceScenario.available without limits: working, something left, not a released-to-zero marker *)
Definition refused (c : cell) : bool :=
  match entries c with [] => false | _ => if Qlt_le_dec 0 (used c) then false else true end.

Definition member_available (p : tproject) (st : sstate) (slot r : nat) : bool :=
  let c := cells st r slot in
  sr_work (tres_of p r) slot && negb (Qle_bool (inject_Z (tp_G p) - used c) tol_avail) && negb (refused c).

(* the team gate: every member available and within its limits, each counted while the next one is checked *)
Fixpoint team_gate (p : tproject) (st : sstate) (t slot : nat) (events : list (nat * nat * nat)) (team : list nat) : bool :=
  match team with
  | [] => true
  | r :: tl => member_available p st slot r && tlimits_ok p events t r slot
               && team_gate p st t slot ((t, r, slot) :: events) tl
  end.




(* the part of the slot that is free for every member (the offset counts as used in the first slot) *)
Fixpoint common_secs (G o : Q) (st : sstate) (slot : nat) (team : list nat) : option Q :=
  match team with
  | [] => None
  | r :: tl =>
      let free := Qmax 0 (G - Qmax (used (cells st r slot)) o) in
      match common_secs G o st slot tl with
      | Some m => Some (Qmin free m)
      | None => Some free
      end
  end.

(* TaskScenario.bookResource for every member in turn; returns the new state and, per member that was booked,
   (resource, seconds booked, seconds of the slot that were used before) *)
Fixpoint book_members (p : tproject) (t : nat) (off : Q) (first : bool) (cap : option Q) (slot : nat)
         (team : list nat) (st : sstate) : sstate * list (nat * Q * Q) :=
  match team with
  | [] => (st, [])
  | r :: tl =>
      let G := inject_Z (tp_G p) in
      if sr_work (tres_of p r) slot then
        let c0 := cells st r slot in
        let c1 := if first then step G c0 (Offset off) else c0 in
        let a := G - used c1 in
        let c2 := step G c1 (Book t cap) in
        if Qle_bool a tol_avail || Nat.eqb (length (entries c2)) (length (entries c1))
           || negb (tlimits_ok p (sbooked st) t r slot) then
          book_members p t off first cap slot tl (set_cell st r slot c1)
        else
          let amount := match cap with Some m => Qmin a m | None => a end in
          let '(st', l) := book_members p t off first cap slot tl (note_booking (set_cell st r slot c2) t r slot) in
          (st', (r, amount, used c1) :: l)
      else book_members p t off first cap slot tl st
  end.

Definition release_members (G : Q) (t : nat) (needed : Q) (slot : nat) (booked : list (nat * Q * Q)) (st : sstate) : sstate :=
  fold_left (fun st x => let r := fst (fst x) in set_cell st r slot (step G (cells st r slot) (Finish t needed))) booked st.

Definition qmax_list (l : list Q) : Q := fold_left Qmax l 0.

Fixpoint twalk (p : tproject) (t : nat) (team : list nat) (e need off : Q) (fuel slot : nat) (done : Q) (start : option Z)
         (st : sstate) : sstate * option (Z * Z) :=
  match fuel with
  | O => (st, None)
  | S fuel' =>
      let G := inject_Z (tp_G p) in
      let first := Qeq_bool done 0 in
      let multi := match team with _ :: _ :: _ => true | _ => false end in
      if multi && negb (team_gate p st t slot (sbooked st) team) then
        twalk p t team e need off fuel' (S slot) done start st               (* the team gate: all or nobody *)
      else
        let cap := if multi then common_secs G (if first then off else 0) st slot team else None in
        let '(st1, booked) := book_members p t off first cap slot team st in
        match booked with
        | [] => twalk p t team e need off fuel' (S slot) done start st1
        | _ =>
            let start' := match start with
                          | Some s => s
                          | None => (Z.of_nat slot * tp_G p + Qfloor off)%Z
                          end in
            let gained := qmax_list (map (fun x => snd (fst x) * sr_eff (tres_of p (fst (fst x)))) booked) in
            let done' := done + gained in
            if Qle_bool (need - tol_done) done' then
              let needed := Qmin ((need - done) / e) G in
              let ub := qmax_list (map snd booked) in
              let endt := (Z.of_nat slot * tp_G p + round_half_even (ub + needed))%Z in
              (release_members G t needed slot booked st1, Some (start', endt))
            else twalk p t team e need off fuel' (S slot) done' (Some start') st1
        end
  end.

Definition team_eff (p : tproject) (team : list nat) : Q := qmax_list (map (fun r => sr_eff (tres_of p r)) team).

Definition tschedule_task (p : tproject) (st : sstate) (t : nat) : sstate :=
  let k := ttask_of p t in
  let b := tbound p st t in
  let slot := (b / tp_G p)%Z in
  if (b <? 0)%Z || (Z.of_nat (tp_upper p) <? slot)%Z then st
  else if tt_mile k then splace st t (b, b)
  else
    match tt_team k with
    | [] => st
    | team =>
        match twalk p t team (team_eff p team) (tt_effort k) (inject_Z (b mod tp_G p))
                    (S (tp_upper p) - Z.to_nat slot) (Z.to_nat slot) 0 None st with
        | (st', Some d) => splace st' t d
        | (st', None) => st'
        end
    end.

(* ------------------------------------------------------------------ main loop *)
Fixpoint tinsert (p : tproject) (t : nat) (l : list nat) : list nat :=
  match l with
  | [] => [t]
  | u :: tl => if (tt_prio (ttask_of p u) <? tt_prio (ttask_of p t))%Z then t :: l else u :: tinsert p t tl
  end.
Definition tsorted_leaves (p : tproject) : list nat :=
  fold_left (fun acc t => if tt_leaf (ttask_of p t) then tinsert p t acc else acc) (seq 0 (length (tp_tasks p))) [].

Fixpoint tpick (p : tproject) (st : sstate) (l : list nat) : option (nat * list nat) :=
  match l with
  | [] => None
  | t :: tl => if tready p st t then Some (t, tl)
               else match tpick p st tl with Some (u, rest) => Some (u, t :: rest) | None => None end
  end.

Fixpoint tloop (p : tproject) (fuel : nat) (work : list nat) (st : sstate) : sstate :=
  match fuel with
  | O => st
  | S fuel' =>
      match tpick p st work with
      | Some (t, rest) => tloop p fuel' rest (tschedule_task p st t)
      | None => st
      end
  end.

Definition tprepass (p : tproject) : sstate :=
  fold_left (fun st t => let k := ttask_of p t in
                         if tt_leaf k && tt_mile k
                         then match tt_pin k with
                              | Some s => if (0 <=? s)%Z && (s / tp_G p <=? Z.of_nat (tp_upper p))%Z then splace st t (s, s) else st
                              | None => st end
                         else st)
            (seq 0 (length (tp_tasks p))) sinit.

Definition tschedule (p : tproject) : sstate :=
  let st0 := tprepass p in
  let work := filter (fun t => match sleaf_dates st0 t with Some _ => false | None => true end) (tsorted_leaves p) in
  tloop p (length work) work st0.

Definition tall_results (p : tproject) : sstate * list (option (Z * Z)) :=
  let st := tschedule p in (st, map (fun t => tdates p st t) (seq 0 (length (tp_tasks p)))).
