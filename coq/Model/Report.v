(* Format-independent table of a task report and its two renderings (report/task_report.py,
   report/table_report.py: ReportTable.to_json / to_csv).  Cells are opaque strings (type C).
   Definitions only. *)
From Coq Require Import List Bool.
Import ListNotations.

Section Report.
  Context {T C : Type}.                         (* tasks, cell texts *)
  Variable is_leaf : T -> bool.
  Variable cell : T -> nat -> C.                (* formatted value of column j for a task (pure function of the schedule) *)

  Definition kept (leaf_only : bool) (t : T) : bool := if leaf_only then is_leaf t else true.
  Definition row (ncols : nat) (t : T) : list C := map (cell t) (seq 0 ncols).
  (* body lines: one per kept task, in declaration order *)
  Definition body (leaf_only : bool) (ncols : nat) (tasks : list T) : list (list C) :=
    map (row ncols) (filter (kept leaf_only) tasks).

  Definition to_csv {H : Type} (titles : list H) (conv : H -> C) (b : list (list C)) : list (list C) := map conv titles :: b.
  (* a JSON record: association list title -> cell; building a dict keeps the LAST binding of a title *)
  Definition record {H : Type} (titles : list H) (r : list C) : list (H * C) := combine titles r.
  Definition to_json {H : Type} (titles : list H) (b : list (list C)) : list (list (H * C)) := map (record titles) b.

  Fixpoint dict_last {H : Type} (eqb : H -> H -> bool) (k : H) (l : list (H * C)) : option C :=
    match l with
    | [] => None
    | (k', v) :: tl => match dict_last eqb k tl with Some x => Some x | None => if eqb k k' then Some v else None end
    end.
End Report.
