(* Decision function of 'plan report' (cli/plan.py: report) and its temp-file life cycle.
   External behaviour enters as parameters: the input bytes, the engine outcome (the files the
   report generator wrote into the private output directory), the hash and the renderer.
   Definitions only. *)
From Coq Require Import List Bool Arith.
Import ListNotations.

Inductive channel := FromFile | FromStdin.
Inductive input :=
| Missing                      (* path does not exist *)
| NotAFile                     (* directory *)
| EmptyInput                   (* empty file / blank stdin *)
| Undecodable                  (* readable bytes that are not UTF-8 text *)
| Content (bytes : list nat).  (* readable, non-empty *)

Inductive fmt := Json | Csv.
Definition fmt_eqb (a b : fmt) : bool := match a, b with Json, Json | Csv, Csv => true | _, _ => false end.

(* what the engine left in the private output directory: (report name, format, content) *)
Definition outfile := (nat * fmt * list nat)%type.
Inductive engine := EngineFailed | EngineOk (files : list outfile).

Inductive exit := E0 | E1 | E2.
Record result := { r_exit : exit; r_stdout : option (list nat); r_diag : bool (* something on stderr *) }.

Section Plan.
  Variable hash : list nat -> list nat.                    (* SHA-256 *)
  Variable stamp : list nat -> list nat -> list nat.       (* replace report_id in a JSON document *)

  Definition pick_auto (auto : nat) (f : fmt) (files : list outfile) : option (list nat) :=
    match find (fun x => Nat.eqb (fst (fst x)) auto && fmt_eqb (snd (fst x)) f) files with
    | Some x => Some (snd x)
    | None => match filter (fun x => fmt_eqb (snd (fst x)) f) files with x :: _ => Some (snd x) | [] => None end
    end.

  (* eng: outcome of running the engine on (input ++ auto report text), a function of the bytes *)
  Definition plan_report (ch : channel) (inp : input) (f : fmt) (auto : nat) (eng : list nat -> engine) : result :=
    match inp with
    | Missing | NotAFile | EmptyInput => {| r_exit := E1; r_stdout := None; r_diag := true |}
    | Undecodable => {| r_exit := E2; r_stdout := None; r_diag := true |}       (* "unexpected error" branch *)
    | Content bytes =>
        match eng bytes with
        | EngineFailed => {| r_exit := E2; r_stdout := None; r_diag := true |}
        | EngineOk files =>
            match pick_auto auto f files with
            | None => {| r_exit := E2; r_stdout := None; r_diag := true |}
            | Some doc => {| r_exit := E0;
                             r_stdout := Some (match f with Json => stamp (hash bytes) doc | Csv => doc end);
                             r_diag := false |}
            end
        end
    end.
End Plan.

(* ---- temp-file life cycle: names created / removed along every exit path ---- *)
Inductive fsop := Create (name : nat) | Remove (name : nat).
(* names: 0 = stdin copy, 1 = combined file (input + auto report), 2 = output directory (with its files) *)
Definition trace (ch : channel) (inp : input) (engine_ok : bool) : list fsop :=
  match inp with
  | Missing | NotAFile | EmptyInput => []                       (* fails before anything is created *)
  | Undecodable =>                                              (* stdin (read with the locale's surrogateescape
                                                                   handler): writing the copy fails; file: the text
                                                                   read fails after the output directory was made
                                                                   and before the combined file is *)
      match ch with FromStdin => [Create 0; Remove 0] | FromFile => [Create 2; Remove 2] end
  | Content _ =>
      let pre := match ch with FromStdin => [Create 0] | FromFile => [] end in
      let post := match ch with FromStdin => [Remove 0] | FromFile => [] end in
      (* success: output directory, combined file, stdin copy; failure (except-branches): combined file, stdin copy,
         output directory - the order the system calls show (harness: strace) *)
      pre ++ [Create 2; Create 1] ++ (if engine_ok then [Remove 2; Remove 1] ++ post else [Remove 1] ++ post ++ [Remove 2])
  end.

Fixpoint apply_ops (ops : list fsop) (fs : list nat) : list nat :=
  match ops with
  | [] => fs
  | Create n :: tl => apply_ops tl (n :: fs)
  | Remove n :: tl => apply_ops tl (filter (fun x => negb (Nat.eqb x n)) fs)
  end.
