(* The backward (ALAP) scheduler of the core dialect, as the time-mirror of the forward one.

   A project-level 'scheduling alap' project is written in the same record as a forward project but READ
   BACKWARDS:
     p_upper  = n, the number of slots of the horizon: slots 0 .. n-1, boundaries 0 .. n (boundary n = project end);
     t_deps   = the SUCCESSOR edges of the task (own, inherited from every enclosing container, inverted
                'precedes'): the task must END d_gap slots before d_task STARTS;
     t_pin    = the end written on the task itself (a boundary);
     t_lb     = the earliest deadline of the enclosing containers (a boundary, n when there is none).
   Calendars and limit periods are given on the real time axis.

   The implementation walks the slots downwards from the latest end.  The model says: that is the forward
   scheduler run on the mirrored project (slot s <-> n-1-s, boundary k <-> n-k), mirrored back.  The
   correspondence check compares exactly this with TaskScenario.schedule(forward = False).
   Definitions only (proofs in Proofs/AlapProofs.v). *)
From Coq Require Import List Bool Arith ZArith.
Require Import SP.Model.Sched.
Import ListNotations.

Definition flip (n s : nat) : nat := n - 1 - s.

Definition mirror_task (n : nat) (t : task) : task :=
  {| t_leaf := t_leaf t; t_kids := t_kids t; t_leaves := t_leaves t; t_prio := t_prio t; t_need := t_need t;
     t_team := t_team t; t_deps := t_deps t;
     t_pin := option_map (fun e => n - e) (t_pin t);
     t_lb := n - t_lb t;
     t_limits := t_limits t |}.

(* the forward model may also try the slot that starts at the project end (index n); its mirror image would
   lie before the project start and does not exist *)
Definition mirror_res (n : nat) (r : resource) : resource :=
  {| r_work := fun s => (s <? n) && r_work r (flip n s); r_limits := r_limits r |}.

Definition mirror_lim (n : nat) (l : limit) : limit :=
  {| l_value := l_value l; l_period := fun s => l_period l (flip n s); l_only := l_only l |}.

Definition mirror (p : project) : project :=
  let n := p_upper p in
  {| p_tasks := map (mirror_task n) (p_tasks p);
     p_res := map (mirror_res n) (p_res p);
     p_limits := map (mirror_lim n) (p_limits p);
     p_upper := n |}.

Definition unflip (n : nat) (d : nat * nat) : nat * nat := (n - snd d, n - fst d).

(* the backward schedule, in mirrored coordinates *)
Definition aschedule (p : project) : state := schedule (mirror p).

(* observations on the real time axis *)
Definition alap_leaf_dates (p : project) (t : nat) : option (nat * nat) :=
  option_map (unflip (p_upper p)) (leaf_dates (aschedule p) t).

Definition alap_dates (p : project) (t : nat) : option (nat * nat) :=
  option_map (unflip (p_upper p)) (dates (mirror p) (aschedule p) t).

Definition unflip_booking (n : nat) (b : booking) : booking :=
  {| b_task := b_task b; b_res := b_res b; b_slot := flip n (b_slot b) |}.

Definition alap_bookings (p : project) : list booking :=
  map (unflip_booking (p_upper p)) (bookings (aschedule p)).

(* all tasks at once (the schedule is computed once; used by the extracted driver) *)
Definition alap_results (p : project) : list (option (nat * nat)) :=
  let q := mirror p in let st := schedule q in
  map (fun t => option_map (unflip (p_upper p)) (dates q st t)) (seq 0 (length (p_tasks p))).
