(* Process-global state touched by a run: AttributeBase._mode (0 = values being set are 'provided',
   1 = 'inherited', 2 = 'calculated'), and whatever earlier runs left behind.  A run = construct the
   Project (sets mode 0), parse and set attributes (stamped with the current mode), inherit (mode 1),
   schedule (mode 2).  Definitions only. *)
From Coq Require Import List Arith Bool.
Import ListNotations.

Record gstate := { g_mode : nat; g_left : list nat (* anything else earlier runs left in the process *) }.

Section Run.
  Context {Text Proj Res : Type}.
  Variable parse : Text -> option Proj.
  (* the schedule depends on which attribute values count as 'provided' by the user: a value set while
     the mode is 0 is provided (e.g. a task's own start pins it; an inherited one is only a bound) *)
  Variable sched : bool -> Proj -> Res.

  Definition run (g : gstate) (t : Text) : gstate * option Res :=
    let g0 := {| g_mode := 0; g_left := g_left g |} in            (* Project.__init__: setMode(0) *)
    match parse t with
    | None => (g0, None)                                           (* parse error: state stays as it is *)
    | Some pr =>
        let provided := Nat.eqb (g_mode g0) 0 in                   (* attributes are stamped while parsing *)
        ({| g_mode := 2; g_left := 1 :: g_left g |}, Some (sched provided pr))
    end.

  (* the same, without the re-initialisation (what a missing setMode(0) would mean) *)
  Definition run_noreset (g : gstate) (t : Text) : gstate * option Res :=
    match parse t with
    | None => (g, None)
    | Some pr => ({| g_mode := 2; g_left := 1 :: g_left g |}, Some (sched (Nat.eqb (g_mode g) 0) pr))
    end.

  Fixpoint after (g : gstate) (history : list Text) : gstate :=
    match history with [] => g | t :: tl => after (fst (run g t)) tl end.
End Run.

(* schedule() on a project: each scenario is scheduled once; 'done' is the set of scheduled scenarios *)
Definition schedule_once {S : Type} (step : nat -> S -> S) (nsc : nat) (done : list nat) (st : S) : list nat * S :=
  fold_left (fun acc i => if existsb (Nat.eqb i) (fst acc) then acc else (i :: fst acc, step i (snd acc)))
            (seq 0 nsc) (done, st).
