(* Scenario-specific attribute values: the effective value in scenario i is the value written for i,
   else for its nearest ancestor scenario, else the unprefixed value (parser: scenario_attr with
   propagation to descendants).  Scenarios are numbered in declaration order; a parent precedes its
   children.  Definitions only. *)
From Coq Require Import List Arith.
Import ListNotations.

Section Eff.
  Context {V : Type}.
  Variable parent : nat -> option nat.          (* parent scenario; None for the root(s) *)
  Variable ov : nat -> option V.                (* value written with the scenario prefix *)
  Variable base : V.                            (* unprefixed value *)

  Fixpoint eff (fuel i : nat) : V :=
    match ov i with
    | Some v => v
    | None => match fuel, parent i with
              | S f, Some j => eff f j
              | _, _ => base
              end
    end.

  (* i lies in the subtree of j: j is i or an ancestor of i (within fuel steps) *)
  Fixpoint below (fuel i j : nat) : bool :=
    Nat.eqb i j || match fuel, parent i with S f, Some k => below f k j | _, _ => false end.
End Eff.

(* the scenario loop: every scenario is prepared, scheduled and finished on its own component *)
Definition schedule_all {P R : Type} (sched : P -> R) (views : list P) : list R := map sched views.
