(* Executable model of the forward (ASAP) scheduler for the core dialect: whole-slot efforts and gaps.
   It mirrors Project.scheduleScenario / TaskScenario.schedule / scheduleSlot / bookResources /
   ResourceScenario.available / book / Limit.ok / inc at slot granularity (DESIGN.md 2.3, dialect CD).

   Times are slot boundaries: boundary k is the instant  start + k * G.  A task booked in slots
   s1 < ... < sn has start = s1 and end = sn + 1.  Definitions only (proofs in Proofs/Sched*.v). *)
From Coq Require Import List Bool Arith ZArith Lia.
Import ListNotations.

(* ------------------------------------------------------------------ project *)
Record dep := { d_task : nat; d_onstart : bool; d_gap : nat }.

Record task := {
  t_leaf : bool;
  t_kids : list nat;            (* direct children (containers) *)
  t_leaves : list nat;          (* leaf tasks below a container (a leaf: itself) *)
  t_prio : Z;                   (* effective priority *)
  t_need : nat;                 (* slots of work; 0 = milestone *)
  t_team : list nat;            (* resources booked together *)
  t_deps : list dep;            (* own + inherited + inverted 'precedes' *)
  t_pin : option nat;           (* start written on the task itself *)
  t_lb : nat;                   (* start inherited from the nearest dated container, else 0 *)
  t_limits : list nat           (* limits of this task and of its ancestors *)
}.

Record resource := {
  r_work : nat -> bool;         (* on shift, not on leave / vacation / holiday *)
  r_limits : list nat           (* limits of the resource and of its ancestor groups *)
}.

Record limit := {
  l_value : nat;                (* admissible bookings per period *)
  l_period : nat -> Z;          (* slot -> period index (Gen.LimitsPy.Limit_idx_to_sb_idx) *)
  l_only : option nat           (* task limits may be restricted to one resource *)
}.

Record project := {
  p_tasks : list task;          (* declaration order; a task id is its position *)
  p_res : list resource;
  p_limits : list limit;
  p_upper : nat                 (* last admissible slot = dateToIdx(project end) *)
}.

Definition dtask : task := {| t_leaf := true; t_kids := []; t_leaves := []; t_prio := 0%Z; t_need := 0; t_team := [];
                               t_deps := []; t_pin := None; t_lb := 0; t_limits := [] |}.
Definition dres : resource := {| r_work := fun _ => false; r_limits := [] |}.
Definition dlim : limit := {| l_value := 0; l_period := fun _ => 0%Z; l_only := None |}.
Definition task_of (p : project) (t : nat) : task := nth t (p_tasks p) dtask.
Definition res_of (p : project) (r : nat) : resource := nth r (p_res p) dres.
Definition lim_of (p : project) (l : nat) : limit := nth l (p_limits p) dlim.

(* ------------------------------------------------------------------ state *)
Record booking := { b_task : nat; b_res : nat; b_slot : nat }.

Record state := {
  bookings : list booking;                  (* newest first; never withdrawn *)
  placed : list (nat * (nat * nat))         (* leaf task -> (start, end), newest first *)
}.
Definition init : state := {| bookings := []; placed := [] |}.

Fixpoint lookup (t : nat) (l : list (nat * (nat * nat))) : option (nat * nat) :=
  match l with
  | [] => None
  | (t', d) :: tl => if Nat.eqb t t' then Some d else lookup t tl
  end.

(* dates of a leaf *)
Definition leaf_dates (st : state) (t : nat) : option (nat * nat) := lookup t (placed st).

(* dates of any task: a container is scheduled exactly when all leaves below it are; its dates
   are the earliest start and the latest end among them *)
Fixpoint span (st : state) (ls : list nat) : option (nat * nat) :=
  match ls with
  | [] => None
  | [t] => leaf_dates st t
  | t :: tl =>
      match leaf_dates st t, span st tl with
      | Some (s, e), Some (s', e') => Some (Nat.min s s', Nat.max e e')
      | _, _ => None
      end
  end.

Definition dates (p : project) (st : state) (t : nat) : option (nat * nat) :=
  if t_leaf (task_of p t) then leaf_dates st t else span st (t_leaves (task_of p t)).

(* ------------------------------------------------------------------ availability *)
Definition booked (st : state) (r s : nat) : bool :=
  existsb (fun b => Nat.eqb (b_res b) r && Nat.eqb (b_slot b) s) (bookings st).

(* does limit l count a booking of resource r' made for task t' ? *)
Definition counts (p : project) (l : nat) (b : booking) : bool :=
  (existsb (Nat.eqb l) (r_limits (res_of p (b_res b))))
  || (existsb (Nat.eqb l) (t_limits (task_of p (b_task b)))
      && match l_only (lim_of p l) with None => true | Some r => Nat.eqb r (b_res b) end).

Definition usage (p : project) (st : state) (l : nat) (k : Z) : nat :=
  length (filter (fun b => counts p l b && Z.eqb (l_period (lim_of p l) (b_slot b)) k) (bookings st)).

Definition limit_ok (p : project) (st : state) (l : nat) (s : nat) : bool :=
  usage p st l (l_period (lim_of p l) s) <? l_value (lim_of p l).

(* limits that would count the booking (t, r, s) *)
Definition limits_of (p : project) (t r : nat) : list nat :=
  r_limits (res_of p r)
  ++ filter (fun l => match l_only (lim_of p l) with None => true | Some r' => Nat.eqb r' r end) (t_limits (task_of p t)).

Definition can_book (p : project) (st : state) (t r s : nat) : bool :=
  r_work (res_of p r) s && negb (booked st r s) && forallb (fun l => limit_ok p st l s) (limits_of p t r).

Definition add (st : state) (t r s : nat) : state :=
  {| bookings := {| b_task := t; b_res := r; b_slot := s |} :: bookings st; placed := placed st |}.

(* book the whole team or nobody: members are checked one after the other, each against the
   counters that already include the members before it *)
Fixpoint book_team (p : project) (st : state) (t s : nat) (team : list nat) : option state :=
  match team with
  | [] => Some st
  | r :: tl => if can_book p st t r s then book_team p (add st t r s) t s tl else None
  end.

(* ------------------------------------------------------------------ one task *)
Definition dep_time (p : project) (st : state) (d : dep) : option nat :=
  match dates p st (d_task d) with
  | Some (s, e) => Some ((if d_onstart d then s else e) + d_gap d)
  | None => None
  end.

Definition ready (p : project) (st : state) (t : nat) : bool :=
  forallb (fun d => match dates p st (d_task d) with Some _ => true | None => false end) (t_deps (task_of p t)).

Definition bound (p : project) (st : state) (t : nat) : nat :=
  match t_pin (task_of p t) with
  | Some s => s
  | None => fold_left (fun acc d => match dep_time p st d with Some x => Nat.max acc x | None => acc end)
                      (t_deps (task_of p t)) (t_lb (task_of p t))
  end.

(* the slot walk: try slot s, s+1, ... up to the horizon; fuel = number of slots left to try *)
Fixpoint walk (p : project) (t : nat) (fuel s need : nat) (first : option nat) (st : state)
  : state * option (nat * nat) :=
  match fuel with
  | O => (st, None)                                         (* ran past the horizon: not scheduled *)
  | S fuel' =>
      match book_team p st t s (t_team (task_of p t)) with
      | Some st' =>
          let first' := match first with Some f => f | None => s end in
          match need with
          | 0 | 1 => (st', Some (first', S s))
          | S need' => walk p t fuel' (S s) need' (Some first') st'
          end
      | None => walk p t fuel' (S s) need first st
      end
  end.

Definition place (st : state) (t : nat) (d : nat * nat) : state :=
  {| bookings := bookings st; placed := (t, d) :: placed st |}.

Definition schedule_task (p : project) (st : state) (t : nat) : state :=
  let b := bound p st t in
  if p_upper p <? b then st                                  (* bound beyond the horizon *)
  else match t_need (task_of p t) with
       | O => place st t (b, b)                              (* milestone at its bound *)
       | need =>
           match t_team (task_of p t) with
           | [] => st
           | _ => match walk p t (S (p_upper p) - b) b need None st with
                  | (st', Some d) => place st' t d
                  | (st', None) => st'                       (* bookings stay, task unscheduled *)
                  end
           end
       end.

(* ------------------------------------------------------------------ main loop *)
(* stable insertion sort by (-priority, declaration order) *)
Fixpoint insert (p : project) (t : nat) (l : list nat) : list nat :=
  match l with
  | [] => [t]
  | u :: tl => if (t_prio (task_of p u) <? t_prio (task_of p t))%Z then t :: l else u :: insert p t tl
  end.
Definition sorted_leaves (p : project) : list nat :=
  fold_left (fun acc t => if t_leaf (task_of p t) then insert p t acc else acc) (seq 0 (length (p_tasks p))) [].

Fixpoint pick (p : project) (st : state) (l : list nat) : option (nat * list nat) :=
  match l with
  | [] => None
  | t :: tl => if ready p st t then Some (t, tl)
               else match pick p st tl with Some (u, rest) => Some (u, t :: rest) | None => None end
  end.

Fixpoint loop (p : project) (fuel : nat) (work : list nat) (st : state) : state :=
  match fuel with
  | O => st
  | S fuel' =>
      match pick p st work with
      | Some (t, rest) => loop p fuel' rest (schedule_task p st t)
      | None => st                                            (* nothing ready: done or deadlock *)
      end
  end.

(* milestone pre-pass: a milestone with a date of its own is scheduled at once *)
Definition prepass (p : project) : state :=
  fold_left (fun st t => let k := task_of p t in
                         if t_leaf k && Nat.eqb (t_need k) 0
                         then match t_pin k with
                              | Some s => if s <=? p_upper p then place st t (s, s) else st   (* inside the horizon only *)
                              | None => st end
                         else st)
            (seq 0 (length (p_tasks p))) init.

Definition schedule (p : project) : state :=
  let st0 := prepass p in
  let work := filter (fun t => match leaf_dates st0 t with Some _ => false | None => true end) (sorted_leaves p) in
  loop p (length work) work st0.

(* observations compared with the implementation *)
Definition result (p : project) (t : nat) : option (nat * nat) := dates p (schedule p) t.
