(* Calendar of a resource on the project clock (UTC resources): working time at an absolute instant
   from its weekly hours table (or the project default Mon-Fri 09-17) minus leave / vacation / holiday
   intervals; tables of working flags and of limit period indexes per slot.  Definitions only. *)
From Coq Require Import ZArith List Bool.
Require Import SP.Base.PyRt SP.Spec.Hours SP.Gen.LimitsPy.
Import ListNotations.
Open Scope Z_scope.

Definition in_iv (t : Z) (iv : Z * Z) : bool := (fst iv <=? t) && (t <? snd iv).
Definition default_hours (t : Z) : bool := (dt_weekday t <? 5) && (9 <=? dt_hour t) && (dt_hour t <? 17).
Definition working_at (tbl : option (list (Z * list ((Z * Z) * (Z * Z))))) (off : list (Z * Z)) (t : Z) : bool :=
  negb (existsb (in_iv t) off) &&
  match tbl with Some tb => hours_spec tb (dt_weekday t) (minute_of_day t) | None => default_hours t end.

Definition slot_time (start g : Z) (s : nat) : Z := start + Z.of_nat s * g.
Definition work_table tbl off (start g : Z) (upper : nat) : list bool :=
  map (fun s => working_at tbl off (slot_time start g s)) (seq 0 (S upper)).
Definition period_table (start g period : Z) (upper : nat) : list Z :=
  map (fun s => Limit_idx_to_sb_idx start g period (Z.of_nat s)) (seq 0 (S upper)).

Definition shift_iv (d : Z) (iv : Z * Z) : Z * Z := (fst iv + d, snd iv + d).
