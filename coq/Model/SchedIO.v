(* Construction of model projects from flat data (used by the extracted driver): calendars as
   boolean lists, limit periods through the REGENERATED Limit._idx_to_sb_idx.  Definitions only. *)
From Coq Require Import List Bool Arith ZArith.
Require Import SP.Base.PyRt SP.Gen.LimitsPy SP.Model.Sched.
Import ListNotations.

Definition mk_resource (work : list bool) (lims : list nat) : resource :=
  {| r_work := fun s => nth s work false; r_limits := lims |}.

(* period: 86400 (dailymax) or 604800 (weeklymax); start: project start in seconds; g: slot seconds *)
Definition mk_limit (value : nat) (start g period : Z) (only : option nat) : limit :=
  {| l_value := value; l_period := fun s => Limit_idx_to_sb_idx start g period (Z.of_nat s); l_only := only |}.

Definition all_results (p : project) : list (option (nat * nat)) :=
  let st := schedule p in map (fun t => dates p st t) (seq 0 (length (p_tasks p))).

Definition all_bookings (p : project) : list booking := bookings (schedule p).

(* a resource on the project clock whose calendar is computed inside the model: weekly hours table (or the
   default calendar) minus leave / vacation / holiday intervals, evaluated at every slot start *)
Require Import SP.Model.Calendar.
Definition mk_resource_cal (tbl : option (list (Z * list ((Z * Z) * (Z * Z))))) (off : list (Z * Z))
           (start g : Z) (upper : nat) (lims : list nat) : resource :=
  mk_resource (work_table tbl off start g upper) lims.          (* the table is an argument: computed once *)

(* limits of the second-granularity model: the same regenerated period index *)
Require Import SP.Model.SubSlot.
Definition mk_slimit (value : nat) (start g period : Z) (only : option nat) : slimit :=
  {| sl_value := value; sl_period := fun s => Limit_idx_to_sb_idx start g period (Z.of_nat s); sl_only := only |}.
