(* Abstract file system for concurrent CLI runs: a finite map name -> content; every process works on
   its own names (mkstemp / mkdtemp / token_hex freshness is the assumption).  Definitions only. *)
From Coq Require Import List Bool Arith.
Import ListNotations.

Inductive op := Wr (n c : nat) | Rm (n : nat) | Rd (n : nat).
Definition fs := nat -> option nat.
Definition empty : fs := fun _ => None.
Definition upd (f : fs) (n : nat) (v : option nat) : fs := fun m => if Nat.eqb m n then v else f m.

(* one step: new file system and the observation made (reads observe the content) *)
Definition step (f : fs) (o : op) : fs * option (option nat) :=
  match o with
  | Wr n c => (upd f n (Some c), None)
  | Rm n => (upd f n None, None)
  | Rd n => (f, Some (f n))
  end.

Definition name_of (o : op) : nat := match o with Wr n _ | Rm n | Rd n => n end.

(* run a schedule of (process id, operation); collect each process's observations in order *)
Fixpoint run (f : fs) (sched : list (nat * op)) (who : nat) : list (option nat) :=
  match sched with
  | [] => []
  | (p, o) :: tl =>
      let '(f', ob) := step f o in
      match ob with
      | Some v => if Nat.eqb p who then v :: run f' tl who else run f' tl who
      | None => run f' tl who
      end
  end.

Definition project (sched : list (nat * op)) (who : nat) : list (nat * op) :=
  filter (fun x => Nat.eqb (fst x) who) sched.

(* every process touches only names it owns *)
Definition owned (owner : nat -> nat) (sched : list (nat * op)) : Prop :=
  forall p o, In (p, o) sched -> owner (name_of o) = p.
