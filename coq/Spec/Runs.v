(* Specification of interval scanning: maximal runs of a predicate over a range of slot indices.
   Definitions only. *)
From Coq Require Import ZArith List Bool.
Import ListNotations.
Open Scope Z_scope.

(* runs bs i cur: the maximal runs of [true] in the boolean list [bs] whose first element has index
   [i]; [cur = Some s] means a run that started at index [s] is still open.  Half-open (s, e). *)
Fixpoint runs (bs : list bool) (i : Z) (cur : option Z) : list (Z * Z) :=
  match bs with
  | [] => match cur with Some s => [(s, i)] | None => [] end
  | true :: tl => runs tl (i + 1) (Some (match cur with Some s => s | None => i end))
  | false :: tl =>
      match cur with
      | Some s => (s, i) :: runs tl (i + 1) None
      | None => runs tl (i + 1) None
      end
  end.

(* the predicate values of slots a, a+1, ..., a+n-1 *)
Fixpoint pvals (p : Z -> bool) (a : Z) (n : nat) : list bool :=
  match n with O => [] | S n' => p a :: pvals p (a + 1) n' end.

Definition long_enough (m : Z) (r : Z * Z) : bool := snd r - fst r >=? m.
(* clip a run to the query window [lo, hi] (indices) *)
Definition clip (lo hi : Z) (r : Z * Z) : Z * Z := (Z.max (fst r) lo, Z.min (snd r) hi).

(* what collectIntervals must return, in slot indices: scan slots a .. b-1 *)
Definition scan_spec (p : Z -> bool) (a b lo hi m : Z) : list (Z * Z) :=
  map (clip lo hi) (filter (long_enough m) (runs (pvals p a (Z.to_nat (b - a))) a None)).

(* declarative reading of a maximal run inside [a, b) *)
Definition maximal_run (p : Z -> bool) (a b s e : Z) : Prop :=
  a <= s /\ s < e /\ e <= b /\ (forall i, s <= i < e -> p i = true) /\
  (s = a \/ p (s - 1) = false) /\ (e = b \/ p e = false).
