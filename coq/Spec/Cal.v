(* Calendar notions on naive datetimes (seconds since 1970-01-01 00:00, a Thursday). Definitions only. *)
From Coq Require Import ZArith.
Require Import SP.Base.PyRt.
Open Scope Z_scope.

Definition day_of (t : Z) : Z := t / 86400.                 (* calendar day number *)
Definition week_of (t : Z) : Z := (t / 86400 + 3) / 7.      (* Monday-to-Sunday (ISO) week number *)
Definition minute_in_day (t : Z) : Z := (t mod 86400) / 60.
Definition WEEK : Z := 604800.
