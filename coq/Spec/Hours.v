(* Declarative working-time test for a weekly table of (hour, minute) intervals, including
   intervals that cross midnight.  Definitions only. *)
From Coq Require Import ZArith List Bool.
Require Import SP.Base.PyRt.
Import ListNotations.
Open Scope Z_scope.

Notation interval := ((Z * Z) * (Z * Z))%type (only parsing).
Notation hours_table := (list (Z * list ((Z * Z) * (Z * Z)))) (only parsing).

Definition iv_start (x : interval) : Z := fst (fst x) * 60 + snd (fst x).
Definition iv_end (x : interval) : Z := fst (snd x) * 60 + snd (snd x).

(* minute m of the day the interval is declared for *)
Definition same_day_hit (m : Z) (x : interval) : bool :=
  if iv_end x <=? iv_start x then m >=? iv_start x            (* crosses midnight: start .. 24:00 *)
  else (iv_start x <=? m) && (m <? iv_end x).
(* minute m of the day AFTER the day the interval is declared for *)
Definition next_day_hit (m : Z) (x : interval) : bool :=
  (iv_end x <=? iv_start x) && (m <? iv_end x).                (* crosses midnight: 00:00 .. end *)

Definition hours_spec (tbl : hours_table) (wd m : Z) : bool :=
  existsb (same_day_hit m) (dict_get_list tbl wd)
  || existsb (next_day_hit m) (dict_get_list tbl ((wd - 1) mod 7)).

Definition minute_of_day (t : Z) : Z := dt_hour t * 60 + dt_minute t.

(* components small enough for the C ints of the Cython twin *)
Definition iv_small (x : interval) : Prop :=
  0 <= fst (fst x) <= 1000 /\ 0 <= snd (fst x) <= 1000 /\ 0 <= fst (snd x) <= 1000 /\ 0 <= snd (snd x) <= 1000.
Definition table_small (tbl : hours_table) : Prop :=
  forall k l x, In (k, l) tbl -> In x l -> iv_small x.

Definition daily_minutes (l : list interval) : Z :=
  fold_left (fun acc x => acc + (iv_end x - iv_start x)) l 0.
