(* C17 - Slot/time conversion and interval scanning obey their algebra.
   Statements only; every proof is a one-line reference into Proofs/.  The functions named
   Scoreboard_*_py / Project_*_py / *_cy are REGENERATED from /repo on every run (Gen/). *)
From Coq Require Import ZArith List Bool.
Require Import SP.Base.PyRt SP.Gen.ScoreboardCy SP.Gen.ScoreboardPy SP.Gen.ProjectPy SP.Spec.Runs
               SP.Proofs.ScoreboardAlg SP.Proofs.CollectCy SP.Proofs.CollectPy SP.Proofs.RunsChar.
Import ListNotations.
Open Scope Z_scope.

(* index -> time is strictly increasing on the table *)
Theorem C17_index_to_time_increasing : forall s e r, 0 < r -> s <= e -> forall i j ti tj,
  0 <= i -> i < j -> j < Scoreboard_size s e r ->
  Scoreboard_idxToDate_py s e r (Scoreboard_size s e r) i false = Ok ti ->
  Scoreboard_idxToDate_py s e r (Scoreboard_size s e r) j false = Ok tj -> ti < tj.
Proof. intros; eapply idxToDate_mono; eassumption. Qed.
Print Assumptions C17_index_to_time_increasing.

(* index(time(i)) = i *)
Theorem C17_index_of_time_of_index : forall s e r, 0 < r -> s <= e -> forall i f,
  0 <= i < Scoreboard_size s e r ->
  Scoreboard_dateToIdx_py s e r (Scoreboard_size s e r) (s + i * r) f = Ok i.
Proof. intros; eapply dateToIdx_idxToDate; eassumption. Qed.
Print Assumptions C17_index_of_time_of_index.

(* time(index(t)) <= t < time(index(t)+1) for every instant of the window, and the index is in the table *)
Theorem C17_floor_inverse : forall s e r, 0 < r -> s <= e -> forall t f, s <= t <= e ->
  exists i, Scoreboard_dateToIdx_py s e r (Scoreboard_size s e r) t f = Ok i /\
            0 <= i < Scoreboard_size s e r /\ s + i * r <= t < s + (i + 1) * r.
Proof. intros; eapply dateToIdx_bracket; eassumption. Qed.
Print Assumptions C17_floor_inverse.

(* the slot table covers [start, end] and is not larger than needed *)
Theorem C17_table_covers_window : forall s e r, 0 < r -> s <= e ->
  s + (Scoreboard_size s e r - 1) * r >= e /\ s + (Scoreboard_size s e r - 2) * r < e.
Proof. intros; eapply size_covers; eassumption. Qed.
Print Assumptions C17_table_covers_window.

(* indices outside the table are rejected unless clamping is requested; clamping returns the ends *)
Theorem C17_outside_rejected : forall s e r, 0 < r -> s <= e -> forall i,
  i < 0 \/ Scoreboard_size s e r <= i ->
  Scoreboard_idxToDate_py s e r (Scoreboard_size s e r) i false = Raise IndexError.
Proof. intros; eapply idxToDate_reject; eassumption. Qed.
Print Assumptions C17_outside_rejected.

Theorem C17_clamping : forall s e r i,
  Scoreboard_idxToDate_py s e r (Scoreboard_size s e r) i true =
  Ok (if i <? 0 then s else if i >=? Scoreboard_size s e r then e else s + i * r).
Proof. intros; apply idxToDate_clamp. Qed.
Print Assumptions C17_clamping.

Theorem C17_times_outside_rejected : forall s e r, 0 < r -> s <= e -> forall t,
  t <= s - r \/ s + Scoreboard_size s e r * r <= t ->
  Scoreboard_dateToIdx_py s e r (Scoreboard_size s e r) t false = Raise IndexError.
Proof. intros; eapply dateToIdx_reject; eassumption. Qed.
Print Assumptions C17_times_outside_rejected.

(* the project-level conversions (no clamping) *)
Theorem C17_project_increasing : forall s g i j, 0 < g -> i < j ->
  Project_idxToDate_py s g i < Project_idxToDate_py s g j.
Proof. intros; eapply prj_idxToDate_mono; eassumption. Qed.
Theorem C17_project_inverse : forall s g i f, 0 < g ->
  Project_dateToIdx_py s g (Project_idxToDate_py s g i) f = i.
Proof. intros; eapply prj_dateToIdx_idxToDate; eassumption. Qed.
Theorem C17_project_floor_inverse : forall s g t f, 0 < g -> s <= t ->
  let i := Project_dateToIdx_py s g t f in
  0 <= i /\ Project_idxToDate_py s g i <= t < Project_idxToDate_py s g (i + 1).
Proof. intros; eapply prj_dateToIdx_bracket; eassumption. Qed.
Print Assumptions C17_project_floor_inverse.

(* interval scanning: exactly the maximal runs of the requested minimum length, clipped to the
   query window, for every table content, predicate, window and minimum duration.
   a, b: the scanned index range the method derives (window widened by the minimum duration and cut
   to the table); sI, eI: indices of the window ends; m: minimum duration in slots. *)
Theorem C17_collect_python : forall (V : Type) sd ed r size (sb : list V) pred iv minDuration sI eI,
  1 <= size ->
  Scoreboard_dateToIdx_py sd ed r size (fst iv) true = Ok sI ->
  Scoreboard_dateToIdx_py sd ed r size (snd iv) true = Ok eI ->
  sI <= eI + 1 ->
  Scoreboard_collectIntervals_py sd ed r size sb iv minDuration pred
  = Ok (map (conv sd r)
        (scan_spec (pcy sb pred) (scan_a sI (scan_m minDuration r)) (scan_b eI (scan_m minDuration r) size)
                   sI eI (scan_m minDuration r))).
Proof. intros; now apply collectIntervals_py_spec. Qed.
Print Assumptions C17_collect_python.

Theorem C17_collect_cython : forall (V : Type) sd ed r size (sb : list V) pred iv minDuration sI eI,
  1 <= size ->
  Scoreboard_dateToIdx_py sd ed r size (fst iv) true = Ok sI ->
  Scoreboard_dateToIdx_py sd ed r size (snd iv) true = Ok eI ->
  sI <= eI + 1 ->
  in_c_int (py_trunc_div (fst iv - sd) r) -> in_c_int (py_trunc_div (snd iv - sd) r) ->
  size < 2147483647 -> py_len sb < 2147483648 ->
  Scoreboard_collectIntervals_cy sd ed r size sb iv minDuration pred
  = Ok (map (conv sd r)
        (scan_spec (pcy sb pred) (scan_a sI (scan_m minDuration r)) (scan_b eI (scan_m minDuration r) size)
                   sI eI (scan_m minDuration r))).
Proof. intros; now apply collectIntervals_cy_spec. Qed.
Print Assumptions C17_collect_cython.

(* the functional spec [runs] is the declarative notion: its elements are exactly the maximal runs *)
Theorem C17_runs_are_the_maximal_runs : forall p a n s e,
  In (s, e) (runs (pvals p a n) a None) <-> maximal_run p a (a + Z.of_nat n) s e.
Proof. exact runs_char. Qed.
Print Assumptions C17_runs_are_the_maximal_runs.

(* non-vacuity: a concrete table *)
Example C17_example :
  Scoreboard_collectIntervals_py 0 36000 3600 11 [1;1;1;0;0;1;1;0;0;0;0] (0, 36000) 7200
     (fun v => match v with Some 1 => true | _ => false end)
  = Ok [(0, 10800); (18000, 25200)].
Proof. vm_compute. reflexivity. Qed.
