(* C20 - CLI runs leave no trace and do not interfere with each other.
   C20_cleanup: on every exit path of the temp-file state machine (both channels, every input class,
   engine success or failure) the names created are removed again and only private names are created.
   C20_commute: for ANY number of processes and ANY interleaving of their file-system operations, if
   every process works on names it owns (freshness of mkstemp / mkdtemp / token_hex names - the stated
   assumption), each process observes exactly what it observes when it runs alone. *)
From Coq Require Import List Bool Arith.
Require Import SP.Model.Cli SP.Spec.Fs SP.Proofs.CliProofs.
Import ListNotations.

Theorem C20_cleanup : forall ch inp ok, apply_ops (trace ch inp ok) [] = [].
Proof. exact cleanup. Qed.
Print Assumptions C20_cleanup.

Theorem C20_private_names : forall ch inp ok n, In (Create n) (trace ch inp ok) -> n <= 2.
Proof. exact only_private_names. Qed.

Theorem C20_commute : forall owner sched who f, owned owner sched ->
  run f sched who = run f (project sched who) who.
Proof. exact interleaving_invisible. Qed.
Print Assumptions C20_commute.

(* non-vacuity: two processes interleaved, process 1 reads back what it wrote although 2 writes in between *)
Example C20_example :
  run empty [(1, Wr 10 5); (2, Wr 20 7); (1, Rd 10); (2, Rm 20); (2, Rd 20); (1, Rm 10); (1, Rd 10)] 1 = [Some 5; None].
Proof. reflexivity. Qed.
