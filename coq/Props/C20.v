(* C20 placeholder (Spec/Fs.v theorems follow in a later commit) *)
From Coq Require Import List.
Theorem C20_placeholder : forall (A : Type) (l1 l2 : list A), length (l1 ++ l2) = length l1 + length l2.
Proof. intros; apply app_length. Qed.
