(* C01 - A resource is never double-booked.
   (a) cell level, sub-slot dialect: EVERY sequence of offset / book / finish-and-release operations
       on one (resource, slot) cell keeps  sum(entries) <= used <= slot length, all entries >= 0, and
       the entries can be laid out inside the slot without overlapping (Model/Ledger.v, exact rationals;
       tied to ResourceScenario.available/book and TaskScenario._calculatePreciseEndTimeAndRelease by the
       operation-sequence correspondence of harness/props/c01.py);
   (b) scheduler level, whole-slot dialect: in the final state of the scheduler model no
       (resource, slot) pair is booked twice, for every project (Model/Sched.v). *)
From Coq Require Import QArith List Lia.
Require Import SP.Model.Ledger SP.Proofs.LedgerProofs SP.Model.Sched SP.Proofs.SchedInv SP.Proofs.SchedFinal.
Require Import SP.Model.Alap SP.Proofs.AlapProofs.
Require Import SP.Model.Ledger SP.Model.SubSlot SP.Proofs.SubSlotProofs.
Import ListNotations.

Theorem C01_cell : forall G ops, (0 < G)%Q -> Forall (op_ok G) ops -> Ledger.Inv G (run G ops).
Proof. intros; now apply run_inv. Qed.
Print Assumptions C01_cell.

Theorem C01_layout : forall G c, Ledger.Inv G c ->
  (forall t a b, In (t, a, b) (layout 0 (entries c)) -> (0 <= a /\ a <= b /\ b <= G)%Q) /\
  (forall i j t1 a1 b1 t2 a2 b2, (i < j)%nat ->
     nth_error (layout 0 (entries c)) i = Some (t1, a1, b1) ->
     nth_error (layout 0 (entries c)) j = Some (t2, a2, b2) -> (b1 <= a2)%Q) /\
  Forall2 (fun e x => fst e = fst (fst x) /\ (snd x - snd (fst x) == snd e)%Q) (entries c) (layout 0 (entries c)).
Proof.
  intros G c H. destruct (inv_layout G c H) as (A & B & _). split; [exact A|]. split; [exact B|]. apply layout_lengths.
Qed.
Print Assumptions C01_layout.

Theorem C01_schedule : forall p, NoDup (map key (bookings (schedule p))).
Proof. intros p. apply (inv_nodup p _ (schedule_inv p)). Qed.
Print Assumptions C01_schedule.

(* bookings exist only for tasks of the work list, i.e. leaf tasks: containers book nothing *)
Theorem C01_leaf_only : forall p t, In t (work0 p) -> t_leaf (task_of p t) = true.
Proof. exact in_work0_leaf. Qed.

(* non-vacuity: a shared slot - task 0 books the slot and keeps 1800 s, task 1 takes the rest and keeps
   600 s, task 2 may take at most 100 s, task 3 takes what is left, task 4 finds the slot full *)
Definition C01_example_ops : list op :=
  [Book 0 None; Finish 0 1800; Book 1 None; Finish 1 600; Book 2 (Some 100); Book 3 None; Book 4 None].
Example C01_example_total : (total (entries (run 3600 C01_example_ops)) == 3600)%Q /\ length (entries (run 3600 C01_example_ops)) = 4%nat.
Proof. split; vm_compute; reflexivity. Qed.
Example C01_example_hyp : Forall (op_ok 3600) C01_example_ops.
Proof. repeat constructor; cbn; try discriminate. Qed.

(* ---- backward (ALAP) mode: the project record is read backwards (Model/Alap.v: t_deps = successor edges,
   t_pin = own end, t_lb = earliest deadline of the enclosing containers, n = p_upper slots) and the schedule
   is the mirror image of the forward schedule of the mirrored project *)
Theorem C01_alap : forall p, NoDup (map key (alap_bookings p)).
Proof. exact alap_no_double_booking. Qed.
Print Assumptions C01_alap.

(* ---- second granularity (Model/SubSlot.v: arbitrary efforts, efficiencies and gaps, tasks that begin and end
   inside slots and share them; one resource per task, no limits), for every well-formed project
   (wf: slot length > 0, efficiencies > 0, a task with work has a positive effort) *)
Theorem C01_subslot : forall p, wf p -> forall r s,
  Ledger.Inv (inject_Z (sp_G p)) (cells (sschedule p) r s).
Proof. intros p H r s. exact (proj1 (sschedule_inv p H) r s). Qed.
Print Assumptions C01_subslot.

(* ---- second granularity, TEAMS (Model/SubSlotTeam.v: gate, seconds common to all members, credit at the best
   member's efficiency, release of every member's last slot) *)
Require Import SP.Model.SubSlotTeam SP.Proofs.SubSlotTeamProofs.
Theorem C01_subslot_teams : forall p, twf p -> forall r s,
  Ledger.Inv (inject_Z (tp_G p)) (cells (tschedule p) r s).
Proof. intros p H r s. exact (proj1 (tschedule_inv p H) r s). Qed.
Print Assumptions C01_subslot_teams.
