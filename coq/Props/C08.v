(* C08 - No eligible working time is left idle (ASAP, scheduler model): for a task on a single resource
   with no limit in play, every slot between its dependency bound and its end is used by the task,
   lies outside the resource's working time, or is booked for another task - in the final ledger.
   The ALAP half is checked on the implementation only. *)
From Coq Require Import List Arith.
Require Import SP.Model.Sched SP.Proofs.SchedWalk SP.Proofs.SchedFinal.
Require Import SP.Model.Alap SP.Proofs.AlapProofs.
Import ListNotations.

Theorem C08_asap : forall p t r f e,
  leaf_dates (schedule p) t = Some (f, e) -> t_need (task_of p t) <> 0 ->
  t_team (task_of p t) = [r] -> limits_of p t r = [] ->
  exists b, b <= f /\ (forall s, t_pin (task_of p t) = Some s -> b = s) /\
    (t_pin (task_of p t) = None -> forall d, In d (t_deps (task_of p t)) ->
       exists s' e', dates p (schedule p) (d_task d) = Some (s', e') /\ (if d_onstart d then s' else e') + d_gap d <= b) /\
    forall x, b <= x -> x < e ->
      In (mk t r x) (bookings (schedule p)) \/ r_work (res_of p r) x = false \/
      exists y, In y (bookings (schedule p)) /\ b_res y = r /\ b_slot y = x /\ b_task y <> t.
Proof. exact no_idle. Qed.
Print Assumptions C08_asap.

(* ---- backward (ALAP) mode: the project record is read backwards (Model/Alap.v: t_deps = successor edges,
   t_pin = own end, t_lb = earliest deadline of the enclosing containers, n = p_upper slots) and the schedule
   is the mirror image of the forward schedule of the mirrored project *)
(* latest fit: dl is the deadline (own end | earliest successor start minus gap, container deadlines, project
   end); between the task's start and dl every slot is the task's, non-working, or another task's *)
Theorem C08_alap : forall p t r f e, alap_leaf_dates p t = Some (f, e) -> t_need (task_of p t) <> 0 ->
  t_team (task_of p t) = [r] -> limits_of p t r = [] ->
  exists dl, e <= dl /\ dl <= p_upper p /\
    (forall s, t_pin (task_of p t) = Some s -> s <= p_upper p -> dl = s) /\
    (t_pin (task_of p t) = None -> forall d, In d (t_deps (task_of p t)) ->
       exists s' e', alap_dates p (d_task d) = Some (s', e') /\ dl + d_gap d <= (if d_onstart d then e' else s')) /\
    forall x, f <= x -> x < dl ->
      In (mk t r x) (alap_bookings p) \/ r_work (res_of p r) x = false \/
      exists y, In y (alap_bookings p) /\ b_res y = r /\ b_slot y = x /\ b_task y <> t.
Proof. exact alap_no_idle. Qed.
Print Assumptions C08_alap.

(* ---- teams and limits: a slot between bound and end (start and deadline in backward mode) that the task did
   not take has, in the FINAL schedule, a team member that does not work then, or a member booked for another
   task, or a limit (of the member, of one of its groups, of the task or of one of its containers) without
   room for the whole team in that period *)
Require Import SP.Proofs.SchedTeam.
Theorem C08_asap_teams_and_limits : forall p t f e, leaf_dates (schedule p) t = Some (f, e) -> t_need (task_of p t) <> 0 ->
  NoDup (t_team (task_of p t)) ->
  exists b, b <= f /\ (forall s, t_pin (task_of p t) = Some s -> b = s) /\
    (t_pin (task_of p t) = None -> forall d, In d (t_deps (task_of p t)) ->
       exists s' e', dates p (schedule p) (d_task d) = Some (s', e') /\ (if d_onstart d then s' else e') + d_gap d <= b) /\
    forall x, b <= x -> x < e ->
      (forall r, In r (t_team (task_of p t)) -> In (mk t r x) (bookings (schedule p))) \/
      exists r, In r (t_team (task_of p t)) /\
        (r_work (res_of p r) x = false \/
         (exists y, In y (bookings (schedule p)) /\ b_res y = r /\ b_slot y = x /\ b_task y <> t) \/
         (exists l, In l (limits_of p t r) /\
            l_value (lim_of p l) < usage p (schedule p) l (l_period (lim_of p l) x) + team_count p l t (t_team (task_of p t)))).
Proof. exact no_idle_team. Qed.
Print Assumptions C08_asap_teams_and_limits.

Theorem C08_alap_teams_and_limits : forall p t f e, alap_leaf_dates p t = Some (f, e) -> t_need (task_of p t) <> 0 ->
  NoDup (t_team (task_of p t)) ->
  exists dl, e <= dl /\ dl <= p_upper p /\
    (forall s, t_pin (task_of p t) = Some s -> s <= p_upper p -> dl = s) /\
    (t_pin (task_of p t) = None -> forall d, In d (t_deps (task_of p t)) ->
       exists s' e', alap_dates p (d_task d) = Some (s', e') /\ dl + d_gap d <= (if d_onstart d then e' else s')) /\
    forall x, f <= x -> x < dl ->
      (forall r, In r (t_team (task_of p t)) -> In (mk t r x) (alap_bookings p)) \/
      exists r, In r (t_team (task_of p t)) /\
        (r_work (res_of p r) x = false \/
         (exists y, In y (alap_bookings p) /\ b_res y = r /\ b_slot y = x /\ b_task y <> t) \/
         (exists l, In l (limits_of p t r) /\
            l_value (lim_of p l) <
            usage p {| bookings := alap_bookings p; placed := nil |} l (l_period (lim_of p l) x) + team_count p l t (t_team (task_of p t)))).
Proof. exact alap_no_idle_team. Qed.
Print Assumptions C08_alap_teams_and_limits.

(* ---- second granularity (Model/SubSlot.v): NoIdle - there is a bound b (the task's own start if pinned, else no
   earlier than the inherited start and every predecessor's end (start) plus gap) such that every slot from the slot
   of b up to the last slot the task booked, in which the task has no entry, is in the FINAL ledger outside the
   working time of its resource, or full (at most 1e-6 s left), or closed by a limit whose count for that period has
   reached its value *)
Require Import SP.Model.SubSlot SP.Proofs.SubSlotProofs SP.Proofs.SubSlotIdle.
Theorem C08_subslot : forall p, wf p -> forall t f e,
  sleaf_dates (sschedule p) t = Some (f, e) -> s_mile (stask_of p t) = false -> NoIdle p (sschedule p) t.
Proof. exact subslot_no_idle. Qed.
Print Assumptions C08_subslot.

(* ---- second granularity, teams with limits (Model/SubSlotTeam.v), no member allocated twice: TNoIdle - there is a
   bound b as above such that for every slot from the slot of b up to the last slot the team booked, in which no member
   has an entry of the task, some member r of the team is in the FINAL ledger off, or full (at most 1e-6 s left), or
   closed by a limit whose count for that period, together with the tentative bookings of the members checked before r
   (TaskScenario._countTentativeBooking), has reached its value *)
Require Import SP.Model.SubSlotTeam SP.Proofs.SubSlotTeamProofs SP.Proofs.SubSlotTeamIdle.
Theorem C08_subslot_teams : forall p, twf p -> (forall t, NoDup (tt_team (ttask_of p t))) -> forall t f e,
  sleaf_dates (tschedule p) t = Some (f, e) -> tt_mile (ttask_of p t) = false -> TNoIdle p (tschedule p) t.
Proof. exact team_no_idle. Qed.
Print Assumptions C08_subslot_teams.
