(* C08 - No eligible working time is left idle (ASAP, scheduler model): for a task on a single resource
   with no limit in play, every slot between its dependency bound and its end is used by the task,
   lies outside the resource's working time, or is booked for another task - in the final ledger.
   The ALAP half is checked on the implementation only. *)
From Coq Require Import List Arith.
Require Import SP.Model.Sched SP.Proofs.SchedWalk SP.Proofs.SchedFinal.
Import ListNotations.

Theorem C08_asap : forall p t r f e,
  leaf_dates (schedule p) t = Some (f, e) -> t_need (task_of p t) <> 0 ->
  t_team (task_of p t) = [r] -> limits_of p t r = [] ->
  exists b, b <= f /\
    (t_pin (task_of p t) = None -> forall d, In d (t_deps (task_of p t)) ->
       exists s' e', dates p (schedule p) (d_task d) = Some (s', e') /\ (if d_onstart d then s' else e') + d_gap d <= b) /\
    forall x, b <= x -> x < e ->
      In (mk t r x) (bookings (schedule p)) \/ r_work (res_of p r) x = false \/
      exists y, In y (bookings (schedule p)) /\ b_res y = r /\ b_slot y = x /\ b_task y <> t.
Proof. exact no_idle. Qed.
Print Assumptions C08_asap.
