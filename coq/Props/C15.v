(* C15 - Equivalent ways of writing a project give the same schedule (reference resolution model).
   C15_rename: resolving a reference yields a POSITION in the task tree; renaming all ids by any
   injective function leaves every resolved position unchanged, for absolute and relative ('!', '!!', ...)
   references - and the scheduler model never sees names, only positions.
   C15_relative_absolute: a relative reference and the absolute one that spells the same chain below the
   same base resolve to the same task.  C15_precedes: writing 'a precedes b {opts}' instead of
   'b depends a {opts}' yields the same edges up to order, and the dependency bound is order-independent.
   Comments, whitespace, macros and inline shifts are decided by the rewrite runs of harness/props/c15.py. *)
From Coq Require Import List Arith Permutation.
Require Import SP.Model.Parse SP.Proofs.ParseProofs.
Import ListNotations.

Theorem C15_rename_absolute : forall r, (forall a b, r a = r b -> a = b) -> forall forest ids,
  resolve_abs (map (rename r) forest) (map r ids) = resolve_abs forest ids.
Proof. intros; now apply resolve_abs_rename. Qed.
Print Assumptions C15_rename_absolute.

Theorem C15_rename_relative : forall r, (forall a b, r a = r b -> a = b) -> forall forest from n ids,
  resolve_rel (map (rename r) forest) from n (map r ids) = resolve_rel forest from n ids.
Proof. intros; now apply resolve_rel_rename. Qed.
Print Assumptions C15_rename_relative.

Theorem C15_relative_absolute : forall forest base t base_ids ids,
  base <> [] -> at_pos base forest = Some t -> resolve_abs forest base_ids = Some base ->
  resolve_abs forest (base_ids ++ ids) =
  match descend ids (tkids t) with Some p => Some (base ++ p) | None => None end.
Proof. intros; now apply descend_at_pos. Qed.
Print Assumptions C15_relative_absolute.

Theorem C15_precedes : forall (O : Type) (deps prec : list (nat * nat * O)) b a o,
  Permutation (edges_of ((b, a, o) :: deps) prec) (edges_of deps ((a, b, o) :: prec)).
Proof. intros; apply edges_precedes_perm. Qed.

Theorem C15_bound_order_independent : forall (f : nat -> nat) l l', Permutation l l' -> forall acc,
  fold_left (fun a d => Nat.max a (f d)) l acc = fold_left (fun a d => Nat.max a (f d)) l' acc.
Proof. exact fold_max_perm. Qed.
Print Assumptions C15_bound_order_independent.

(* non-vacuity: grp{x,y}, x at top level: absolute 'x' is the top-level one, '!x' from grp.y is grp.x *)
Example C15_example :
  let forest := [Node 1 [Node 7 []; Node 8 []]; Node 7 []] in
  resolve_abs forest [7] = Some [1] /\ resolve_rel forest [0; 1] 1 [7] = Some [0; 0] /\ resolve_abs forest [1; 7] = Some [0; 0].
Proof. repeat split. Qed.
