(* C15 placeholder (Model/Parse.v theorems follow in a later commit) *)
From Coq Require Import List.
Theorem C15_placeholder : forall (A B : Type) (f : A -> B) (l1 l2 : list A), map f (l1 ++ l2) = map f l1 ++ map f l2.
Proof. intros; apply map_app. Qed.
