(* C14 - Shifting the calendar by whole weeks shifts the schedule by the same amount.
   Every date enters the scheduler model only through (a) the per-slot working flags of the resources and
   (b) the per-slot period indexes of the limits; slots are relative to the project start.  Both tables
   are invariant when the project start and every leave / vacation / holiday interval move by the same
   whole number of weeks - for every hours table (or the default calendar), every interval list, every
   start, resolution and horizon, across month and year ends, leap days and 53-week years (no calendar
   case analysis is involved: weekday, hour, minute, day and Monday-week differences are arithmetic).
   Pinned starts, gaps and deadlines are slot offsets from the start and do not change.  Equal tables give
   the same model run, so every reported date moves by exactly the offset.  The period index is the
   REGENERATED Limit._idx_to_sb_idx; hours_spec is proved equal to the regenerated on-shift tests (C02). *)
From Coq Require Import ZArith List Bool.
Require Import SP.Base.PyRt SP.Spec.Hours SP.Gen.LimitsPy SP.Model.Calendar SP.Proofs.ShiftProofs SP.Proofs.LimitsIdx.
Open Scope Z_scope.

Theorem C14_working_table : forall tbl off start g upper k,
  work_table tbl (map (shift_iv (604800 * k)) off) (start + 604800 * k) g upper = work_table tbl off start g upper.
Proof. exact work_table_shift. Qed.
Print Assumptions C14_working_table.

Theorem C14_period_table : forall start g period upper k, period = 86400 \/ period = 604800 ->
  period_table (start + 604800 * k) g period upper = period_table start g period upper.
Proof. exact period_table_shift. Qed.
Print Assumptions C14_period_table.

Theorem C14_period_index : forall start g p i k, p = 86400 \/ p = 604800 ->
  Limit_idx_to_sb_idx (start + 604800 * k) g p i = Limit_idx_to_sb_idx start g p i.
Proof. intros; now apply idx_shift_weeks. Qed.
