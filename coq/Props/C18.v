(* C18 - Reports say what was scheduled (model of the format-independent table and its renderings):
   one body row per task in declaration order, leaves only when so requested; every cell is the
   formatting function applied to the task (a pure function of the schedule: generating reports cannot
   alter it); with distinct column titles the JSON record of a row carries, under title j, exactly the
   CSV cell (row, j).  Formatting (strftime, %.2f) and the schedule lookup are compared with the
   implementation by harness/props/c18.py, which recomputes every expected cell from the ledger. *)
From Coq Require Import List Bool Arith.
Require Import SP.Model.Report SP.Proofs.ReportProofs.
Import ListNotations.

Theorem C18_rows : forall (T C : Type) (is_leaf : T -> bool) (cell : T -> nat -> C) leaf_only ncols tasks,
  length (body is_leaf cell leaf_only ncols tasks) = length (filter (kept is_leaf leaf_only) tasks) /\
  forall i t, nth_error (filter (kept is_leaf leaf_only) tasks) i = Some t ->
              nth_error (body is_leaf cell leaf_only ncols tasks) i = Some (row cell ncols t).
Proof. intros; apply body_rows. Qed.
Print Assumptions C18_rows.

Theorem C18_all_tasks : forall (T C : Type) (is_leaf : T -> bool) (cell : T -> nat -> C) ncols tasks,
  body is_leaf cell false ncols tasks = map (row cell ncols) tasks.
Proof. intros; apply body_all. Qed.

Theorem C18_cells : forall (T C : Type) (cell : T -> nat -> C) ncols t j, j < ncols ->
  nth_error (row cell ncols t) j = Some (cell t j).
Proof. intros; now apply row_cell. Qed.

Theorem C18_json_csv : forall (C H : Type) (eqb : H -> H -> bool), (forall a b, eqb a b = true <-> a = b) ->
  forall (titles : list H) (r : list C) j h c, NoDup titles -> length r = length titles ->
  nth_error titles j = Some h -> nth_error r j = Some c ->
  dict_last eqb h (record titles r) = Some c.
Proof. intros C H eqb Hs titles r j h c. unfold record. now apply dict_last_combine. Qed.
Print Assumptions C18_json_csv.

(* the hypothesis matters: with a repeated title the JSON record keeps one of the two cells only *)
Example C18_duplicate_titles_collapse :
  dict_last Nat.eqb 7 (record [7; 7] [1; 2]) = Some 2 /\ nth_error [1; 2] 0 = Some 1.
Proof. split; reflexivity. Qed.
