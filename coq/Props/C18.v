(* C18 placeholder - replaced by Model/Report.v theorems below in a later commit *)
From Coq Require Import List.
Theorem C18_placeholder : forall (A : Type) (l : list A), map (fun x => x) l = l.
Proof. intros; apply map_id. Qed.
