(* C12 placeholder (Model/Attr.v theorems follow in a later commit) *)
From Coq Require Import List.
Theorem C12_placeholder : forall (A : Type) (l : list A), l ++ nil = l.
Proof. intros; apply app_nil_r. Qed.
