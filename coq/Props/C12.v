(* C12 - Same input, same output - independent of history and process state (model of the
   process-global attribute mode, Model/Attr.v).
   C12_history: the result of processing a text does not depend on the global state left by ANY
   sequence of earlier runs (successful or failing): every run re-initialises the mode before any
   attribute is stamped.  C12_needs_reset: without that re-initialisation the claim is false whenever
   the schedule depends on the provided/inherited stamp (it does: a task's own start pins it).
   C12_reschedule: schedule() on an already scheduled project is the identity (each scenario is
   scheduled once).  Hash-seed independence, reuse of parser objects and report bytes are decided by the
   runs of harness/props/c12.py (partial). *)
From Coq Require Import List Arith Bool.
Require Import SP.Model.Attr SP.Proofs.AttrProofs.
Import ListNotations.

Theorem C12_history : forall (Text Proj Res : Type) (parse : Text -> option Proj) (sched : bool -> Proj -> Res) g h t,
  snd (run parse sched (after parse sched g h) t) = snd (run parse sched g t).
Proof. intros; apply history_independent. Qed.
Print Assumptions C12_history.

Theorem C12_needs_reset : forall (Text Proj Res : Type) (parse : Text -> option Proj) (sched : bool -> Proj -> Res) pr t,
  parse t = Some pr -> sched true pr <> sched false pr ->
  exists g1 g2, snd (run_noreset parse sched g1 t) <> snd (run_noreset parse sched g2 t).
Proof. intros; eapply noreset_refuted; eassumption. Qed.

Theorem C12_reschedule : forall (S : Type) (step : nat -> S -> S) nsc st,
  let r := schedule_once step nsc [] st in schedule_once step nsc (fst r) (snd r) = r.
Proof. intros; apply reschedule_identity. Qed.
Print Assumptions C12_reschedule.
