(* C13 - Compiled fast paths and pure-Python fallbacks are equivalent.
   Both sides of every equation are REGENERATED from /repo on every run: the *_cy definitions
   from scriptplan/_cython/*.pyx (C ints written out as 32-bit wrap-around, C division semantics
   when cdivision=True) and the *_py definitions from the pure-Python fallbacks, including the
   wrapper methods with _USE_CYTHON true / false.  Hypotheses in_c_int state the argument range in
   which the C ints of the compiled side do not wrap (|index * resolution| < 2^31 seconds, i.e.
   horizons below 68 years). *)
From Coq Require Import ZArith List Bool.
Require Import SP.Base.PyRt SP.Gen.ScoreboardCy SP.Gen.ScoreboardPy SP.Gen.TimeUtilsCy SP.Gen.ProjectPy
               SP.Gen.WorkingHoursCy SP.Gen.WorkingHoursPy SP.Spec.Hours SP.Spec.Runs
               SP.Proofs.CythonEq SP.Proofs.CollectPy SP.Proofs.HoursProofs.
Import ListNotations.
Open Scope Z_scope.

Theorem C13_scoreboard_idx_to_date : forall s e r size i f, in_c_int (i * r) ->
  Scoreboard_idxToDate_cy s e r size i f = Scoreboard_idxToDate_py s e r size i f.
Proof. intros; eapply sb_idxToDate_eq; eassumption. Qed.
Print Assumptions C13_scoreboard_idx_to_date.

Theorem C13_scoreboard_date_to_idx : forall s e r size t f, in_c_int (py_trunc_div (t - s) r) ->
  Scoreboard_dateToIdx_cy s e r size t f = Scoreboard_dateToIdx_py s e r size t f.
Proof. intros; eapply sb_dateToIdx_eq; eassumption. Qed.
Print Assumptions C13_scoreboard_date_to_idx.

Theorem C13_collect_intervals : forall (V : Type) sd ed r size (sb : list V) pred iv minDuration sI eI,
  1 <= size ->
  Scoreboard_dateToIdx_py sd ed r size (fst iv) true = Ok sI ->
  Scoreboard_dateToIdx_py sd ed r size (snd iv) true = Ok eI ->
  sI <= eI + 1 ->
  in_c_int (py_trunc_div (fst iv - sd) r) -> in_c_int (py_trunc_div (snd iv - sd) r) ->
  size < 2147483647 -> py_len sb < 2147483648 ->
  Scoreboard_collectIntervals_cy sd ed r size sb iv minDuration pred
  = Scoreboard_collectIntervals_py sd ed r size sb iv minDuration pred.
Proof. intros; eapply collectIntervals_cy_eq_py; eassumption. Qed.
Print Assumptions C13_collect_intervals.

Theorem C13_project_date_to_idx : forall s g t f, in_c_int (py_trunc_div (t - s) g) ->
  Project_dateToIdx_cy s g t f = Project_dateToIdx_py s g t f.
Proof. intros; eapply prj_dateToIdx_eq; eassumption. Qed.
Print Assumptions C13_project_date_to_idx.

Theorem C13_project_idx_to_date : forall s g i, in_c_int (i * g) ->
  Project_idxToDate_cy s g i = Project_idxToDate_py s g i.
Proof. intros; eapply prj_idxToDate_eq; eassumption. Qed.
Print Assumptions C13_project_idx_to_date.

Theorem C13_scoreboard_size : forall s e g,
  in_c_int (py_trunc_div (e - s) g) -> in_c_int (py_trunc_div (e - s) g + 1) ->
  scoreboard_size_cy s e g = Project_scoreboardSize_nosb s e g.
Proof. intros; eapply prj_size_eq; eassumption. Qed.
Print Assumptions C13_scoreboard_size.

(* the on-shift test: every hours table with components up to 1000, every instant *)
Theorem C13_on_shift : forall tbl dt, table_small tbl ->
  WorkingHours_onShift_local_cy tbl dt = WorkingHours_onShift_local_py tbl dt.
Proof. intros; eapply onShift_cy_eq_py; eassumption. Qed.
Print Assumptions C13_on_shift.

(* daily hours: equal integral minute counts, and the compiled side returns a C double *)
Theorem C13_daily_hours : forall tbl wd, table_small tbl ->
  (forall x, In x (dict_get_list tbl wd) -> iv_end x >= iv_start x) ->
  py_len (dict_get_list tbl wd) <= 1000 ->
  WorkingHours_get_daily_minutes_cy tbl wd = WorkingHours_get_daily_minutes_py tbl wd.
Proof. intros; eapply daily_minutes_cy_eq_py; eassumption. Qed.
Print Assumptions C13_daily_hours.

Theorem C13_no_narrowing_return_types :
  calculate_daily_minutes_cy_ret_ctype = 3%nat /\ check_working_hours_fast_ret_ctype = 2%nat /\
  date_to_idx_fast_ret_ctype = 1%nat /\ idx_to_date_fast_ret_ctype = 0%nat /\
  collect_intervals_fast_ret_ctype = 0%nat /\ project_date_to_idx_ret_ctype = 1%nat /\
  project_idx_to_date_ret_ctype = 0%nat /\ scoreboard_size_cy_ret_ctype = 1%nat.
Proof. repeat split; reflexivity. Qed.

(* non-vacuity: real arguments satisfy the range hypotheses *)
Example C13_example_range : in_c_int (py_trunc_div (1767225600 - 1735689600) 3600) /\ in_c_int (8760 * 3600).
Proof. unfold in_c_int; vm_compute; repeat split; discriminate. Qed.
