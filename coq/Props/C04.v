(* C04 - Dependencies and gaps are respected (forward mode, scheduler model, every project):
   a scheduled task without a start of its own starts no earlier than end (start for on-start edges)
   of every predecessor plus the gap - own, inherited and 'precedes'-created edges are all in t_deps -
   and no earlier than the start inherited from a dated container; every predecessor is scheduled.
   Backward (ALAP) mode is outside the model: it is checked on the implementation only (DESIGN.md). *)
From Coq Require Import List Arith.
Require Import SP.Model.Sched SP.Proofs.SchedFinal.

Theorem C04_asap : forall p t f e, leaf_dates (schedule p) t = Some (f, e) -> t_pin (task_of p t) = None ->
  t_lb (task_of p t) <= f /\
  forall d, In d (t_deps (task_of p t)) ->
    exists s' e', dates p (schedule p) (d_task d) = Some (s', e') /\
                  (if d_onstart d then s' else e') + d_gap d <= f.
Proof. exact deps_respected. Qed.
Print Assumptions C04_asap.
