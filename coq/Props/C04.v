(* C04 - Dependencies and gaps are respected (forward mode, scheduler model, every project):
   a scheduled task without a start of its own starts no earlier than end (start for on-start edges)
   of every predecessor plus the gap - own, inherited and 'precedes'-created edges are all in t_deps -
   and no earlier than the start inherited from a dated container; every predecessor is scheduled.
   Backward (ALAP) mode: C04_alap - a task without an end of its own ends no later than the start of every
   successor minus the gap and no later than the deadline of every enclosing container; every successor is
   scheduled.  On-start edges in backward mode and mixed chains are not claimed (as in the property). *)
From Coq Require Import List Arith ZArith.
Require Import SP.Model.Sched SP.Proofs.SchedFinal.
Require Import SP.Model.Alap SP.Proofs.AlapProofs.
Require Import SP.Model.Ledger SP.Model.SubSlot SP.Proofs.SubSlotProofs.

Theorem C04_asap : forall p t f e, leaf_dates (schedule p) t = Some (f, e) -> t_pin (task_of p t) = None ->
  t_lb (task_of p t) <= f /\
  forall d, In d (t_deps (task_of p t)) ->
    exists s' e', dates p (schedule p) (d_task d) = Some (s', e') /\
                  (if d_onstart d then s' else e') + d_gap d <= f.
Proof. exact deps_respected. Qed.
Print Assumptions C04_asap.

(* ---- backward (ALAP) mode: the project record is read backwards (Model/Alap.v: t_deps = successor edges,
   t_pin = own end, t_lb = earliest deadline of the enclosing containers, n = p_upper slots) and the schedule
   is the mirror image of the forward schedule of the mirrored project *)
Theorem C04_alap : forall p t f e,
  alap_leaf_dates p t = Some (f, e) -> t_pin (task_of p t) = None -> t < length (p_tasks p) ->
  e <= t_lb (task_of p t) /\
  forall d, In d (t_deps (task_of p t)) ->
    exists s' e', alap_dates p (d_task d) = Some (s', e') /\ e + d_gap d <= (if d_onstart d then e' else s').
Proof. exact alap_deps_respected. Qed.
Print Assumptions C04_alap.

(* non-vacuity: 8 slots, one resource working throughout; t0 (2 slots) must end one slot before t1 (1 slot)
   starts; backward scheduling puts t1 in the last slot and t0 in slots 4 and 5 *)
Example C04_alap_example :
  let r := {| r_work := fun _ => true; r_limits := nil |} in
  let t0 := {| t_leaf := true; t_kids := nil; t_leaves := nil; t_prio := 500%Z; t_need := 2; t_team := 0 :: nil;
               t_deps := {| d_task := 1; d_onstart := false; d_gap := 1 |} :: nil; t_pin := None; t_lb := 8; t_limits := nil |} in
  let t1 := {| t_leaf := true; t_kids := nil; t_leaves := nil; t_prio := 500%Z; t_need := 1; t_team := 0 :: nil;
               t_deps := nil; t_pin := None; t_lb := 8; t_limits := nil |} in
  let p := {| p_tasks := t0 :: t1 :: nil; p_res := r :: nil; p_limits := nil; p_upper := 8 |} in
  alap_results p = Some (4, 6) :: Some (7, 8) :: nil.
Proof. vm_compute. reflexivity. Qed.

(* ---- second granularity (Model/SubSlot.v: arbitrary efforts, efficiencies and gaps, tasks that begin and end
   inside slots and share them; one resource per task, no limits), for every well-formed project
   (wf: slot length > 0, efficiencies > 0, a task with work has a positive effort) *)
Theorem C04_subslot : forall p, wf p -> forall t f e, sleaf_dates (sschedule p) t = Some (f, e) ->
  (s_pin (stask_of p t) = None ->
     (s_lb (stask_of p t) <= f)%Z /\
     forall d, In d (s_deps (stask_of p t)) ->
       exists s' e', sdates p (sschedule p) (sd_task d) = Some (s', e') /\
                     ((if sd_onstart d then s' else e') + sd_gap d <= f)%Z) /\
  (forall s, s_pin (stask_of p t) = Some s -> (s <= f)%Z /\ (s_mile (stask_of p t) = true -> f = s)).
Proof. exact subslot_deps. Qed.
Print Assumptions C04_subslot.

(* ---- second granularity, teams with limits (Model/SubSlotTeam.v), every well-formed project *)
Require Import SP.Model.SubSlotTeam SP.Proofs.SubSlotTeamProofs SP.Proofs.SubSlotTeamDates.
Theorem C04_subslot_teams : forall p, twf p -> forall t f e, sleaf_dates (tschedule p) t = Some (f, e) ->
  (tt_pin (ttask_of p t) = None ->
     (tt_lb (ttask_of p t) <= f)%Z /\
     forall d, In d (tt_deps (ttask_of p t)) ->
       exists s' e', tdates p (tschedule p) (sd_task d) = Some (s', e') /\
                     ((if sd_onstart d then s' else e') + sd_gap d <= f)%Z) /\
  (forall s, tt_pin (ttask_of p t) = Some s -> (s <= f)%Z /\ (tt_mile (ttask_of p t) = true -> f = s)).
Proof. exact team_deps. Qed.
Print Assumptions C04_subslot_teams.
