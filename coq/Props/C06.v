(* C06 - Reported start and end frame exactly the booked work (scheduler model, whole slots):
   a milestone has start = end; a task with work has start < end, every team member is booked in
   the slot of the start and in the slot before the end, and every booking of the task lies in
   [start, end).  Sub-slot placement inside a slot is covered at cell level (C01/C03) and on the
   implementation by the oracle of harness/oracles.py. *)
From Coq Require Import List Arith ZArith.
Require Import SP.Model.Sched SP.Proofs.SchedWalk SP.Proofs.SchedFinal.
Require Import SP.Model.Alap SP.Proofs.AlapProofs.
Require Import SP.Model.Ledger SP.Model.SubSlot SP.Proofs.SubSlotProofs.

Theorem C06_frame : forall p t f e, leaf_dates (schedule p) t = Some (f, e) ->
  (t_need (task_of p t) = 0 -> f = e) /\
  (t_need (task_of p t) <> 0 ->
     f < e /\
     (forall r, In r (t_team (task_of p t)) ->
        In (mk t r f) (bookings (schedule p)) /\ In (mk t r (e - 1)) (bookings (schedule p))) /\
     (forall x, In x (bookings (schedule p)) -> b_task x = t -> f <= b_slot x < e)).
Proof. exact frame. Qed.
Print Assumptions C06_frame.

(* ---- backward (ALAP) mode: the project record is read backwards (Model/Alap.v: t_deps = successor edges,
   t_pin = own end, t_lb = earliest deadline of the enclosing containers, n = p_upper slots) and the schedule
   is the mirror image of the forward schedule of the mirrored project *)
Theorem C06_alap : forall p t f e, alap_leaf_dates p t = Some (f, e) ->
  (t_need (task_of p t) = 0 -> f = e) /\
  (t_need (task_of p t) <> 0 ->
     f < e /\
     (forall r, In r (t_team (task_of p t)) -> In (mk t r f) (alap_bookings p) /\ In (mk t r (e - 1)) (alap_bookings p)) /\
     (forall x, In x (alap_bookings p) -> b_task x = t -> f <= b_slot x < e)).
Proof. exact alap_frame. Qed.
Print Assumptions C06_alap.

(* ---- second granularity (Model/SubSlot.v: arbitrary efforts, efficiencies and gaps, tasks that begin and end
   inside slots and share them; one resource per task, no limits), for every well-formed project
   (wf: slot length > 0, efficiencies > 0, a task with work has a positive effort) *)
(* with C03_subslot (every booked slot s satisfies s*G <= end and start < (s+1)*G) this is the frame at second
   granularity; a milestone has start = end *)
Theorem C06_subslot : forall p, wf p -> forall t f e, sleaf_dates (sschedule p) t = Some (f, e) ->
  (f <= e)%Z /\ (s_mile (stask_of p t) = true -> f = e).
Proof. exact subslot_frame. Qed.
Print Assumptions C06_subslot.

(* ---- second granularity, teams with limits (Model/SubSlotTeam.v): start <= end, a milestone has start = end *)
Require Import SP.Model.SubSlotTeam SP.Proofs.SubSlotTeamProofs SP.Proofs.SubSlotTeamDates.
Theorem C06_subslot_teams : forall p, twf p -> forall t f e, sleaf_dates (tschedule p) t = Some (f, e) ->
  (f <= e)%Z /\ (tt_mile (ttask_of p t) = true -> f = e).
Proof. exact team_frame. Qed.
Print Assumptions C06_subslot_teams.
