(* C06 - Reported start and end frame exactly the booked work (scheduler model, whole slots):
   a milestone has start = end; a task with work has start < end, every team member is booked in
   the slot of the start and in the slot before the end, and every booking of the task lies in
   [start, end).  Sub-slot placement inside a slot is covered at cell level (C01/C03) and on the
   implementation by the oracle of harness/oracles.py. *)
From Coq Require Import List Arith.
Require Import SP.Model.Sched SP.Proofs.SchedWalk SP.Proofs.SchedFinal.

Theorem C06_frame : forall p t f e, leaf_dates (schedule p) t = Some (f, e) ->
  (t_need (task_of p t) = 0 -> f = e) /\
  (t_need (task_of p t) <> 0 ->
     f < e /\
     (forall r, In r (t_team (task_of p t)) ->
        In (mk t r f) (bookings (schedule p)) /\ In (mk t r (e - 1)) (bookings (schedule p))) /\
     (forall x, In x (bookings (schedule p)) -> b_task x = t -> f <= b_slot x < e)).
Proof. exact frame. Qed.
Print Assumptions C06_frame.
