(* C03 - A scheduled task receives exactly its effort.
   (a) slot granularity, scheduler model: a placed task with t_need = k > 0 holds in the final ledger
       exactly k blocks, each block being one slot booked for EVERY member of its team - never less, and
       never a further slot; the team is booked for the same slots (C03_exact_slots).  t_need is the
       requested effort divided by (slot length x efficiency), computed by the harness encoder.
   (b) sub-slot: the amount a finishing task keeps of its last slot is min(need, booked) and the rest is
       given back (C03_release, cell model) - with C01_cell this is the discipline behind "to within the
       one-second rounding".
   The efficiency arithmetic itself, alternatives (exactly one candidate set) and ALAP are decided on the
   implementation by oracles.c03 (partial). *)
From Coq Require Import QArith Qminmax List Arith.
Require Import SP.Model.Ledger SP.Proofs.LedgerProofs SP.Model.Sched SP.Proofs.SchedWalk SP.Proofs.SchedFinal.
Require Import SP.Model.Alap SP.Proofs.AlapProofs.
Require Import SP.Model.Ledger SP.Model.SubSlot SP.Proofs.SubSlotProofs.
Import ListNotations.

Theorem C03_exact_slots : forall p t f e,
  leaf_dates (schedule p) t = Some (f, e) -> t_need (task_of p t) <> 0%nat ->
  exists ss, length ss = t_need (task_of p t) /\
             filter (fun x => Nat.eqb (b_task x) t) (bookings (schedule p)) = concat (map (block p t) ss).
Proof. exact exact_slots. Qed.
Print Assumptions C03_exact_slots.

Theorem C03_release : forall t need l l' booked kept,
  (0 <= need)%Q -> Forall (fun e => 0 <= snd e)%Q l ->
  release_last t need l = Some (l', booked, kept) ->
  (total l' == total l - booked + kept)%Q /\ (0 <= kept)%Q /\ (kept <= booked)%Q /\ (kept <= need)%Q.
Proof. intros t need l l' booked kept H1 H2 H3. destruct (release_last_spec _ _ _ _ _ _ H1 H2 H3) as (A & B & C & D & _). repeat split; assumption. Qed.
Print Assumptions C03_release.

(* ---- backward (ALAP) mode: the project record is read backwards (Model/Alap.v: t_deps = successor edges,
   t_pin = own end, t_lb = earliest deadline of the enclosing containers, n = p_upper slots) and the schedule
   is the mirror image of the forward schedule of the mirrored project *)
Theorem C03_alap : forall p t f e, alap_leaf_dates p t = Some (f, e) -> t_need (task_of p t) <> 0%nat ->
  exists ss, length ss = t_need (task_of p t) /\
             filter (fun x => Nat.eqb (b_task x) t) (alap_bookings p) = concat (map (block p t) ss).
Proof. exact alap_exact_slots. Qed.
Print Assumptions C03_alap.

(* ---- second granularity (Model/SubSlot.v: arbitrary efforts, efficiencies and gaps, tasks that begin and end
   inside slots and share them; one resource per task, no limits), for every well-formed project
   (wf: slot length > 0, efficiencies > 0, a task with work has a positive effort) *)
(* Booked: the task has exactly one entry (t, x) in each booked slot and none elsewhere; every booked slot is
   working time and overlaps [start, end]; effort - 9/2500000 <= (sum of the x) * efficiency <= effort *)
Theorem C03_subslot : forall p, wf p -> forall t f e,
  sleaf_dates (sschedule p) t = Some (f, e) -> s_mile (stask_of p t) = false ->
  exists bs, Booked p (sschedule p) t f e bs.
Proof. exact subslot_effort. Qed.
Print Assumptions C03_subslot.

(* ---- second granularity, teams (Model/SubSlotTeam.v): TBooked - for EVERY member exactly one entry in each booked
   slot, all of the same length (xr == x: the members work the same seconds), no entry anywhere else, every booked
   slot working time of every member, effort - 9/2500000 <= (sum of x) * best efficiency <= effort *)
Require Import SP.Model.SubSlotTeam SP.Proofs.SubSlotTeamProofs SP.Proofs.SubSlotTeamEffort.
Theorem C03_subslot_teams : forall p, twf p -> forall t d,
  sleaf_dates (tschedule p) t = Some d -> tt_mile (ttask_of p t) = false ->
  multi (tt_team (ttask_of p t)) = true -> NoDup (tt_team (ttask_of p t)) -> TBooked p (tschedule p) t.
Proof. exact team_same_instants. Qed.
Print Assumptions C03_subslot_teams.
