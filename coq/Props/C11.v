(* C11 - Scheduling is total.  In the model termination is structural: the main loop runs on fuel =
   length of the work list and removes one task per iteration, each slot walk on fuel = slots left
   to the horizon - [schedule] is a total Gallina function, so it terminates within
   (#leaves) x (#slots + 1) walk steps.  What remains to state: no slot outside the horizon is ever
   touched (so no scoreboard index error can arise: C17_outside_rejected is never triggered), and a
   task placed by the loop lies inside the horizon. *)
From Coq Require Import List Arith.
Require Import SP.Model.Sched SP.Proofs.SchedInv SP.Proofs.SchedMain SP.Proofs.SchedFinal.
Require Import SP.Model.Alap SP.Proofs.AlapProofs.

Theorem C11_slots_in_horizon : forall p b, In b (bookings (schedule p)) -> b_slot b <= p_upper p.
Proof. intros p. apply (inv_range p _ (schedule_inv p)). Qed.
Print Assumptions C11_slots_in_horizon.

Theorem C11_dates_in_horizon : forall p t f e, leaf_dates (schedule p) t = Some (f, e) ->
  t_pin (task_of p t) = None \/ t_need (task_of p t) <> 0 -> f <= e /\ e <= S (p_upper p).
Proof.
  intros p t f e Ht Hc. destruct (final_J p) as [rest HJ].
  destruct (j_good _ _ _ HJ t f e Ht) as [st0 b G1 G2 G3 G4 G5 G6 G7 G8 G9 G10].
  destruct (G7 Hc) as [A B]. split; [|exact A].
  destruct (Nat.eq_dec (t_need (task_of p t)) 0) as [Hn|Hn].
  - destruct (G8 Hn). subst. apply le_n.
  - destruct (G9 Hn) as (C & _). apply Nat.lt_le_incl. exact C.
Qed.
Print Assumptions C11_dates_in_horizon.

(* ---- backward (ALAP) mode: the project record is read backwards (Model/Alap.v: t_deps = successor edges,
   t_pin = own end, t_lb = earliest deadline of the enclosing containers, n = p_upper slots) and the schedule
   is the mirror image of the forward schedule of the mirrored project *)
Theorem C11_alap : forall p,
  (forall t f e, alap_leaf_dates p t = Some (f, e) -> f <= e /\ e <= p_upper p) /\
  (forall b, In b (alap_bookings p) -> b_slot b < p_upper p).
Proof. intros p. split; [exact (alap_dates_in_horizon p)|intros b Hb; exact (proj1 (alap_working p b Hb))]. Qed.
Print Assumptions C11_alap.

(* ---- second granularity: every slot a placed task booked lies inside the horizon (first clause of Booked) *)
Require Import SP.Model.SubSlot SP.Proofs.SubSlotProofs.
Theorem C11_subslot : forall p, wf p -> forall t f e,
  sleaf_dates (sschedule p) t = Some (f, e) -> s_mile (stask_of p t) = false ->
  exists bs, Booked p (sschedule p) t f e bs.
Proof. exact subslot_effort. Qed.
Print Assumptions C11_subslot.

(* ---- second granularity, teams with limits (Model/SubSlotTeam.v), for EVERY project (no well-formedness needed):
   every cell the scheduler writes, every booking event it records for the limits and every ledger entry of the final
   state lies in a slot 0 .. tp_upper - nothing outside the horizon is touched, whatever bounds, gaps and efforts say *)
Require Import SP.Model.SubSlotTeam SP.Proofs.SubSlotTeamProofs SP.Proofs.SubSlotTeamHorizon.
Theorem C11_subslot_teams : forall p,
  (forall r s, In (r, s) (stouched (tschedule p)) -> s <= tp_upper p) /\
  (forall t r s, In (t, r, s) (sbooked (tschedule p)) -> s <= tp_upper p) /\
  (forall t r s, SP.Proofs.SubSlotProofs.tent t (cells (tschedule p) r s) <> nil -> s <= tp_upper p).
Proof. exact team_horizon. Qed.
Print Assumptions C11_subslot_teams.

(* ... and for every well-formed team project (slot length > 0, efficiencies > 0, positive efforts) every reported start -
   of a milestone or of a task with work, placed by the pre-pass or by the main loop - lies inside the horizon:
   0 <= start < (tp_upper + 1) * G; with C06_subslot_teams (start <= end) no date before the project start is reported *)
From Coq Require Import ZArith.
Theorem C11_subslot_teams_starts : forall p, twf p -> forall t f e, sleaf_dates (tschedule p) t = Some (f, e) ->
  (0 <= f < (Z.of_nat (tp_upper p) + 1) * tp_G p)%Z.
Proof. exact team_starts_in_horizon. Qed.
Print Assumptions C11_subslot_teams_starts.
