(* C05 - Daily and weekly limits are never exceeded.
   (a) the regenerated period index of a limit is the calendar-day difference (daily) and the
       Monday-week difference (weekly): two slots share a counter iff they lie in the same calendar
       day / ISO week, for every start, resolution and slot index - no horizon bound;
   (b) in the scheduler model, for every limit and every period the number of bookings the limit
       counts never exceeds its value, in every reachable final state. *)
From Coq Require Import ZArith List.
Require Import SP.Base.PyRt SP.Gen.LimitsPy SP.Spec.Cal SP.Proofs.LimitsIdx SP.Model.Sched SP.Proofs.SchedInv.
Require Import SP.Model.Alap SP.Proofs.AlapProofs.
Open Scope Z_scope.

Theorem C05_daily_period : forall start g i j,
  Limit_idx_to_sb_idx start g 86400 i = Limit_idx_to_sb_idx start g 86400 j
  <-> day_of (start + i * g) = day_of (start + j * g).
Proof. exact daily_same. Qed.
Theorem C05_weekly_period : forall start g i j,
  Limit_idx_to_sb_idx start g 604800 i = Limit_idx_to_sb_idx start g 604800 j
  <-> week_of (start + i * g) = week_of (start + j * g).
Proof. exact weekly_same. Qed.
Theorem C05_period_nonneg : forall start g p i, 0 <= g -> 0 <= i -> p = 86400 \/ p = 604800 ->
  0 <= Limit_idx_to_sb_idx start g p i.
Proof. exact idx_nonneg. Qed.
Print Assumptions C05_weekly_period.

Theorem C05_schedule : forall p l k, (usage p (schedule p) l k <= l_value (lim_of p l))%nat.
Proof. intros p. apply (inv_limit p _ (schedule_inv p)). Qed.
Print Assumptions C05_schedule.

(* ---- backward (ALAP) mode: the project record is read backwards (Model/Alap.v: t_deps = successor edges,
   t_pin = own end, t_lb = earliest deadline of the enclosing containers, n = p_upper slots) and the schedule
   is the mirror image of the forward schedule of the mirrored project *)
Theorem C05_alap : forall p l k,
  (usage p {| bookings := alap_bookings p; placed := nil |} l k <= l_value (lim_of p l))%nat.
Proof. exact alap_limits. Qed.
Print Assumptions C05_alap.

(* ---- second granularity (Model/SubSlot.v): a limit counts BOOKINGS - one per (task, resource, slot) whatever
   part of the slot is used, which is what Limit.inc counts - and in every period it counts at most its value *)
Require Import SP.Model.SubSlot SP.Proofs.SubSlotProofs.
Theorem C05_subslot : forall p l k,
  (susage p (sschedule p) l k <= sl_value (slim_of p l))%nat.
Proof. exact subslot_limits. Qed.
Print Assumptions C05_subslot.

(* the same in terms of the ledger: the (task, resource, slot) cells holding work that a limit counts in one period are
   at most value many; each holds at most one slot length (C01_subslot), so the working time counted never exceeds
   value x slot length, which is the declared limit *)
Theorem C05_subslot_ledger : forall p l k (L : list (nat * nat * nat)), NoDup L ->
  (forall b, In b L -> tent (fst (fst b)) (cells (sschedule p) (snd (fst b)) (snd b)) <> nil /\
                      scounts p l b = true /\ sl_period (slim_of p l) (snd b) = k) ->
  (length L <= sl_value (slim_of p l))%nat.
Proof. exact subslot_limit_cells. Qed.
Print Assumptions C05_subslot_ledger.

(* ---- second granularity, teams (Model/SubSlotTeam.v): the limit check of each member sees the tentative bookings of
   the members checked before it (TaskScenario._countTentativeBooking), a member whose limit is used up is skipped
   when the members are booked; whatever the team, in every period every limit counts at most its value *)
Require Import SP.Model.SubSlotTeam SP.Proofs.SubSlotTeamLimits.
Theorem C05_subslot_teams : forall p l k,
  (tusage p (sbooked (tschedule p)) l k <= sl_value (tlim_of p l))%nat.
Proof. exact team_limits. Qed.
Print Assumptions C05_subslot_teams.

Theorem C05_subslot_teams_ledger : forall p l k (L : list (nat * nat * nat)), NoDup L ->
  (forall b, In b L -> tent (fst (fst b)) (cells (tschedule p) (snd (fst b)) (snd b)) <> nil /\
                      tcounts p l b = true /\ sl_period (tlim_of p l) (snd b) = k) ->
  (length L <= sl_value (tlim_of p l))%nat.
Proof. exact team_limit_cells. Qed.
Print Assumptions C05_subslot_teams_ledger.
