(* C09 - Lower-priority work never disturbs higher-priority work (scheduler model, every project):
   appending a task x that has strictly the lowest priority, on which nothing depends and which lies in no
   container, leaves the dates of EVERY other task (leaf or container) unchanged, the horizon being the
   same (p_upper is not changed by [extend]).  x itself may have any effort, team, limits, pinned start
   and dependencies ON other tasks.  The proof is a simulation of the two runs: x is last in the sorted
   work list, so it is picked only when no other remaining task is ready, and placing it makes nothing
   ready.  Other declaration positions of x and sub-slot efforts are covered by the two-run comparison on
   the implementation (harness/props/c09.py). *)
From Coq Require Import List Arith ZArith.
Require Import SP.Model.Sched SP.Proofs.SchedPrio.
Require Import SP.Model.Alap SP.Proofs.AlapProofs.

Theorem C09_lowest_priority_harmless : forall (p : project) (x : task),
  t_leaf x = true ->
  (forall t, t < length (p_tasks p) -> (t_prio x < t_prio (task_of p t))%Z) ->
  (forall t d, t < length (p_tasks p) -> In d (t_deps (task_of p t)) -> d_task d <> length (p_tasks p)) ->
  (forall t, t < length (p_tasks p) -> ~ In (length (p_tasks p)) (t_leaves (task_of p t))) ->
  forall u, u <> length (p_tasks p) ->
    dates (extend p x) (schedule (extend p x)) u = dates p (schedule p) u.
Proof. intros p x H1 H2 H3 H4 u Hu. now apply lowest_priority_harmless. Qed.
Print Assumptions C09_lowest_priority_harmless.

(* the new task is served last: it is the last element of the sorted work list *)
Theorem C09_served_last : forall (p : project) (x : task),
  t_leaf x = true -> (forall t, t < length (p_tasks p) -> (t_prio x < t_prio (task_of p t))%Z) ->
  sorted_leaves (extend p x) = sorted_leaves p ++ (length (p_tasks p) :: nil).
Proof. intros p x H1 H2. now apply sorted_leaves_extend. Qed.

(* ---- backward (ALAP) mode: the project record is read backwards (Model/Alap.v: t_deps = successor edges,
   t_pin = own end, t_lb = earliest deadline of the enclosing containers, n = p_upper slots) and the schedule
   is the mirror image of the forward schedule of the mirrored project *)
(* the new task is nobody's successor (it has no predecessor); it may have any effort, team, limits,
   deadline and successors of its own *)
Theorem C09_alap : forall (p : project) (x : task),
  t_leaf x = true ->
  (forall t, t < length (p_tasks p) -> (t_prio x < t_prio (task_of p t))%Z) ->
  (forall t d, t < length (p_tasks p) -> In d (t_deps (task_of p t)) -> d_task d <> length (p_tasks p)) ->
  (forall t, t < length (p_tasks p) -> ~ In (length (p_tasks p)) (t_leaves (task_of p t))) ->
  forall u, u <> length (p_tasks p) -> alap_dates (extend p x) u = alap_dates p u.
Proof. exact alap_lowest_priority_harmless. Qed.
Print Assumptions C09_alap.

(* ---- second granularity (Model/SubSlot.v: efforts, offsets and task ends inside a slot, limits counting bookings):
   the same statement - appending a leaf of strictly lowest priority on which nothing depends and which lies in no
   container leaves the dates of every other task unchanged *)
Require Import SP.Model.SubSlot SP.Proofs.SubSlotPrio.
Theorem C09_subslot : forall (p : sproject) (x : stask),
  s_leaf x = true ->
  (forall t, t < length (sp_tasks p) -> (s_prio x < s_prio (stask_of p t))%Z) ->
  (forall t d, t < length (sp_tasks p) -> In d (s_deps (stask_of p t)) -> sd_task d <> length (sp_tasks p)) ->
  (forall t, t < length (sp_tasks p) -> ~ In (length (sp_tasks p)) (s_leaves (stask_of p t))) ->
  forall u, u <> length (sp_tasks p) ->
    sdates (sextend p x) (sschedule (sextend p x)) u = sdates p (sschedule p) u.
Proof. exact subslot_lowest_priority_harmless. Qed.
Print Assumptions C09_subslot.
