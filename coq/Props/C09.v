(* C09 - Lower-priority work never disturbs higher-priority work (placeholder until Proofs/SchedPrio.v). *)
From Coq Require Import List Arith ZArith.
Require Import SP.Model.Sched SP.Proofs.SchedFinal.
(* the work list is sorted by priority: a task is inserted before the first task of strictly lower priority *)
Theorem C09_sorted_insert : forall p t l x, In x (insert p t l) <-> x = t \/ In x l.
Proof. exact insert_in. Qed.
