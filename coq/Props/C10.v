(* C10 - Containers summarise their children and book nothing (scheduler model): a container has
   dates exactly when every leaf below it has; then its start is the earliest and its end the latest
   among them; only leaf tasks are ever on the work list (and so in the ledger). *)
From Coq Require Import List Arith.
Require Import SP.Model.Sched SP.Proofs.SchedFinal.
Require Import SP.Model.Alap SP.Proofs.AlapProofs.

Theorem C10_summary : forall p c, t_leaf (task_of p c) = false -> t_leaves (task_of p c) <> nil ->
  (forall s e, dates p (schedule p) c = Some (s, e) ->
     (forall t, In t (t_leaves (task_of p c)) -> exists d, leaf_dates (schedule p) t = Some d) /\
     (forall t s' e', In t (t_leaves (task_of p c)) -> leaf_dates (schedule p) t = Some (s', e') -> s <= s' /\ e' <= e) /\
     (exists t s' e', In t (t_leaves (task_of p c)) /\ leaf_dates (schedule p) t = Some (s', e') /\ s' = s) /\
     (exists t s' e', In t (t_leaves (task_of p c)) /\ leaf_dates (schedule p) t = Some (s', e') /\ e' = e)) /\
  (dates p (schedule p) c = None -> exists t, In t (t_leaves (task_of p c)) /\ leaf_dates (schedule p) t = None).
Proof. exact container_summary. Qed.
Print Assumptions C10_summary.

Theorem C10_leaf_only : forall p t, In t (work0 p) -> t_leaf (task_of p t) = true.
Proof. exact in_work0_leaf. Qed.

(* ---- backward (ALAP) mode: the project record is read backwards (Model/Alap.v: t_deps = successor edges,
   t_pin = own end, t_lb = earliest deadline of the enclosing containers, n = p_upper slots) and the schedule
   is the mirror image of the forward schedule of the mirrored project *)
Theorem C10_alap : forall p c, t_leaf (task_of p c) = false -> t_leaves (task_of p c) <> nil ->
  (forall s e, alap_dates p c = Some (s, e) ->
     (forall t, In t (t_leaves (task_of p c)) -> exists d, alap_leaf_dates p t = Some d) /\
     (forall t s' e', In t (t_leaves (task_of p c)) -> alap_leaf_dates p t = Some (s', e') -> s <= s' /\ e' <= e) /\
     (exists t s' e', In t (t_leaves (task_of p c)) /\ alap_leaf_dates p t = Some (s', e') /\ s' = s) /\
     (exists t s' e', In t (t_leaves (task_of p c)) /\ alap_leaf_dates p t = Some (s', e') /\ e' = e)) /\
  (alap_dates p c = None -> exists t, In t (t_leaves (task_of p c)) /\ alap_leaf_dates p t = None).
Proof. exact alap_container_summary. Qed.
Print Assumptions C10_alap.

(* ---- second granularity (Model/SubSlot.v) *)
Require Import SP.Model.SubSlot SP.Proofs.SubSlotMore.
From Coq Require Import ZArith.
Theorem C10_subslot : forall p c, s_leaf (stask_of p c) = false -> s_leaves (stask_of p c) <> nil ->
  let st := sschedule p in
  (forall s e, sdates p st c = Some (s, e) ->
     (forall t, In t (s_leaves (stask_of p c)) -> exists d, sleaf_dates st t = Some d) /\
     (forall t s' e', In t (s_leaves (stask_of p c)) -> sleaf_dates st t = Some (s', e') -> (s <= s')%Z /\ (e' <= e)%Z) /\
     (exists t s' e', In t (s_leaves (stask_of p c)) /\ sleaf_dates st t = Some (s', e') /\ s' = s) /\
     (exists t s' e', In t (s_leaves (stask_of p c)) /\ sleaf_dates st t = Some (s', e') /\ e' = e)) /\
  (sdates p st c = None -> exists t, In t (s_leaves (stask_of p c)) /\ sleaf_dates st t = None).
Proof. exact subslot_container. Qed.
Print Assumptions C10_subslot.

(* ---- second granularity, teams with limits (Model/SubSlotTeam.v) *)
Require Import SP.Model.SubSlotTeam SP.Proofs.SubSlotTeamDates.
Theorem C10_subslot_teams : forall p c, tt_leaf (ttask_of p c) = false -> tt_leaves (ttask_of p c) <> nil ->
  let st := tschedule p in
  (forall s e, tdates p st c = Some (s, e) ->
     (forall t, In t (tt_leaves (ttask_of p c)) -> exists d, sleaf_dates st t = Some d) /\
     (forall t s' e', In t (tt_leaves (ttask_of p c)) -> sleaf_dates st t = Some (s', e') -> (s <= s')%Z /\ (e' <= e)%Z) /\
     (exists t s' e', In t (tt_leaves (ttask_of p c)) /\ sleaf_dates st t = Some (s', e') /\ s' = s) /\
     (exists t s' e', In t (tt_leaves (ttask_of p c)) /\ sleaf_dates st t = Some (s', e') /\ e' = e)) /\
  (tdates p st c = None -> exists t, In t (tt_leaves (ttask_of p c)) /\ sleaf_dates st t = None).
Proof. exact team_container. Qed.
Print Assumptions C10_subslot_teams.
