(* C02 - Work is booked only inside the resource's working time.
   (a) the regenerated weekday/minute interval tests (Python and Cython) equal the declarative
       working-time specification incl. cross-midnight intervals, for every table and instant;
   (b) in the scheduler model every booking lies in a slot in which its resource works (the model's
       calendar r_work; the correspondence recomputes it from the project text). *)
From Coq Require Import ZArith List Bool.
Require Import SP.Base.PyRt SP.Gen.WorkingHoursCy SP.Gen.WorkingHoursPy SP.Spec.Hours SP.Proofs.HoursProofs
               SP.Model.Sched SP.Proofs.SchedInv SP.Model.Calendar SP.Model.SchedIO SP.Proofs.CalendarProofs.
Require Import SP.Model.Alap SP.Proofs.AlapProofs.
Require Import SP.Model.Ledger SP.Model.SubSlot SP.Proofs.SubSlotProofs.
Import ListNotations.
Open Scope Z_scope.

Theorem C02_onshift_python : forall tbl dt,
  WorkingHours_onShift_local_py tbl dt = hours_spec tbl (dt_weekday dt) (minute_of_day dt).
Proof. exact onShift_py_spec. Qed.
Print Assumptions C02_onshift_python.

Theorem C02_onshift_cython : forall tbl m wd, table_small tbl -> 0 <= wd <= 6 ->
  check_working_hours_fast m wd tbl true = hours_spec tbl wd m.
Proof. intros; now apply check_working_hours_fast_spec. Qed.
Print Assumptions C02_onshift_cython.

Theorem C02_schedule : forall p b, In b (bookings (schedule p)) -> r_work (res_of p (b_res b)) (b_slot b) = true.
Proof. intros p. apply (inv_work p _ (schedule_inv p)). Qed.
Print Assumptions C02_schedule.

(* for a resource whose calendar is computed inside the model (weekly hours or the default calendar, minus
   leave / vacation / holiday intervals): every booking starts at an instant inside the declared hours
   (hours_spec, proved equal to the regenerated tests above) and outside every interval *)
Theorem C02_calendar : forall p b tbl off start g lims,
  In b (bookings (schedule p)) ->
  res_of p (b_res b) = mk_resource_cal tbl off start g (p_upper p) lims ->
  let t := slot_time start g (b_slot b) in
  existsb (in_iv t) off = false /\
  match tbl with Some tb => hours_spec tb (dt_weekday t) (minute_of_day t) | None => default_hours t end = true.
Proof. exact booking_in_calendar. Qed.
Print Assumptions C02_calendar.

(* non-vacuity: Monday 22:00-06:00 covers Monday 23:00 and Tuesday 03:00, not Monday 03:00 *)
Example C02_example :
  hours_spec [(0, [((22, 0), (6, 0))])] 0 (23 * 60) = true /\
  hours_spec [(0, [((22, 0), (6, 0))])] 1 (3 * 60) = true /\
  hours_spec [(0, [((22, 0), (6, 0))])] 0 (3 * 60) = false.
Proof. repeat split. Qed.

(* ---- backward (ALAP) mode: the project record is read backwards (Model/Alap.v: t_deps = successor edges,
   t_pin = own end, t_lb = earliest deadline of the enclosing containers, n = p_upper slots) and the schedule
   is the mirror image of the forward schedule of the mirrored project *)
Theorem C02_alap : forall p b, In b (alap_bookings p) ->
  (b_slot b < p_upper p)%nat /\ r_work (res_of p (b_res b)) (b_slot b) = true.
Proof. exact alap_working. Qed.
Print Assumptions C02_alap.

(* ---- second granularity (Model/SubSlot.v: arbitrary efforts, efficiencies and gaps, tasks that begin and end
   inside slots and share them; one resource per task, no limits), for every well-formed project
   (wf: slot length > 0, efficiencies > 0, a task with work has a positive effort) *)
Theorem C02_subslot : forall p, wf p -> forall r s,
  entries (cells (sschedule p) r s) <> nil -> sr_work (sres_of p r) s = true.
Proof. intros p H r s. exact (proj2 (sschedule_inv p H) r s). Qed.
Print Assumptions C02_subslot.

Require Import SP.Model.SubSlotTeam SP.Proofs.SubSlotTeamProofs.
Theorem C02_subslot_teams : forall p, twf p -> forall r s,
  entries (cells (tschedule p) r s) <> nil -> sr_work (tres_of p r) s = true.
Proof. intros p H r s. exact (proj2 (tschedule_inv p H) r s). Qed.
Print Assumptions C02_subslot_teams.
