(* C19 placeholder (Model/Cli.v theorems follow in a later commit) *)
From Coq Require Import List.
Theorem C19_placeholder : forall (A : Type) (l : list A), length (rev l) = length l.
Proof. intros; apply rev_length. Qed.
