(* C19 - The plan CLI honours its output contract (decision function of 'plan report', Model/Cli.v).
   The hash, the JSON stamping and the engine are parameters: the theorems hold for every choice. *)
From Coq Require Import List Bool Arith.
Require Import SP.Model.Cli SP.Proofs.CliProofs.
Import ListNotations.

Theorem C19_exit_status : forall hash stamp ch inp f auto eng,
  r_exit (plan_report hash stamp ch inp f auto eng) =
  match inp with
  | Missing | NotAFile | EmptyInput => E1
  | Undecodable => E2          (* bytes that are not UTF-8 text end in the 'unexpected error' branch: the code
                                  as it is - the property names only missing / empty / unreadable input for 1 *)
  | Content b => match eng b with
                 | EngineFailed => E2
                 | EngineOk files => match pick_auto auto f files with Some _ => E0 | None => E2 end
                 end
  end.
Proof. exact exit_table. Qed.
Print Assumptions C19_exit_status.

Theorem C19_stdout_only_on_success : forall hash stamp ch inp f auto eng,
  (r_exit (plan_report hash stamp ch inp f auto eng) = E0 <-> r_stdout (plan_report hash stamp ch inp f auto eng) <> None) /\
  (r_exit (plan_report hash stamp ch inp f auto eng) = E0 <-> r_diag (plan_report hash stamp ch inp f auto eng) = false).
Proof. exact stdout_iff_success. Qed.

Theorem C19_report_id : forall hash stamp ch bytes auto eng files doc,
  eng bytes = EngineOk files -> pick_auto auto Json files = Some doc ->
  r_stdout (plan_report hash stamp ch (Content bytes) Json auto eng) = Some (stamp (hash bytes) doc).
Proof. exact report_id_is_hash. Qed.

Theorem C19_channel : forall hash stamp inp f auto eng,
  plan_report hash stamp FromFile inp f auto eng = plan_report hash stamp FromStdin inp f auto eng.
Proof. exact channel_independent. Qed.

Theorem C19_own_reports : forall hash stamp ch bytes f auto eng files others doc,
  eng bytes = EngineOk files -> In (auto, f, doc) files -> (forall d', In (auto, f, d') files -> d' = doc) ->
  (forall x, In x others -> fst (fst x) <> auto) ->
  r_stdout (plan_report hash stamp ch (Content bytes) f auto (fun _ => EngineOk (others ++ files))) =
  r_stdout (plan_report hash stamp ch (Content bytes) f auto eng).
Proof. exact own_reports_irrelevant. Qed.
Print Assumptions C19_own_reports.
