(* C07 - ASAP schedules equal the priority-ordered earliest-fit schedule.
   Model/Sched.v is the list scheduler itself (pick the first ready task of the list sorted by
   priority then declaration order, place it completely, repeat); the theorem below is the
   declarative half: every placed task took the EARLIEST eligible slots - a slot between its
   dependency bound and its end was skipped only when the team could not be booked there, given
   exactly the bookings of the tasks placed before it plus its own earlier slots.
   The tie to the implementation is the correspondence (all dates and all bookings, exhaustive small
   universe + random core-dialect projects). *)
From Coq Require Import List Arith.
Require Import SP.Model.Sched SP.Proofs.SchedWalk SP.Proofs.SchedFinal.

Theorem C07_earliest_fit : forall p t f e,
  leaf_dates (schedule p) t = Some (f, e) -> t_need (task_of p t) <> 0 ->
  exists b st0,
    b <= f /\ (forall s, t_pin (task_of p t) = Some s -> b = s) /\
    (forall y, In y (bookings st0) -> b_task y <> t /\ In y (bookings (schedule p))) /\
    forall x, b <= x -> x < e ->
      (forall r, In r (t_team (task_of p t)) -> In (mk t r x) (bookings (schedule p))) \/
      (exists stx,
         (forall y, In y (bookings stx) -> In y (bookings st0) \/ (b_task y = t /\ b_slot y < x)) /\
         (forall y, In y (bookings st0) -> In y (bookings stx)) /\
         book_team p stx t x (t_team (task_of p t)) = None).
Proof. exact earliest_fit. Qed.
Print Assumptions C07_earliest_fit.

(* ---- the order of service: the work list holds exactly the leaf tasks, each once, sorted by priority and - among
   equal priorities - by declaration order; a step of the main loop takes the FIRST task of that list whose
   predecessors are all placed (everything before it in the list is not ready) and leaves the order of the rest *)
From Coq Require Import Sorted.
Require Import SP.Proofs.SchedOrder.
Theorem C07_work_list_order : forall p,
  StronglySorted (before p) (sorted_leaves p) /\ NoDup (sorted_leaves p) /\
  forall t, In t (sorted_leaves p) <-> t < length (p_tasks p) /\ t_leaf (task_of p t) = true.
Proof. exact sorted_leaves_spec. Qed.
Print Assumptions C07_work_list_order.

Theorem C07_first_ready : forall p st work t rest, pick p st work = Some (t, rest) ->
  exists pre post, work = pre ++ t :: post /\ rest = pre ++ post /\ ready p st t = true /\
                   forall u, In u pre -> ready p st u = false.
Proof. exact pick_first_ready. Qed.
Print Assumptions C07_first_ready.
