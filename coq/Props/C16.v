(* C16 - Scenarios are scheduled independently.
   (a) The value of a scenario-specific attribute in scenario i (eff) is the value written for i, else
       for its nearest ancestor scenario, else the unprefixed one; hence a scenario without overrides has
       exactly the attribute values - and so the schedule - of its parent (C16_same), and an override
       written for scenario j changes scenario i only if i lies below j (C16_local).
   (b) The scenario loop schedules each scenario's view on its own component: declaring a further
       scenario appends a result and changes none (C16_add).
   The tie to the code (parser routing of 's1:effort', per-scenario ledgers and limit counters) is the
   comparison of every scenario with the single-scenario project of its effective values (c16.py). *)
From Coq Require Import List Arith.
Require Import SP.Model.Scenario SP.Proofs.ScenarioProofs.
Import ListNotations.

Theorem C16_same : forall (V : Type) parent, (forall i j, parent i = Some j -> j < i) ->
  forall (ov : nat -> option V) base i j, ov i = None -> parent i = Some j ->
  eff parent ov base i i = eff parent ov base j j.
Proof. intros; now apply eff_same. Qed.
Print Assumptions C16_same.

Theorem C16_root_default : forall (V : Type) parent (ov : nat -> option V) base i,
  ov i = None -> parent i = None -> eff parent ov base i i = base.
Proof. intros; now apply eff_root. Qed.

Theorem C16_local : forall (V : Type) parent (ov : nat -> option V) base j v f i,
  below parent f i j = false ->
  eff parent (fun k => if Nat.eqb k j then Some v else ov k) base f i = eff parent ov base f i.
Proof. intros; now apply eff_local. Qed.
Print Assumptions C16_local.

Theorem C16_add : forall (P R : Type) (sched : P -> R) vs v,
  schedule_all sched (vs ++ [v]) = schedule_all sched vs ++ [sched v].
Proof. intros; apply schedule_all_add. Qed.

(* non-vacuity: plan(0) > s1(1) > s2(2), s3(3) child of plan; override for s1 only *)
Example C16_example :
  let parent := fun i => match i with 1 => Some 0 | 2 => Some 1 | 3 => Some 0 | _ => None end in
  let ov := fun i => match i with 1 => Some 16 | _ => None end in
  map (fun i => eff parent ov 8 i i) [0; 1; 2; 3] = [8; 16; 16; 8].
Proof. reflexivity. Qed.
