(* C16 placeholder (Model/Scenario.v theorems follow in a later commit) *)
From Coq Require Import List.
Theorem C16_placeholder : forall (A : Type) (l : list A), rev (rev l) = l.
Proof. intros; apply rev_involutive. Qed.
