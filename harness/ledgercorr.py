"""Operation-sequence correspondence between Model/Ledger.v (extracted) and the real booking /
release code on one slot; plus the C01 cell oracle on the implementation's cell."""
import itertools
from fractions import Fraction

import common


def gen_sequences(ctx, exhaustive_len, nrandom):
    G = 3600
    seqs = []
    # exhaustive short sequences over 3 tasks and a small grid of amounts
    alphabet = []
    for t in range(3):
        alphabet.append(("book", t))
        alphabet.append(("finish", t, 1200))
        alphabet.append(("finish", t, 3000))
    alphabet.append(("bookoff", 0, 900))
    alphabet.append(("bookcap", 1, 600))
    for n in range(1, exhaustive_len + 1):
        for combo in itertools.product(alphabet, repeat=n):
            seqs.append({"G": G, "ops": [list(x) for x in combo]})
    rng = ctx.rng
    for _ in range(nrandom):
        G = rng.choice([3600, 3600, 1800, 900, 300])
        ops = []
        for _ in range(rng.randint(2, 14)):
            k = rng.random()
            t = rng.randint(0, 5)
            if k < 0.4:
                ops.append(["book", t])
            elif k < 0.55:
                ops.append(["bookoff", t, rng.choice([0, G // 4, G // 3, G // 2, G - 1, G, 7])])
            elif k < 0.65:
                ops.append(["bookcap", t, rng.choice([1, G // 5, G // 2, G, 2 * G])])
            else:
                ops.append(["finish", t, rng.choice([0, 1, 60, G // 7, G // 3, G // 2, G - 1, G, 2 * G])])
        seqs.append({"G": G, "ops": ops})
    return seqs


def model_line(case):
    toks = ["ledger", str(case["G"]), "1"]
    mops = []
    for op in case["ops"]:
        if op[0] == "book":
            mops.append((1, op[1], 0, 0))
        elif op[0] == "bookoff":
            if op[2] > 0:
                mops.append((0, op[2], 1, 0))
            mops.append((1, op[1], 0, 0))
        elif op[0] == "bookcap":
            mops.append((1, op[1], op[2], 1))
        else:
            mops.append((2, op[1], op[2], 1))
    toks.append(str(len(mops)))
    for m in mops:
        toks += [str(x) for x in m]
    return " ".join(toks)


def parse_model(line):
    used, ents = line.split("|")
    es = []
    for tok in ents.strip().split(";"):
        if tok:
            t, x = tok.split(",")
            es.append([int(t), float(x)])
    return float(used), es


def run(ctx, exhaustive_len, nrandom):
    cases = gen_sequences(ctx, exhaustive_len, nrandom)
    impl = common.run_workers(ctx, "w_ledger", cases)
    model = common.run_driver("scheddriver", [model_line(c) for c in cases])
    dis, bad = [], []
    for c, i, m in zip(cases, impl, model):
        if "worker_error" in i:
            dis.append({"case": c, "impl": i})
            continue
        try:
            mu, me = parse_model(m)
        except Exception:
            dis.append({"case": c, "model_output": m})
            continue
        ok = abs(mu - i["used"]) < 1e-3 and len(me) == len(i["entries"]) and all(
            a[0] == b[0] and abs(a[1] - b[1]) < 1e-3 for a, b in zip(me, i["entries"]))
        if not ok:
            dis.append({"case": c, "impl": i, "model": {"used": mu, "entries": me}})
        tot = sum(x for _, x in i["entries"])
        if tot > i["used"] + 1e-3 or i["used"] > c["G"] + 1e-3 or any(x < -1e-6 for _, x in i["entries"]):
            bad.append({"what": "cell invariant violated by an operation sequence on one slot (sum of entries <= used <= slot length)",
                        "operations": c["ops"], "G": c["G"], "cell": i})
    return cases, dis, bad
