"""Worker: process a HISTORY of parse/schedule/report calls in this one interpreter, then the target
text, and return the target's observations (dates of all scenarios, ledger, report tables).
Modes: fresh parser object per call, or one parser object reused for every call."""
import contextlib
import io
import json
import sys
from datetime import datetime

E = datetime(1970, 1, 1)


def secs(d):
    return int((d - E).total_seconds()) if isinstance(d, datetime) else None


from scriptplan.parser.tjp_parser import ProjectFileParser  # noqa: E402
from scriptplan.report import ReportContext  # noqa: E402


def observe(p, again=False):
    out = {"scenarios": [sc.id for sc in p.scenarios], "tasks": {}, "ledger": {}, "reports": []}
    nsc = len(list(p.scenarios))
    for t in p.tasks:
        out["tasks"][t.fullId] = [[bool(t.get("scheduled", s)), secs(t.get("start", s)), secs(t.get("end", s))] for s in range(nsc)]
    for r in p.resources:
        for s in range(nsc):
            rs = r.data[s] if r.data else None
            if rs is not None and rs.slotTaskUsage:
                out["ledger"][f"{r.fullId}/{s}"] = {str(i): [[t.fullId, round(x, 6)] for t, x in l] for i, l in sorted(rs.slotTaskUsage.items())}
    for rep in p.reports:
        ctx = ReportContext(p, rep)
        ctx.push()
        try:
            rep.generate_intermediate_format()
            out["reports"].append({"id": rep.id, "json": rep.to_json(), "csv": rep.to_csv()})
        finally:
            ctx.pop()
    return out


def cli_run(text, shared=None):
    """the programmatic command-line interface (scriptplan.cli.main.run_scriptplan, what 'plan report' calls): status and
    the files it writes"""
    import hashlib
    import os
    import shutil
    import tempfile
    from scriptplan.cli.main import run_scriptplan
    d = tempfile.mkdtemp(prefix="whist_")
    try:
        fn = os.path.join(d, "p.tjp")
        with open(fn, "w") as fh:
            fh.write(text)
        out = shared or os.path.join(d, "out")
        os.makedirs(out, exist_ok=True)
        try:
            ok, _msg = run_scriptplan(fn, out)
        except BaseException as ex:  # noqa
            return {"raised": type(ex).__name__}
        files = sorted((x, hashlib.sha256(open(os.path.join(out, x), "rb").read()).hexdigest()[:16]) for x in os.listdir(out))
        return {"ok": bool(ok), "files": files}
    finally:
        shutil.rmtree(d, ignore_errors=True)


def run(case):
    if case.get("cli"):
        err = io.StringIO()
        with contextlib.redirect_stderr(err), contextlib.redirect_stdout(io.StringIO()):
            shared = None
            if case.get("shared_out"):
                # every run of the history and the target write into ONE output directory (what a user who keeps
                # running the tool in his project directory does)
                import shutil
                import tempfile
                shared = tempfile.mkdtemp(prefix="whist_shared_")
            try:
                log = [cli_run(step["text"], shared) for step in case.get("history", [])]
                return {"ok": True, "obs": {"cli": cli_run(case["text"], shared)}, "history": [str(x.get("ok", x.get("raised"))) for x in log]}
            finally:
                if shared:
                    shutil.rmtree(shared, ignore_errors=True)
    err = io.StringIO()
    shared = ProjectFileParser() if case.get("reuse_parser") else None
    log = []
    with contextlib.redirect_stderr(err):
        for step in case.get("history", []):
            try:
                parser = shared or ProjectFileParser()
                if step.get("manual"):
                    # parsed without scheduling, scheduled by an explicit call
                    p = parser.parse(step["text"], schedule=False)
                    p.schedule()
                else:
                    p = parser.parse(step["text"])
                if step.get("report"):
                    observe(p)
                if step.get("reschedule"):
                    p.schedule()
                log.append("ok")
            except BaseException as ex:  # noqa
                log.append(type(ex).__name__)
        res = {"history": log}
        try:
            parser = shared or ProjectFileParser()
            p = parser.parse(case["text"])
            res["obs"] = observe(p)
            if case.get("reschedule"):
                p.schedule()
                res["obs_again"] = observe(p)
            res["ok"] = True
        except BaseException as ex:  # noqa
            res["ok"] = False
            res["exc"] = type(ex).__name__
            res["msg"] = str(ex)[:200]
    return res


import signal


class _Timeout(BaseException):
    pass


def _alarm(signum, frame):
    raise _Timeout()


signal.signal(signal.SIGALRM, _alarm)
for line in sys.stdin:
    line = line.strip()
    if not line:
        continue
    try:
        signal.alarm(120)
        out = run(json.loads(line))
    except _Timeout:
        out = {"ok": False, "exc": "Timeout", "msg": "case exceeded 120 s"}
    except BaseException as ex:  # noqa
        out = {"worker_error": f"{type(ex).__name__}: {ex}"}
    finally:
        signal.alarm(0)
    sys.stdout.write(json.dumps(out, default=str) + "\n")
    sys.stdout.flush()
