"""Leaf-function correspondence (translator validation) and the C17 / C13 oracles.

Cases are flat integer lists understood both by ocaml/gendriver.ml (the regenerated Gallina
functions, extracted) and by harness/w_leaf.py (the real functions, both twins)."""
import itertools
from common import run_driver, run_workers

RESOLUTIONS = [60, 300, 900, 1800, 3600]
ODD_RESOLUTIONS = [420, 1500, 3000]          # 7, 25, 50 minutes: a day is not a whole number of slots
BASES = [1735689600, 1736121600 + 9 * 3600, 1709164800 + 17 * 60, 1798675200 - 3600]  # 2025-01-01, Mon 09:00, leap day 00:17, 2026-12-31 23:00


def flat_tbl(tbl):
    out = [len(tbl)]
    for k, l in tbl:
        out += [k, len(l)]
        for (a, b), (c, d) in l:
            out += [a, b, c, d]
    return out


# ------------------------------------------------------------------ case families
def cases_index(ctx, exhaustive_windows):
    """index <-> time on every index of bounded windows x resolutions x start offsets"""
    cs = []
    for base in BASES[: (2 if ctx.quick() else 4)]:
        for r in RESOLUTIONS:
            for nslots in exhaustive_windows:
                for off in (0, 1, r // 2, r - 1):
                    s = base
                    e = base + nslots * r + off
                    size = -((-(e - s)) // r) + 1
                    cs.append({"f": "size", "a": [s, e, r], "w": (s, e, r, size)})
                    for i in range(-2, size + 2):
                        for fl in (0, 1):
                            cs.append({"f": "i2d", "a": [s, e, r, size, i, fl], "w": (s, e, r, size)})
                    ts = set()
                    for i in range(-1, size + 1):
                        for d in (-1, 0, 1, r // 2):
                            ts.add(s + i * r + d)
                    ts |= {s - r, s - r + 1, e, e + 1, s + size * r, s + size * r - 1}
                    for t in sorted(ts):
                        for fl in (0, 1):
                            cs.append({"f": "d2i", "a": [s, e, r, size, t, fl], "w": (s, e, r, size)})
                    for i in range(-3, size + 3):
                        cs.append({"f": "pi2d", "a": [s, r, i]})
                    for t in sorted(ts):
                        cs.append({"f": "pd2i", "a": [s, r, t]})
                    cs.append({"f": "psize", "a": [s, e, r]})
    # resolutions that do not divide a day, on windows of several days (indices beyond the first day)
    for base in BASES[:2]:
        for r in ODD_RESOLUTIONS:
            for nslots in (40, 230):
                s, e = base, base + nslots * r + 1
                size = -((-(e - s)) // r) + 1
                cs.append({"f": "size", "a": [s, e, r], "w": (s, e, r, size)})
                for i in list(range(-1, 4)) + list(range(size - 60, size + 2)) + list(range(25, size, 7)):
                    cs.append({"f": "i2d", "a": [s, e, r, size, i, 0], "w": (s, e, r, size)})
                    cs.append({"f": "pi2d", "a": [s, r, i]})
                    for d in (0, 1, r - 1):
                        t = s + i * r + d
                        cs.append({"f": "d2i", "a": [s, e, r, size, t, 0], "w": (s, e, r, size)})
                        cs.append({"f": "pd2i", "a": [s, r, t]})
    # long windows (1, 3 and 10 years): instants and indices far from the start, around the points where a
    # single-precision float stops representing whole seconds (2^24 s = 194 days, 2^26 s, 2^28 s)
    for base in BASES[:1]:
        for r in (60, 300, 900, 1800, 3600):
            for years in (1, 3, 10):
                s, e = base, base + years * 365 * 86400
                size = -((-(e - s)) // r) + 1
                marks = {size - 1, size // 2, size // 3, (2 ** 24) // r, (2 ** 24) // r + 1, (2 ** 26) // r + 3, (2 ** 28) // r + 5,
                         (2 ** 24 + 2 ** 23) // r, 200 * 86400 // r, 777 * 86400 // r + 1}
                for i in sorted(x for x in marks if 0 < x < size):
                    cs.append({"f": "pi2d", "a": [s, r, i]})
                    cs.append({"f": "i2d", "a": [s, e, r, size, i, 0], "w": (s, e, r, size)})
                    for d in (-1, 0, 1, r - 1):
                        t = s + i * r + d
                        cs.append({"f": "pd2i", "a": [s, r, t]})
                        cs.append({"f": "d2i", "a": [s, e, r, size, t, 0], "w": (s, e, r, size)})
    return cs


def cases_collect(ctx, maxlen):
    cs = []
    s, r = BASES[1], 3600
    for n in range(1, maxlen + 1):
        for bits in itertools.product((0, 1), repeat=n):
            size = n
            e = s + (size - 1) * r
            wins = [(s, e)]
            if n >= 4:
                wins += [(s + r, e - r), (s + 2 * r, s + 2 * r), (s + r + 7, e - 1)]
            for (t1, t2) in wins:
                for md in (0, r, 2 * r, 3 * r + 1):
                    cs.append({"f": "collect", "a": [s, e, r, size, n] + list(bits) + [t1, t2, md],
                               "c": (list(bits), (t1 - s) // r, (t2 - s) // r, max(1, md // r), size)})
    # other resolutions, random longer tables
    for _ in range(ctx.n(300, 3000)):
        r = ctx.rng.choice(RESOLUTIONS)
        n = ctx.rng.randint(3, 40)
        bits = [1 if ctx.rng.random() < ctx.rng.choice((0.3, 0.6, 0.85)) else 0 for _ in range(n)]
        s = ctx.rng.choice(BASES)
        e = s + (n - 1) * r
        a, b = sorted((ctx.rng.randint(0, n - 1), ctx.rng.randint(0, n - 1)))
        t1, t2 = s + a * r + ctx.rng.choice((0, 0, r // 3)), s + b * r + ctx.rng.choice((0, 0, r // 2))
        md = ctx.rng.choice((0, r, 2 * r, 3 * r, 5 * r - 1))
        cs.append({"f": "collect", "a": [s, e, r, n, n] + bits + [t1, t2, md],
                   "c": (bits, (t1 - s) // r, (t2 - s) // r, max(1, md // r), n)})
    return cs


def hour_tables(ctx, n):
    """interval sets incl. several intervals per day, cross-midnight, unordered lists, empty days"""
    tabs = []
    fixed = [
        [(d, [((9, 0), (17, 0))]) for d in range(5)],
        [(0, [((22, 0), (6, 0))])],
        [(6, [((22, 0), (6, 0))])],
        [(d, [((8, 15), (11, 45)), ((13, 15), (16, 30))]) for d in (0, 2, 4)] + [(1, [((13, 0), (17, 0)), ((9, 0), (12, 0))])],
        [(d, [((0, 0), (0, 0))]) for d in range(7)],
        [(2, []), (3, [((18, 0), (2, 30)), ((3, 0), (4, 0))]), (4, [((23, 59), (0, 1))])],
        [(5, [((20, 0), (24, 0))]), (6, [((0, 0), (8, 0))])],
    ]
    tabs += fixed
    while len(tabs) < n:
        t = []
        for d in ctx.rng.sample(range(7), ctx.rng.randint(1, 7)):
            ivs = []
            for _ in range(ctx.rng.randint(0, 3)):
                a = ctx.rng.choice((0, 6, 8, 9, 12, 13, 18, 22, 23))
                am = ctx.rng.choice((0, 0, 15, 30, 59))
                b = ctx.rng.choice((0, 2, 6, 11, 12, 17, 18, 24))
                bm = 0 if b == 24 else ctx.rng.choice((0, 0, 30, 45, 1))
                ivs.append(((a, am), (b, bm)))
            t.append((d, ivs))
        tabs.append(t)
    return tabs


def cases_hours(ctx):
    cs = []
    tabs = hour_tables(ctx, ctx.n(14, 60))
    week0 = 1736121600 - 86400  # Sunday 2025-01-05 00:00
    step = 1 if not ctx.quick() else 7
    for ti, tbl in enumerate(tabs):
        ft = flat_tbl(tbl)
        # every minute of a week (thorough) / every 7th minute plus all interval boundaries (quick)
        minutes = set(range(0, 7 * 1440, step))
        for _, l in tbl:
            for (a, b), (c, d) in l:
                for dd in range(7):
                    for m in (a * 60 + b, c * 60 + d):
                        for k in (-1, 0, 1):
                            minutes.add((dd * 1440 + m + k) % (7 * 1440))
        if ti >= 7 and ctx.quick():
            minutes = set(ctx.rng.sample(sorted(minutes), 400))
        for m in sorted(minutes):
            cs.append({"f": "onshift", "a": ft + [week0 + m * 60], "t": ti})
        for wd in range(7):
            cs.append({"f": "daily", "a": ft + [wd], "t": ti})
    return cs


def cases_limidx(ctx):
    cs = []
    starts = [1735689600, 1735689600 + 13 * 3600, 1798761600, 1798761600 - 86400 * 3 + 9 * 3600,  # 2025-01-01, 13:00, 2027-01-01, 2026-12-29 09:00
              1609459200 - 86400 * 4, 1736035200 + 7 * 3600]                                             # 2020-12-28 (53-week year), Sun 2025-01-05 07:00
    for s in starts:
        for g in (3600, 900, 1800):
            for p in (86400, 604800, 2592000):
                idxs = set(range(0, 24 * 3600 // g * 16, max(1, 3600 // g)))
                idxs |= {i for i in range(0, 400 * 86400 // g, 86400 // g * 5 + 1)}
                for i in sorted(idxs):
                    cs.append({"f": "limidx", "a": [s, g, p, i]})
    return cs


# ------------------------------------------------------------------ evaluation
def driver_lines(cases):
    lines = []
    for c in cases:
        f, a = c["f"], c["a"]
        arg = " ".join(str(x) for x in a)
        if f in ("size", "limidx"):
            lines.append((f + " " + arg, None))
        elif f == "psize":
            lines.append(("psize_py " + arg, "psize_cy " + arg))
        elif f in ("i2d", "d2i", "collect", "pd2i", "pi2d", "onshift", "daily"):
            lines.append((f + "_py " + arg, f + "_cy " + arg))
    flat = [x for pair in lines for x in pair if x]
    out = run_driver("gendriver", flat)
    res, k = [], 0
    for py, cy in lines:
        r = {"py": out[k]}
        k += 1
        if cy:
            r["cy"] = out[k]
            k += 1
        res.append(r)
    return res


def ref_collect(bits, sI, eI, m, size):
    """independent statement of the spec: maximal runs of length >= m in the scanned range, clipped"""
    a = max(0, sI - m)
    b = min(size - 1, eI + m)
    vals = {i: (bits[i] == 1 if i < len(bits) else False) for i in range(a, b)}
    out, i = [], a
    while i < b:
        if vals[i]:
            j = i
            while j < b and vals[j]:
                j += 1
            if j - i >= m:
                out.append((max(i, sI), min(j, eI)))
            i = j
        else:
            i += 1
    return out


def compare(ctx, cases, want_cy=True):
    """returns (n_cases, disagreements[list of dict], impl results, model results)"""
    impl = run_workers(ctx, "w_leaf", [{"f": c["f"], "a": c["a"]} for c in cases])
    model = driver_lines(cases)
    dis = []
    for c, i, m in zip(cases, impl, model):
        if "worker_error" in i:
            dis.append({"case": c, "impl": i, "model": m, "kind": "worker"})
            continue
        if c["f"] == "daily":
            # model: integral minutes; implementation: minutes / 60.0 as a double (hex)
            for side in ("py", "cy"):
                if side in i and side in m:
                    exp = (int(m[side]) / 60.0).hex() if not m[side].startswith("RAISE") else m[side]
                    if i[side] != exp:
                        dis.append({"case": c, "impl": i, "model": m, "kind": "model-vs-impl " + side})
            continue
        for side in ("py", "cy"):
            if side in i and side in m and i[side].strip() != m[side].strip():
                dis.append({"case": c, "impl": i, "model": m, "kind": "model-vs-impl " + side})
    return impl, model, dis
