"""C01 - a resource is never double-booked."""
import common
import ledgercorr
import oracles
import schedcheck

PROPS = ["Props/C01.v"]


def runaways(ctx):
    """sub-slot projects in which one task has far more work than the project holds (on a slow resource or by its
    effort): it takes the rest of slots that others finished in, runs off the end of the project and is given up - what
    it leaves behind must not let later, lower-priority tasks book the same seconds again"""
    import gens
    import projects
    out = []
    for ap in gens.family(ctx, "subslot", ctx.n(120, 900)):
        leaves = [n for _, n in projects.walk(ap["tasks"]) if "kids" not in n and n.get("effort")]
        if len(leaves) < 3:
            continue
        ap["dur"] = ("d", ctx.rng.choice([2, 3, 5]))
        big = ctx.rng.choice(leaves[1:])
        big["effort"] = ctx.rng.choice([6000, 12000, 30000])
        big["prio"] = ctx.rng.choice([500, 600, 700])
        big.pop("start", None)
        for n in leaves:
            if n is not big and n.get("prio") is None and ctx.rng.random() < 0.5:
                n["prio"] = ctx.rng.choice([100, 300, 900])
            if n is not big and ctx.rng.random() < 0.6:
                n["alloc"] = list(big.get("alloc") or n["alloc"])
                n.pop("alt", None)
        ap["_family"] = "runaway"
        out.append(ap)
    return out


def run(ctx):
    def post(ctx, aps, res):
        cases, dis, bad = ledgercorr.run(ctx, 2 if ctx.quick() else 3, ctx.n(400, 4000))
        out = [({"_family": "cell-ops", "_i": i, "tasks": [], "resources": []}, b, {}) for i, b in enumerate(bad)]
        st = {"cell_operation_sequences": len(cases), "cell_model_disagreements": len(dis)}
        if dis and not bad:
            out.append(({"_family": "cell-ops", "tasks": [], "resources": []},
                        {"what": "the cell model (Model/Ledger.v) and the booking/release code disagree on an operation sequence",
                         "detail": dis[0]}, {}))
        return out, st
    schedcheck.run(ctx, "C01", PROPS,
                   [("subslot", 150, 1500), ("core", 60, 600), ("alap", 60, 500), ("alapcore", 40, 400), ("sd", 80, 800), ("sdteam", 60, 600), ("hours", 30, 200), ("alapsub", 80, 600), ("alapslot0", 20, 150)],
                   ["c01"],
                   ["seconds are exact rationals in the model, floats in the code (compared to 1 ms)",
                    "scheduler-level theorem covers the whole-slot (core) dialect; sub-slot sharing is covered by the cell theorem + operation-sequence correspondence + the oracle on whole sub-slot projects"],
                   "corpus first; generated sub-slot / core / ALAP / calendar projects scheduled by the implementation, the ledger checked per (resource, slot); exhaustive operation sequences up to length 2 (quick) / 3 (thorough) over a 13-letter alphabet plus random sequences up to length 14 on one slot compared with the extracted cell model; core projects compared with the extracted scheduler model (dates and bookings)",
                   post=post, extra_cases=runaways)
