"""C01 - a resource is never double-booked."""
import common
import ledgercorr
import oracles
import schedcheck

PROPS = ["Props/C01.v"]


def run(ctx):
    def post(ctx, aps, res):
        cases, dis, bad = ledgercorr.run(ctx, 2 if ctx.quick() else 3, ctx.n(400, 4000))
        out = [({"_family": "cell-ops", "_i": i, "tasks": [], "resources": []}, b, {}) for i, b in enumerate(bad)]
        st = {"cell_operation_sequences": len(cases), "cell_model_disagreements": len(dis)}
        if dis and not bad:
            out.append(({"_family": "cell-ops", "tasks": [], "resources": []},
                        {"what": "the cell model (Model/Ledger.v) and the booking/release code disagree on an operation sequence",
                         "detail": dis[0]}, {}))
        return out, st
    schedcheck.run(ctx, "C01", PROPS,
                   [("subslot", 150, 1500), ("core", 60, 600), ("alap", 60, 500), ("alapcore", 40, 400), ("sd", 80, 800), ("sdteam", 60, 600), ("hours", 30, 200), ("alapsub", 80, 600), ("alapslot0", 20, 150)],
                   ["c01"],
                   ["seconds are exact rationals in the model, floats in the code (compared to 1 ms)",
                    "scheduler-level theorem covers the whole-slot (core) dialect; sub-slot sharing is covered by the cell theorem + operation-sequence correspondence + the oracle on whole sub-slot projects"],
                   "corpus first; generated sub-slot / core / ALAP / calendar projects scheduled by the implementation, the ledger checked per (resource, slot); exhaustive operation sequences up to length 2 (quick) / 3 (thorough) over a 13-letter alphabet plus random sequences up to length 14 on one slot compared with the extracted cell model; core projects compared with the extracted scheduler model (dates and bookings)",
                   post=post)
