"""C11 - scheduling is total: it terminates and reports, never crashes or hangs."""
import copy
from collections import Counter

import common
import gens
import oracles
import projects

PROPS = ["Props/C11.v", "Props/C17.v"]
PARSE_ERRORS = ("UnexpectedInput", "UnexpectedCharacters", "UnexpectedToken", "UnexpectedEOF", "VisitError", "ParseError")


def infeasible(ctx, n):
    out = []
    rng = ctx.rng
    base = (gens.family(ctx, "coredeps", n) + gens.family(ctx, "alap", n // 2) + gens.family(ctx, "taskalap", n // 2)
            + gens.family(ctx, "subslot", n // 2) + gens.family(ctx, "trees", n // 3))
    for ap in base:
        ap = copy.deepcopy(ap)
        leaves = [(p, nd) for p, nd in projects.walk(ap["tasks"]) if "kids" not in nd]
        k = rng.randint(0, 9)
        p, nd = rng.choice(leaves)
        rleaf = [r["id"] for _, r in projects.walk(ap["resources"]) if "kids" not in r]
        if "effort" in nd and len(nd.get("alloc", [])) == 1 and nd["alloc"][0] in rleaf and len(rleaf) >= 2 and rng.random() < 0.4:
            nd["alt"] = [rng.choice([x for x in rleaf if x != nd["alloc"][0]])]      # the infeasible task has an alternative
        if k == 0 and len(leaves) >= 2:          # dependency cycle
            q, nq = rng.choice([x for x in leaves if x[0] != p])
            nd.setdefault("deps", []).append({"to": list(q), "style": "abs"})
            nq.setdefault("deps", []).append({"to": list(p), "style": "abs"})
        elif k == 1:                             # self dependency
            nd.setdefault("deps", []).append({"to": list(p), "style": "abs"})
        elif k == 2 and not ap.get("alap"):      # pinned start past the end / before the start
            nd["start"] = ap["start"] + rng.choice([400, 800, -30, -1]) * 86400
        elif k == 3:                             # never-working resource
            ap["resources"].append({"id": "idle", "eff": "1.0", "leaves": [(ap["start"] - 86400, ap["start"] + 900 * 86400, "annual")]})
            if "effort" in nd:
                nd["alloc"] = ["idle"]
                nd.pop("alt", None)
        elif k == 4 and "effort" in nd:          # huge effort
            nd["effort"] = rng.choice([60 * 2000, 60 * 700, 60 * 99999999, 60 * 5000])
        elif k == 5 and leaves:                  # huge gap
            q, nq = rng.choice(leaves)
            if q != p:
                nd.setdefault("deps", []).append({"to": list(q), "style": "abs", "gap": rng.choice([60 * 900, 60 * 3000])})
        elif k == 6 and "effort" in nd:          # ALAP deadline outside the horizon
            nd["sched"] = "alap"
            nd["end"] = ap["start"] + rng.choice([-5, 500]) * 86400
            nd.pop("start", None)
        elif k == 7 and "effort" in nd:          # tiny effort
            nd["effort"] = 1
        elif k == 9 and "effort" in nd:
            # a task that must not be split across breaks, equipment with efficiency 0 (first or second in the
            # allocation), a horizon that ends inside working hours
            nd["contiguous"] = True
            if rng.random() < 0.5:
                ap["start"] += rng.choice([9, 13]) * 3600
            rnodes = [r for _, r in projects.walk(ap["resources"]) if "kids" not in r]
            if rnodes and rng.random() < 0.6:
                z = rng.choice(rnodes)
                z["eff"] = "0.0"
                if z["id"] in rleaf and rng.random() < 0.7:
                    others = [x for x in nd.get("alloc", []) if x != z["id"] and x in rleaf]
                    nd["alloc"] = [z["id"]] + others[:1] if rng.random() < 0.6 else others[:1] + [z["id"]]
                    nd.pop("alt", None)
        elif k == 8 and "effort" in nd and not ap.get("alap") and not nd.get("sched"):
            # work pinned so late that it cannot finish before the end of the horizon
            hor = {"w": 7, "d": 1}[ap["dur"][0]] * ap["dur"][1]
            nd["start"] = ap["start"] - ap["start"] % 86400 + (hor - rng.choice([0, 1, 2, 3])) * 86400 + rng.choice([0, 9, 16]) * 3600
            nd["effort"] = rng.choice([2400, 4800, 480])
        if "effort" in nd and len(leaves) >= 2 and not ap.get("alap") and rng.random() < 0.12:
            # the predecessor of an edge with a maximum gap has more work than the horizon holds (by its size or behind a
            # long shutdown): the backward estimate for maxgapduration must give up, not run off the tables
            q, nq = rng.choice([x for x in leaves if x[0] != p])
            if not any(tuple(d["to"]) == q for d in nd.get("deps", []) or []):
                nq.setdefault("deps", []).append({"to": list(p), "style": "abs", "maxgap": rng.choice([60, 480])})
                if rng.random() < 0.5:
                    nd["effort"] = 60 * rng.choice([30000, 50000])
                else:
                    ap["vac"].append((ap["start"], ap["start"] + 900 * 86400))
        if rng.random() < 0.1:
            # a resource with hours of its own and a time zone string that names no zone, or is not even a well-formed key
            rn = [r for _, r in projects.walk(ap["resources"]) if "kids" not in r]
            if rn:
                z = rng.choice(rn)
                z.pop("shift", None)
                z["hours"] = [(d, [((8, 0), (16, 0))]) for d in range(5)]
                z["tz"] = rng.choice(["Mars/Olympus_Mons", "/usr/share/zoneinfo/Europe/Berlin", "Asia//Tokyo", "America/New_York/", "../etc/passwd", "UTC+25", ""])
                if not z["tz"]:
                    del z["tz"]
        if k != 8 and rng.random() < 0.25:
            # project lengths in every unit the header grammar accepts (hours and minutes included)
            ap["dur"] = rng.choice([("h", 36), ("h", 2000), ("min", 90), ("y", 1), ("m", 2), ("d", 3), ("w", 1)])
        ap["_family"] = "infeasible%d" % k
        out.append(ap)
    return out


DIAGNOSTICS = PARSE_ERRORS + ("LarkError", "SyntaxParsingError", "SemanticError", "ParsingError", "InvalidAttributeError", "DuplicateDefinitionError")


def oddities(rng, n):
    """grammatical texts at the edges of what the preprocessor, the header and the attribute readers accept: macros that
    call each other in a cycle or themselves (once, twice, three times a pass), nested macros that do end, resolutions
    from 0 to a day, gaps of thousands of years in every dependency spelling, several allocate statements on one task
    with and without alternatives.  (text, must_be_accepted)"""
    out = []
    H = 'project p "P" 2025-01-06 +%s { timezone "Etc/UTC" %s }\nresource r "R" {}\nresource s "S" {}\nresource t "T" {}\n'
    for _ in range(n):
        k = rng.randint(0, 5)
        dur = rng.choice(["2w", "4w", "10d"])
        if k == 4:
            # attributes written for one scenario of a tree - the root, an inner one, a leaf - in every form the grammar has
            tree = rng.choice(['scenario plan "Plan" { scenario delayed "D" { scenario worse "W" } scenario fast "F" }',
                               'scenario plan "Plan" { scenario delayed "D" }'])
            sc = rng.choice(["plan", "delayed", "worse", "fast"] if "worse" in tree else ["plan", "delayed"])
            attr = rng.choice(["effort 3d", "effort 5h", "duration 3d", "length 2d", "start 2025-01-08", "end 2025-01-15", "duration 4h"])
            first = rng.choice(["effort 2d ", "", "duration 1d "])
            body = 'task a "A" { %s%s:%s allocate r }\ntask b "B" { effort 4h allocate s depends !a }\n' % (first, sc, attr)
            out.append((H % (dur, tree) + body, None, "scenattr:%s:%s" % (sc, attr.split()[0])))
            continue
        if k == 5:
            # a task that must not be interrupted, on a resource that cannot be resolved or is a group, around the clock
            hours = rng.choice(["workinghours mon - sun 0:00 - 24:00", "workinghours mon - sun 00:00 - 24:00", "", "workinghours mon - fri 6:00 - 22:00"])
            who = rng.choice(["ghost", "r", "r, s", "ghost, r"])
            eff = rng.choice(["30h", "200h", "2h", "9h", "2000h"])
            body = 'task a "A" { effort %s allocate %s flags contiguous }\ntask b "B" { effort 3h allocate t depends !a }\n' % (eff, who)
            out.append((H % (rng.choice(["1w", "2w", "3d"]), hours) + body, None, "contiguous:%s" % who.replace(", ", "+")))
            continue
        if k == 0:
            kind = rng.randint(0, 6)
            eff = rng.choice([2, 6, 11])
            if kind == 0:
                m = 'macro who [ allocate r ]\nmacro work [ effort %dh ${who} ]\n' % eff
                body, ok = 'task a "A" { ${work} }\ntask b "B" { ${work} depends !a }\n', True
            elif kind == 1:
                m = 'macro work [ effort %dh ${rest} ]\nmacro rest [ ${work} ]\n' % eff
                body, ok = 'task a "A" { allocate r ${work} }\n', False
            elif kind == 2:
                m = 'macro x1 [ ${x2} ]\nmacro x2 [ priority 500 ${x3} ]\nmacro x3 [ ${x1} ]\n'
                body, ok = 'task a "A" { effort %dh allocate r ${x%d} }\n' % (eff, rng.randint(1, 3)), False
            elif kind == 3:
                m = 'macro more [ priority 600 ${more} ]\n'
                body, ok = 'task a "A" { effort %dh allocate r ${more} }\n' % eff, False
            elif kind == 4:
                m = 'macro dbl [ ${dbl} %s ${dbl} ]\n' % rng.choice(["", "priority 400", 'note "x"'])
                body, ok = 'task a "A" { effort %dh allocate r ${dbl} }\n' % eff, False
            elif kind == 5:
                m = 'macro tri [ ${tri} ${tri} ${tri} ]\nmacro fine [ allocate r ]\n'
                body, ok = 'task a "A" { effort %dh ${fine} }\ntask b "B" { effort 2h allocate s ${tri} }\n' % eff, False
            else:
                m = 'macro arg [ effort ${1}h ${arg ${1}} ]\n'
                body, ok = 'task a "A" { allocate r ${arg 3} }\n', False
            text = m + H % (dur, "") + body if rng.random() < 0.5 else H % (dur, "") + m + body
            out.append((text, ok, "macros%d" % kind))
        elif k == 1:
            res = rng.choice(["0min", "0h", "0.001min", "0d", "1min", "5min", "15min", "30min", "60min", "1h", "2h", "1d"])
            text = H % (dur, "timingresolution " + res) + 'task a "A" { effort 4h allocate r }\ntask b "B" { effort 3h allocate r depends !a }\n'
            out.append((text, None, "resolution:" + res))
        elif k == 2:
            gap = rng.choice(["4000000d", "99999999w", "600000w", "90000000h", "3000y", "40000m"])
            what = rng.choice(["gapduration", "gaplength", "maxgapduration"])
            opt = "%s %s%s" % (what, gap, rng.choice(["", " onstart", " onend"]))
            form = rng.randint(0, 3)
            if form == 0:
                body = 'task a "A" { effort 4h allocate r }\ntask b "B" { effort 3h allocate s depends !a { %s } }\n' % opt
            elif form == 1:
                body = 'task a "A" { effort 4h allocate r precedes !b { %s } }\ntask b "B" { effort 3h allocate s }\n' % opt
            elif form == 2:
                body = 'task a "A" { effort 4h allocate r scheduling alap precedes !b { %s } }\ntask b "B" { effort 3h allocate s scheduling alap end 2025-01-15 }\n' % opt
            else:
                body = 'task g "G" { task a "A" { effort 4h allocate r } }\ntask b "B" { start 2025-01-07 depends !g { %s } }\n' % opt
            out.append((H % (dur, "") + body, None, "hugegap:%s:%d" % (what, form)))
        else:
            parts = rng.choice([["allocate r", "allocate s"], ["allocate r", "allocate s { alternative t }"], ["allocate s { alternative t }", "allocate r"],
                                ["allocate r { alternative s }", "allocate s { alternative t }"], ["allocate r, s { alternative t }"],
                                ["allocate r { alternative s, t }", "allocate r"], ["allocate r", "allocate r"]])
            mid = rng.choice(["", "priority 700 ", 'note "n" '])
            body = 'task a "A" { effort 4h %s %s%s }\ntask b "B" { effort 3h allocate t depends !a }\n' % (parts[0], mid, " ".join(parts[1:]))
            if rng.random() < 0.3:
                body = 'task g "G" { %s task a "A" { effort 4h %s } }\n' % (parts[0], " ".join(parts[1:]) or "priority 300")
            out.append((H % (dur, "") + body, None, "allocs:%d" % len(parts)))
    return out


def corrupt(rng, text):
    toks = text.split(" ")
    k = rng.randint(0, 3)
    i = rng.randrange(len(toks))
    if k == 0:
        del toks[i]
    elif k == 1:
        toks.insert(i, toks[i])
    elif k == 2 and len(toks) > 2:
        j = rng.randrange(len(toks))
        toks[i], toks[j] = toks[j], toks[i]
    else:
        toks[i] = rng.choice(["{", "}", "task", "depends", "!!!", "2025-13-45", "effort", "0h", "-5h", '"'])
    return " ".join(toks)


def run(ctx):
    nob, ndis, failing, files = common.obligations(ctx, PROPS)
    import schedcheck
    aps = schedcheck.load_corpus("C11") + infeasible(ctx, ctx.n(120, 1200))      # corpus first
    res = projects.schedule_all(ctx, aps, timeout=90)
    bad, stats = [], Counter()
    for ap, r in zip(aps, res):
        stats[ap["_family"]] += 1
        size = sum(1 for _ in projects.walk(ap["tasks"]))
        fs = oracles.c11(ap, r, size)
        if r.get("ok"):
            sc = r["obs"]["scenarios"][0]
            stats["leaves"] += sum(1 for t in sc["tasks"].values() if t["leaf"])
            stats["unscheduled_leaves"] += sum(1 for t in sc["tasks"].values() if t["leaf"] and not t["sched"])
        else:
            stats["exc:" + str(r.get("exc"))] += 1
        for f in fs:
            bad.append({"finding": f, "project": projects.render(ap), "abstract_project": ap})
    # malformed stream: corrupted variants of valid texts must end in {result, parse error}
    valid = [projects.render(ap) for ap in gens.family(ctx, "core", ctx.n(60, 400))]
    texts = [corrupt(ctx.rng, t) for t in valid for _ in range(3)]
    res2 = common.run_workers(ctx, "w_sched", [{"text": t, "timeout": 60, "ledger": False} for t in texts])
    for t, r in zip(texts, res2):
        if r.get("ok"):
            stats["malformed:accepted"] += 1
            for sc in r["obs"]["scenarios"][:1]:
                for name, st in sc["tasks"].items():
                    if st["leaf"] and st["sched"] and (st["start"] is None or st["end"] is None or st["start"] > st["end"]):
                        bad.append({"finding": {"what": "a corrupted text was accepted and produced a scheduled task without start <= end", "task": name}, "project": t})
        elif r.get("exc") in PARSE_ERRORS or "worker_error" not in r and r.get("exc") not in ("Timeout", "RecursionError", "IndexError", "KeyError", "AttributeError", "TypeError", "ZeroDivisionError", "AssertionError", "OverflowError", "MemoryError", "UnboundLocalError", "NameError"):
            stats["malformed:rejected:" + str(r.get("exc"))] += 1
        else:
            stats["malformed:crash:" + str(r.get("exc", "worker"))] += 1
            bad.append({"finding": {"what": "a corrupted text made the parser/scheduler crash or hang instead of reporting a parse error",
                                    "exception": r.get("exc"), "message": r.get("msg"), "where": r.get("where")}, "project": t})
    # grammatical oddities: the outcome is a result or a diagnostic, within seconds
    odd = oddities(ctx.rng, ctx.n(160, 1200))
    res3 = common.run_workers(ctx, "w_sched", [{"text": t, "timeout": 30, "ledger": False} for t, _, _ in odd])
    for (t, must, fam), r in zip(odd, res3):
        stats["odd:" + fam.split(":")[0]] += 1
        if r.get("ok"):
            stats["odd:accepted"] += 1
            if must is False:
                bad.append({"finding": {"what": "a text whose macros never stop calling each other was accepted", "family": fam}, "project": t})
            for sc in r["obs"]["scenarios"][:1]:
                for name, st in sc["tasks"].items():
                    if st["leaf"] and st["sched"] and (st["start"] is None or st["end"] is None or st["start"] > st["end"]):
                        bad.append({"finding": {"what": "an unusual but grammatical text produced a scheduled task without start <= end", "task": name, "family": fam}, "project": t})
        elif "worker_error" not in r and r.get("exc") in DIAGNOSTICS and must is not True:
            stats["odd:rejected:" + str(r.get("exc"))] += 1
        else:
            stats["odd:crash:" + str(r.get("exc", "worker"))] += 1
            bad.append({"finding": {"what": "a grammatical text made the preprocessor/parser/scheduler crash or hang instead of giving a schedule or a diagnostic" if must is not True else "a valid text with nested macros was not scheduled",
                                    "family": fam, "exception": r.get("exc", r.get("worker_error")), "message": r.get("msg"), "where": r.get("where")}, "project": t})
    violations = []
    seen = set()
    for b in bad:
        key = (b["finding"]["what"], str(b["finding"].get("exception")), str((b["finding"].get("where") or [""])[-1]))
        if key in seen:
            continue
        seen.add(key)
        violations.append({"replay": common.write_replay(ctx, {"property": "C11", "kind": "failing input on the implementation", **b})})
        if len(violations) >= 3:
            break
    if not violations and failing:
        violations.append({"no_input": True, "replay": common.write_replay(ctx, {"property": "C11", "kind": "proof obligation no longer checks; no failing input found", "failing_obligations": failing})})
    cov = {"obligations": nob, "discharged": ndis, "checker_cmd": "tools/coqbuild.sh (coqc 8.16.1 full .vo build)", "trusted_base": common.TRUSTED, "files": files,
           "traces_validated_against_impl": len(aps) + len(texts) + len(odd), "input_distribution": dict(stats),
           "rule": "grammatical infeasible projects (cycles, self-dependencies, pinned dates before/after the horizon, never-working resources, huge and one-minute efforts, huge gaps, ALAP deadlines outside the horizon, work pinned too close to the end of the horizon, alternatives on the infeasible task, resource groups in allocations, 'flags contiguous', resources with efficiency 0, horizons ending inside working hours, efforts of 99999999h) in isolated workers with a time limit; corrupted variants (token deletion, duplication, swap, replacement) of valid texts: the outcome must be a result or a parse error; grammatical oddities (macros calling each other in cycles or themselves one to three times a pass, nested macros that end, timing resolutions from 0 to a day, gaps of thousands of years in every dependency spelling and direction, several allocate statements with and without alternatives, attributes written for the root, an inner or a leaf scenario incl. duration and length, uninterruptible tasks on unresolvable resources with working time around the clock): a result or a diagnostic within 30 s. The fault-injection part is testing and is labelled so: Lark, the transformer and Python exceptions outside slot indexing are not modelled.",
           "samples": [{"family": aps[0]["_family"], "project": projects.render(aps[0])[:1000]}, {"malformed": texts[0][:400]}]}
    common.finish(ctx, "proof", cov, violations,
                  ["partial: the theorems cover termination of the model (structural fuel) and that no slot outside the horizon is touched; everything in front of the scheduler (Lark, transformer) is exercised by fault injection only"])
