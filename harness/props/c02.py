"""C02 - work is booked only inside the resource's working time."""
import common
import oracles
import projects
import schedcheck

PROPS = ["Props/C02.v"]

K01 = {"start": projects.MON, "dur": ("w", 2), "G": 3600, "tz": "Etc/UTC", "vac": [], "gleaves": [], "shifts": {},
       "resources": [{"id": "r0", "eff": "1.0", "leaves": [], "hours": [(d, [((8, 15), (11, 45))]) for d in range(5)]}],
       "tasks": [{"id": "t0", "effort": 240, "alloc": ["r0"]}], "_family": "K01", "_i": 0}


def run(ctx):
    def post(ctx, aps, res):
        # K01 (known finding): with a calendar that is not aligned to the resolution a slot is classified
        # by its first instant; seconds of the booked slot then lie outside the declared hours
        r = projects.schedule_all(ctx, [K01])[0]
        out = []
        if r.get("ok"):
            obs = r["obs"]
            sc = obs["scenarios"][0]
            node = K01["resources"][0]
            for rr, slots in sc["ledger"].items():
                for s, ents in slots.items():
                    ts = obs["start"] + int(s) * obs["G"]
                    if sum(x for _, x in ents) > 1 and not projects.working(K01, node, ts + obs["G"] - 60):
                        out.append((K01, {"what": "seconds booked outside the declared hours (slot classified by its first instant)",
                                          "slot_start": ts, "entries": ents,
                                          "known_signature": "K01 calendar not aligned to the timing resolution"}, r))
                        return out, {"K01_reproduced": 1}
        return out, {"K01_reproduced": 0}
    schedcheck.run(ctx, "C02", PROPS,
                   [("hours", 150, 1500), ("core", 40, 400), ("subslot", 40, 400), ("alap", 40, 300), ("yearend", 40, 400), ("bookings", 40, 300), ("alapcore", 40, 400), ("midslot", 80, 600), ("grouphours", 60, 500), ("gstraddle", 60, 500)],
                   ["c02"],
                   ["the tz database (zoneinfo) is an oracle shared with the implementation",
                    "second-level containment is claimed for calendars aligned to the resolution only (K01 is a recorded known finding)",
                    "the project default calendar (Mon-Fri 09-17) is evaluated on the project clock"],
                   "corpus first; generated calendars: several intervals per day, hours written on a resource group and inherited by its members, cross-midnight, day subsets, shifts, IANA zones incl. DST transitions inside the horizon and 30/45-minute offsets, single-day and ranged leaves/vacations/holidays, leaves / vacations / blocking bookings that begin or end inside a slot, resolutions 15-60 min, ASAP and ALAP; the calendar is recomputed by the harness from the abstract project; Gen/WorkingHours* compared on the leaf grid (C13); core projects compared with the extracted scheduler model",
                   post=post)
