"""C04 - dependencies and gaps are respected."""
import schedcheck

PROPS = ["Props/C04.v"]


def run(ctx):
    schedcheck.run(ctx, "C04", PROPS,
                   [("deps", 150, 1500), ("coredeps", 80, 800), ("core", 40, 400), ("alap", 100, 1000), ("alapcore", 100, 1000), ("sd", 60, 600), ("dupprec", 60, 500), ("taskalap", 40, 400), ("subslot", 40, 300), ("alapnest", 100, 800), ("maxgapdeps", 100, 800)],
                   ["c04"],
                   ["edges are re-derived from the abstract project (own, inherited from every ancestor, 'precedes' inverted)",
                    "the theorem covers forward mode in the whole-slot dialect; backward (ALAP) mode, mid-slot gaps and milestones are checked on the implementation by the oracle only",
                    "on-start edges in backward mode and chains mixing modes are not claimed (property text)"],
                   "corpus first; random DAGs over nested trees (depth <= 3), gaps incl. non-slot multiples, on-start/on-end, relative and absolute references, precedes, dependencies on containers, dated containers, pinned starts; ASAP, project-level ALAP with deadlines on sinks and containers, task-level ALAP")
