"""C04 - dependencies and gaps are respected."""
import schedcheck

PROPS = ["Props/C04.v"]


def units_first(ctx):
    """the very first project of every worker process: the same duration text ("1d", "2d", "1w") as working time
    (gaplength) on the edge that is evaluated first and as calendar time (gapduration) on a later one - whatever a
    process remembers about a duration text must not depend on which meaning it met first"""
    import projects
    import common
    out = []
    for i in range(common.NPROC):
        k, txt = [(1, 1440), (2, 2880), (1, 1440)][i % 3]
        ap = {"start": projects.MON, "dur": ("w", 4), "G": 3600, "tz": "Etc/UTC", "vac": [], "gleaves": [], "shifts": {},
              "resources": [{"id": f"r{j}", "eff": "1.0", "leaves": []} for j in range(3)],
              "tasks": [{"id": "a", "effort": 360, "alloc": ["r0"], "prio": 900},
                        {"id": "x", "effort": 120, "alloc": ["r1"], "prio": 800, "deps": [{"to": ["a"], "style": "abs", "gaplen": 480 * k, "gaplen_days": True}]},
                        {"id": "y", "effort": 120, "alloc": ["r2"], "prio": 100, "deps": [{"to": ["a"], "style": "abs", "gap": txt}]}],
              "_family": "unitsfirst", "_i": i}
        out.append(ap)
    return out


def with_scenarios(ctx):
    """dependency projects with a second and third scenario: every edge, however it is spelled ('depends' or 'precedes',
    with or without options), binds in every scenario"""
    import gens
    out = []
    for ap in gens.family(ctx, "deps", ctx.n(50, 400)) + gens.family(ctx, "dupprec", ctx.n(30, 250)):
        ap["scenario_lines"] = [ctx.rng.choice(['scenario plan "plan" { scenario s1 "s1" }',
                                                'scenario plan "plan" { scenario s1 "s1" { scenario s2 "s2" } }'])]
        ap["_family"] = "scen" + ap["_family"]
        out.append(ap)
    return out


def run(ctx):
    schedcheck.run(ctx, "C04", PROPS,
                   [("deps", 150, 1500), ("coredeps", 80, 800), ("core", 40, 400), ("alap", 100, 1000), ("alapcore", 100, 1000), ("sd", 60, 600), ("dupprec", 60, 500), ("taskalap", 40, 400), ("subslot", 40, 300), ("alapnest", 100, 800), ("maxgapdeps", 100, 800), ("gaplenmix", 60, 500)],
                   ["c04"],
                   ["edges are re-derived from the abstract project (own, inherited from every ancestor, 'precedes' inverted)",
                    "the theorem covers forward mode in the whole-slot dialect; backward (ALAP) mode, mid-slot gaps and milestones are checked on the implementation by the oracle only",
                    "on-start edges in backward mode and chains mixing modes are not claimed (property text)"],
                   "corpus first; random DAGs over nested trees (depth <= 3), gaps incl. non-slot multiples, on-start/on-end, relative and absolute references, precedes, dependencies on containers, dated containers, pinned starts; ASAP, project-level ALAP with deadlines on sinks and containers, task-level ALAP; edges that also carry a maximum gap; gaps in days as calendar time and as working time, the working-time meaning met first in every worker process; dependency projects with two and three scenarios, every scenario checked",
                   first_cases=units_first, extra_cases=with_scenarios, all_scenarios=True)
