"""C08 - no eligible working time is left idle."""
import schedcheck

PROPS = ["Props/C08.v"]


def run(ctx):
    schedcheck.run(ctx, "C08", PROPS,
                   [("core", 100, 1000), ("hours", 80, 800), ("subslot", 80, 800), ("alap", 100, 1000), ("alapcore", 100, 1000), ("teamlimits", 80, 700), ("limits", 60, 500), ("sd", 60, 600), ("taskalap", 60, 600), ("coredeps", 40, 400), ("grouphours", 60, 500), ("windeps", 60, 500)],
                   ["c08", "c08_team"],
                   ["checked for tasks on a single resource with no limit in play (as the property states) and calendars aligned to the resolution",
                    "free slots are free for good (bookings are never withdrawn), so the final ledger decides",
                    "the theorem covers ASAP in the whole-slot dialect; ALAP is checked on the implementation by the oracle"],
                   "corpus first; contention, leaves, zones, cross-midnight shifts, sub-slot efforts, ASAP tasks, project-level ALAP with deadlines on sinks/containers, task-level ALAP with explicit end")
