"""C20 - CLI runs leave no trace and do not interfere with each other."""
import os
from collections import Counter

import cli
import common
import gens
import projects

PROPS = ["Props/C20.v"]


def run(ctx):
    nob, ndis, failing, files = common.obligations(ctx, PROPS)
    aps = gens.family(ctx, "core", ctx.n(4, 12)) + gens.family(ctx, "subslot", ctx.n(3, 8))
    texts = []
    for i, ap in enumerate(aps):
        tail = ""
        if i % 2:
            tail = 'taskreport own "own_%d" { formats json, csv columns id, name }\n' % i
        if i % 3 == 2:
            tail += 'taskreport sub "sub/dir_%d" { formats json columns id }\n' % i
        texts.append(projects.render(ap, extra_tail=tail).encode())
    bad, stats = [], Counter()
    known_lines = []
    box = cli.Box(ctx)
    try:
        names = []
        for i, t in enumerate(texts):
            names.append(f"p{i}.tjp")
            box.put(names[-1], t)
        box.put("empty.tjp", b"")
        box.put("syntax.tjp", b'project p "P" 2025-01-06 +1w {\n task a "A" { effort }\n')
        box.put("exists.json", b"{}")
        box.put("binary.tjp", b'project p "P\xff\xfe" 2025-01-06 +1w {}\n')
        oddname = os.fsdecode(b"caf\xe9 plan.tjp")          # a file name that is not valid UTF-8
        box.put(oddname, texts[0])
        box.put("escape.tjp", texts[0] + b'\ntaskreport esc "../escaped_by_name" { formats json columns id }\n')
        # report definitions the library ends with a fatal error (MessageHandler.error -> sys.exit)
        box.put("anon.tjp", texts[0] + b'\ntaskreport { formats json columns id }\n')
        box.put("badname.tjp", texts[0] + b'\ntaskreport q "what?" { formats csv columns id }\n')
        base_cwd = cli.listing(box.cwd)

        def leftovers(label, extra_ok=()):
            cw = [x for x in cli.listing(box.cwd) if x not in base_cwd and x not in extra_ok]
            tm = cli.listing(box.tmp)
            if cw:
                bad.append({"what": "a plan invocation created a file in the working directory", "path": label, "files": cw[:6]})
                for x in cw:
                    try:
                        os.remove(os.path.join(box.cwd, x))
                    except OSError:
                        pass
            if tm:
                bad.append({"what": "a plan invocation left files behind in the temporary directory", "path": label, "files": tm[:6]})
                import shutil
                for x in os.listdir(box.tmp):
                    shutil.rmtree(os.path.join(box.tmp, x), ignore_errors=True) if os.path.isdir(os.path.join(box.tmp, x)) else os.remove(os.path.join(box.tmp, x))
        # ---- every exit path, solitary
        solo = {}
        paths = []
        for i, nm in enumerate(names):
            for fmt in ([], ["--csv"]):
                paths.append((f"success {nm} {fmt}", ["report"] + fmt + [nm], None, (nm, tuple(fmt))))
            paths.append((f"success stdin {nm}", ["report"], texts[i], (nm, "stdin")))
        paths += [("missing", ["report", "nope.tjp"], None, None), ("empty file", ["report", "empty.tjp"], None, None),
                  ("empty stdin", ["report"], b"", None), ("syntax error", ["report", "syntax.tjp"], None, None),
                  ("syntax error stdin", ["report", "-"], b'project p "P" 2025-01-06 +1w {\n', None),
                  ("output exists", ["report", "-o", "exists.json", names[0]], None, None),
                  ("output exists stdin", ["report", "--output", "exists.json"], texts[0], None),
                  ("verbose", ["--verbose", "report", names[0]], None, None),
                  ("quiet", ["--quiet", "report", names[0]], None, None),
                  ("quiet csv stdin", ["--quiet", "report", "--csv"], texts[-1], None),
                  ("quiet failing", ["--quiet", "report", "syntax.tjp"], None, None),
                  ("verbose failing", ["--verbose", "report", "syntax.tjp"], None, None),
                  ("verbose stdin", ["--verbose", "report", "-"], texts[0], None),
                  ("undecodable", ["report", "binary.tjp"], None, None),
                  ("fatal anonymous report", ["report", "anon.tjp"], None, None),
                  ("fatal report name", ["report", "--csv", "badname.tjp"], None, None),
                  ("fatal report name stdin", ["report"], texts[0] + b'\ntaskreport q "what?" { formats json columns id }\n', None),
                  ("undecodable file name", ["report", oddname], None, None),
                  ("undecodable file name csv quiet", ["--quiet", "report", "--csv", oddname], None, None),
                  ("output new file", ["report", "-o", "out_new.json", names[0]], None, None),
                  ("output forced", ["report", "--force", "-o", "exists.json", names[0]], None, None),
                  # -o names a file that does not exist yet and the run fails: nothing may appear in the working directory
                  ("output new file, syntax error", ["report", "-o", "never1.json", "syntax.tjp"], None, None),
                  ("output new file, fatal report name", ["report", "--csv", "--output", "never2.csv", "badname.tjp"], None, None),
                  ("output new file, empty stdin", ["report", "-o", "never3.json"], b"", None),
                  ("output new file, undecodable", ["report", "-o", "never4.json", "binary.tjp"], None, None)]
        for label, args, stdin, key in paths:
            r = box.run(args, stdin=stdin)
            stats["path:" + label.split(" ")[0]] += 1
            if key:
                solo[key] = r
            leftovers(label, extra_ok=("out_new.json",))
            if r["rc"] == "timeout":
                bad.append({"what": "plan invocation hung", "path": label})
        # ---- stderr or stdout on a full device: messages and the report cannot be written, the clean-up still happens
        import subprocess as _sp
        for label, args, stdin, full in (("fullstderr quiet syntax error", ["--quiet", "report", "syntax.tjp"], None, "err"),
                                         ("fullstderr syntax error", ["report", "syntax.tjp"], None, "err"),
                                         ("fullstderr quiet fatal report name", ["--quiet", "report", "badname.tjp"], None, "err"),
                                         ("fullstderr quiet success", ["--quiet", "report", names[0]], None, "err"),
                                         ("fullstderr success stdin", ["report", "--csv"], texts[0], "err"),
                                         ("fullstdout success", ["--quiet", "report", names[0]], None, "out"),
                                         ("fullstdout and fullstderr", ["report", names[-1]], None, "both")):
            if not os.path.exists("/dev/full"):
                stats["devfull_unavailable"] += 1
                break
            cmd = [common.PY, "-c", "import sys; from scriptplan.cli.plan import main; sys.exit(main())"] + list(args)
            with open("/dev/full", "w") as sink:
                p = _sp.Popen(cmd, cwd=box.cwd, env=box.env(), stdin=_sp.PIPE if stdin is not None else _sp.DEVNULL,
                              stdout=sink if full in ("out", "both") else _sp.DEVNULL, stderr=sink if full in ("err", "both") else _sp.DEVNULL)
                try:
                    p.communicate(stdin, timeout=120)
                except _sp.TimeoutExpired:
                    p.kill()
                    p.communicate()
                    bad.append({"what": "plan invocation hung", "path": label})
            stats["path:fulldevice"] += 1
            leftovers(label, extra_ok=("out_new.json",))
        # ---- stdout is a pipe whose reader has gone away before the report is written (plan report x.tjp | head -0)
        import subprocess
        for label, args, stdin in (("closedpipe json file", ["report", names[0]], None),
                                   ("closedpipe csv stdin", ["report", "--csv"], texts[0]),
                                   ("closedpipe json quiet", ["--quiet", "report", names[-1]], None)):
            p = box.popen(args, stdin)
            p.stdout.close()
            try:
                if stdin is not None:
                    p.stdin.write(stdin)
                    p.stdin.close()
                p.stderr.read()
                p.wait(timeout=120)
            except (OSError, subprocess.TimeoutExpired):
                p.kill()
                p.wait()
            stats["path:closedpipe"] += 1
            leftovers(label, extra_ok=("out_new.json",))
        # ---- the temp-file life cycle, system call by system call, against Model/Cli.v (trace)
        def model_trace(chan, inp, ok):
            line = "trace %d %d %d" % (0 if chan == "file" else 1, {"missing": 0, "notafile": 1, "empty": 2, "content": 3, "undecodable": 4}[inp], 1 if ok else 0)
            left, right = common.run_driver("miscdriver", [line])[0].split("|")
            return left.split(), right.split()
        traced = [("file ok", ["report", names[0]], None, ("file", "content", True)),
                  ("file ok csv", ["report", "--csv", names[min(1, len(names) - 1)]], None, ("file", "content", True)),
                  ("stdin ok", ["report"], texts[0], ("stdin", "content", True)),
                  ("stdin - ok", ["report", "-"], texts[-1], ("stdin", "content", True)),
                  ("file syntax error", ["report", "syntax.tjp"], None, ("file", "content", False)),
                  ("stdin syntax error", ["report"], b'project p "P" 2025-01-06 +1w {\n', ("stdin", "content", False)),
                  ("file fatal library error", ["report", "anon.tjp"], None, ("file", "content", False)),
                  ("stdin fatal library error", ["report", "-"], texts[0] + b'\ntaskreport q "what?" { formats json columns id }\n', ("stdin", "content", False)),
                  ("missing", ["report", "nope.tjp"], None, ("file", "missing", True)),
                  ("empty file", ["report", "empty.tjp"], None, ("file", "empty", True)),
                  ("empty stdin", ["report"], b"", ("stdin", "empty", True)),
                  ("undecodable file", ["report", "binary.tjp"], None, ("file", "undecodable", True)),
                  ("undecodable stdin", ["report"], b'project p "P\xff\xfe" 2025-01-06 +1w {}\n', ("stdin", "undecodable", True))]
        for label, args, stdin, cls in traced:
            r = box.run_traced(args, stdin=stdin)
            want, left = model_trace(*cls)
            if r.get("fsops") is None:
                stats["strace_unavailable"] += 1
                continue
            stats["traced:" + label.split(" ")[0]] += 1
            # (whether undecodable bytes on stdin fail in sys.stdin.read() or when the copy is written depends on
            #  the interpreter's stdin error handler, i.e. on the locale: both orders clean up)
            if (r["fsops"] != want and not (label == "undecodable stdin" and r["fsops"] == [])) or left:
                bad.append({"what": "the sequence of temporary names created and removed differs from Model/Cli.v (trace)", "path": label,
                            "system_calls": r["fsops"], "model": want, "model_names_left": left})
            if r.get("other_names"):
                bad.append({"what": "a plan invocation created or removed a name in TMPDIR that the model does not know", "path": label, "names": r["other_names"][:6]})
            leftovers("traced " + label, extra_ok=("out_new.json",))
        # ---- K02 (known finding): an own report whose name climbs out of the private output directory
        r = box.run(["report", "escape.tjp"])
        left = [x for x in cli.listing(box.tmp)]
        if left:
            k = common.match_known("C20", "K02 own report name leaves the private output directory")
            if k and left == ["escaped_by_name.json"]:
                known_lines.append(f"KNOWN-FINDING: property=C20 {k['what']}")
                stats["K02_reproduced"] += 1
            else:
                bad.append({"what": "a plan invocation left files behind in the temporary directory", "path": "own report named ../escaped_by_name", "files": left[:6]})
            for x in left:
                try:
                    os.remove(os.path.join(box.tmp, x))
                except OSError:
                    pass
        # ---- concurrent runs in the same directory: same and different inputs
        n = ctx.n(24, 72)
        jobs = []
        for j in range(n):
            i = j % len(names) if j % 3 else 0            # many runs on the same input
            fmt = ["--csv"] if j % 4 == 1 else []
            if j % 5 == 4:
                jobs.append(((names[i], "stdin"), box.popen(["report"], stdin=texts[i]), texts[i]))
            elif j % 7 == 6:
                jobs.append((None, box.popen(["report", "syntax.tjp"]), None))
            elif j % 6 == 5:
                # runs that fail before their own temporary files exist (input that is not text), next to runs in progress
                jobs.append((None, box.popen(["report", "binary.tjp"]), None))
            elif j % 11 == 3:
                jobs.append((None, box.popen(["report", "-"], stdin=b'project p "P\xff\xfe" 2025-01-06 +1w {}\n'), b'project p "P\xff\xfe" 2025-01-06 +1w {}\n'))
            else:
                jobs.append(((names[i], tuple(fmt)), box.popen(["report"] + fmt + [names[i]]), None))
        for key, p, stdin in jobs:
            try:
                out, err = p.communicate(stdin, timeout=300)
            except Exception:
                p.kill()
                out, err = p.communicate()
                bad.append({"what": "a concurrent plan invocation hung", "key": str(key)})
                continue
            stats["concurrent"] += 1
            if key is None:
                if p.returncode != 2 or out.strip():
                    bad.append({"what": "a failing run behaved differently when run concurrently", "rc": p.returncode})
                continue
            s = solo[key]
            if p.returncode != s["rc"] or out != s["out"]:
                bad.append({"what": "a concurrent plan invocation produced different bytes than the solitary run", "key": str(key),
                            "rc": [p.returncode, s["rc"]], "stdout_concurrent": out.decode(errors="replace")[:300], "stdout_solitary": s["out"].decode(errors="replace")[:300],
                            "stderr": err.decode(errors="replace")[-300:]})
        leftovers("after %d concurrent runs" % n, extra_ok=("out_new.json",))
    finally:
        box.close()
    violations, seen = [], set()
    for b in bad:
        if b["what"] in seen:
            continue
        seen.add(b["what"])
        violations.append({"replay": common.write_replay(ctx, {"property": "C20", "kind": "failing history on the implementation", "finding": b})})
        if len(violations) >= 3:
            break
    if not violations and failing:
        violations.append({"no_input": True, "replay": common.write_replay(ctx, {"property": "C20", "kind": "proof obligation no longer checks; no failing input found", "failing_obligations": failing})})
    cov = {"obligations": nob, "discharged": ndis, "checker_cmd": "tools/coqbuild.sh (coqc 8.16.1 full .vo build)", "trusted_base": common.TRUSTED, "files": files,
           "traces_validated_against_impl": sum(stats.values()), "input_distribution": dict(stats), "findings": len(bad),
           "rule": "the real entry point as a subprocess with a private cwd and TMPDIR; directory listings before/after every exit path (success json/csv, stdin, own reports incl. one whose name contains a path separator, missing / empty / syntax-error input from file and stdin, report definitions that the library ends with sys.exit (anonymous report, invalid character in the name), output file exists with and without --force, -o naming a new file on failing runs, stdout a pipe whose reader is gone, new output file, --verbose and --quiet on succeeding and failing runs); eleven of the paths also under strace: the order in which the run's own temporary names (stdin copy, combined file, private output directory) are created and removed is compared with the extracted Model/Cli.v (trace) and no other name may appear in TMPDIR; then N concurrent invocations (24 quick / 72 thorough) in the same cwd and TMPDIR on the same and on different inputs incl. failing ones (syntax errors, and input that is not text, which fails before the run's own temporary files exist), each compared byte-wise with its solitary run. The concurrent part is testing and labelled so.",
           "samples": [{"args": ["report", "-o", "exists.json", "p0.tjp"], "expect": "exit 2, nothing left in TMPDIR"}]}
    common.finish(ctx, "proof", cov, violations,
                  ["partial: kernel scheduling and the file system are runtime; freshness of mkstemp / mkdtemp / token_hex names is the assumption of the commutation theorem"],
                  known_lines)
