"""C18 - reports say what was scheduled."""
import csv
import io
import json
from collections import Counter
from datetime import datetime, timedelta

import common
import gens
import projects

PROPS = ["Props/C18.v"]
E = datetime(1970, 1, 1)
COLS = ["id", "name", "start", "end", "cost", "priority"]
FORMATS = [None, "%Y-%m-%d %H:%M", "%d.%m.%Y", "%Y-%m-%d-%H:%M", "%H:%M %a %b %d", "%a, %d %b %Y %H:%M"]


def add_reports(rng, ap):
    reps = []
    ap = dict(ap)
    if rng.random() < 0.4:
        ap["timeformat"] = rng.choice(FORMATS[1:])
    for k in range(rng.randint(1, 2)):
        cols = rng.sample(COLS, rng.randint(2, len(COLS)))
        if "id" not in cols and rng.random() < 0.7:
            cols.insert(0, "id")
        if rng.random() < 0.15:
            cols.append(rng.choice(cols))          # a column requested twice: a JSON record is a dict
        rep = {"id": f"rep{k}", "cols": cols, "leaf": rng.random() < 0.5, "fmt": rng.choice(FORMATS),
               "formats": rng.choice([["json"], ["csv"], ["json", "csv"]])}
        if ap.get("scenario_lines") and rng.random() < 0.6:
            rep["sc"] = 1                            # the report is about the second scenario
        reps.append(rep)
    tail = ""
    for r in reps:
        tail += f'taskreport {r["id"]} "{r["id"]}" {{ formats {", ".join(r["formats"])} columns {", ".join(r["cols"])}'
        if r["leaf"]:
            tail += " leaftasksonly " + rng.choice(["true", "yes", "1", "TRUE", "Yes"])
        elif rng.random() < 0.3:
            tail += " leaftasksonly " + rng.choice(["false", "no", "0", "No"])
        if r["fmt"]:
            tail += f' timeformat "{r["fmt"]}"'
        if r.get("sc"):
            tail += " scenarios s1"
        tail += " }\n"
    return ap, reps, tail


def same_cell(col, a, b):
    """cost cells are sums of floats rendered with two decimals: the last digit may differ by rounding"""
    if a == b:
        return True
    if col == "cost":
        try:
            return abs(float(a or 0) - float(b or 0)) <= 0.0101 and bool(a) == bool(b)
        except (TypeError, ValueError):
            return False
    return False


def model_table(rep, allrows):
    """rows, CSV and JSON renderings by the extracted Model/Report.v from the cell texts of ALL tasks:
    which tasks are kept, their order, header line, and the dict semantics of a JSON record"""
    codes, back = {}, {}

    def code(x):
        if x not in codes:
            codes[x] = len(codes) + 1
            back[codes[x]] = x
        return codes[x]
    cols = rep["cols"]
    line = ["report", 1 if rep["leaf"] else 0, len(cols), len(cols)] + [code("title:" + c) for c in cols] + [len(allrows)]
    for row in allrows:
        line += [1 if row["_leaf"] else 0] + [code(row[c]) for c in cols]
    out = common.run_driver("miscdriver", [" ".join(map(str, line))])[0]
    left, right = out.split("|")
    csvt = [[back[int(x)] for x in r.split(",")] for r in left.strip().split(";") if r]
    recs = [[None if x == "-" else back[int(x)] for x in r.split(",")] for r in right.strip().split(";") if r]
    return csvt, recs


def expected_rows(ap, rep, res):
    """the cell texts the property describes for EVERY task, computed from the schedule (scenario 0) and the ledger"""
    fmt = rep["fmt"] or ap.get("timeformat") or "%Y-%m-%d"
    idx = projects.task_index(ap)
    prio = {}
    rows = []
    rate = {}
    for p, n in projects.walk(ap["resources"]):
        rate[projects.fid(p)] = float(n.get("rate") or 0.0)
    for p, n in idx.items():
        t = projects.fid(p)
        sc = rep.get("sc", 0)
        st = res["tasks"][t][sc]
        row = {"_leaf": "kids" not in n}
        for c in rep["cols"]:
            if c == "id":
                row[c] = t
            elif c == "name":
                row[c] = n["id"]
            elif c in ("start", "end"):
                v = st[1] if c == "start" else st[2]
                row[c] = (E + timedelta(seconds=v)).strftime(fmt) if (st[0] and v is not None) else ""
            elif c == "priority":
                pr = 500
                for k in range(len(p), 0, -1):
                    if idx[p[:k]].get("prio") is not None:
                        pr = idx[p[:k]]["prio"]
                        break
                row[c] = str(pr)
            elif c == "cost":
                tot = 0.0
                if "kids" not in n:
                    for r, slots in (res.get("ledgers") or [res["ledger"]])[sc].items():
                        for s, ents in slots.items():
                            for tt, x in ents:
                                if tt == t:
                                    tot += rate.get(r, 0.0) * x / 3600.0
                row[c] = f"{tot:.2f}" if tot > 0 else ""
        rows.append(row)
    return rows


def run(ctx):
    nob, ndis, failing, files = common.obligations(ctx, PROPS)
    base = []
    for fam, nq, nt in (("core", 60, 600), ("subslot", 60, 600), ("trees", 60, 600), ("alap", 20, 200)):
        base += gens.family(ctx, fam, ctx.n(nq, nt))
    cases, metas = [], []
    for ap in base:
        for _, n in projects.walk(ap["resources"]):
            if "kids" not in n and ctx.rng.random() < 0.7:
                n["rate"] = ctx.rng.choice([10.0, 100.0, 37.5, 250.0])
        if ctx.rng.random() < 0.3:
            # a second scenario with efforts of its own: a report may be about it ('scenarios s1')
            ap["scenario_lines"] = ['scenario plan "plan" { scenario s1 "s1" }']
            for _, n in projects.walk(ap["tasks"]):
                if "kids" not in n and n.get("effort") and ctx.rng.random() < 0.5:
                    n.setdefault("sc_attrs", []).append(("s1", "effort", n["effort"] + ctx.rng.choice([60, 120, 240])))
        ap2, reps, tail = add_reports(ctx.rng, ap)
        cases.append({"text": projects.render(ap2, extra_tail=tail)})
        metas.append((ap2, reps))
    res = common.run_workers(ctx, "w_report", cases)
    bad, stats = [], Counter()
    for (ap, reps), c, r in zip(metas, cases, res):
        if not r.get("ok"):
            stats["impl_error:" + str(r.get("exc") or r.get("worker_error"))] += 1
            bad.append({"what": "report generation raised", "detail": {k: r.get(k) for k in ("exc", "msg", "tb", "worker_error")}, "text": c["text"]})
            continue
        if r["tasks"] != r["tasks_after"] or not r["ledger_same"]:
            bad.append({"what": "generating reports altered the schedule", "text": c["text"]})
        for rep, out in zip(reps, r["reports"]):
            stats["reports"] += 1
            allrows = expected_rows(ap, rep, r)
            mcsv, mrecs = model_table(rep, allrows)
            want = mcsv[1:]
            # rendering twice gives the same table
            if out["json0"] != out["json1"] or out["csv0"] != out["csv1"]:
                bad.append({"what": "rendering a report twice gives different tables", "report": rep, "text": c["text"]})
            csvt = out["csv0"] or []
            header, body = (csvt[0] if csvt else []), csvt[1:]
            if [h.lower() for h in header] != rep["cols"]:
                bad.append({"what": "the CSV header is not the list of requested columns", "header": header, "report": rep, "text": c["text"]})
            if len(body) != len(want):
                bad.append({"what": "the report does not have one row per task in declaration order (leaves only when requested)",
                            "report": rep, "rows": len(body), "expected_rows": len(want), "text": c["text"]})
                continue
            for i, (row, w) in enumerate(zip(body, want)):
                if len(row) != len(w) or not all(same_cell(cc, a, b) for cc, a, b in zip(rep["cols"], row, w)):
                    j = next((k for k in range(min(len(row), len(w))) if not same_cell(rep["cols"][k], row[k], w[k])), 0)
                    bad.append({"what": f"report cell differs from the scheduled value (column {rep['cols'][j] if j < len(rep['cols']) else j})", "row": i,
                                "cells": row, "expected": w, "report": rep, "text": c["text"]})
                    break
            js = out["json0"] or {}
            data = js.get("data", [])
            if len(data) != len(mrecs):
                bad.append({"what": "JSON and CSV renderings have different numbers of rows", "report": rep, "text": c["text"]})
            else:
                jcols = js.get("columns", [])
                for i, (rec, mr) in enumerate(zip(data, mrecs)):
                    got = [rec.get(h) for h in jcols]
                    if len(jcols) != len(mr) or not all(same_cell(cc, a, b) for cc, a, b in zip(rep["cols"], got, mr)):
                        bad.append({"what": "JSON and CSV renderings carry different cells", "row": i, "json": got, "model": mr, "report": rep, "text": c["text"]})
                        break
            # generated files carry the same tables
            for fn, content in out["files"].items():
                stats["files"] += 1
                if fn.endswith(".json"):
                    if json.loads(content) != json.loads(json.dumps(out["json0"], default=str)):
                        bad.append({"what": "generated JSON file differs from to_json()", "file": fn, "text": c["text"]})
                elif fn.endswith(".csv"):
                    if list(csv.reader(io.StringIO(content))) != [list(map(str, x)) for x in out["csv0"]]:
                        bad.append({"what": "generated CSV file differs from to_csv()", "file": fn, "text": c["text"]})
            for f in rep["formats"]:
                if not any(fn.endswith("." + f) for fn in out["files"]):
                    bad.append({"what": f"requested format {f} was not generated", "report": rep, "files": list(out["files"]), "text": c["text"]})
    violations, seen = [], set()
    for b in bad:
        if b["what"] in seen:
            continue
        seen.add(b["what"])
        violations.append({"replay": common.write_replay(ctx, {"property": "C18", "kind": "failing input on the implementation", "finding": b})})
        if len(violations) >= 3:
            break
    if not violations and failing:
        violations.append({"no_input": True, "replay": common.write_replay(ctx, {"property": "C18", "kind": "proof obligation no longer checks; no failing input found", "failing_obligations": failing})})
    cov = {"obligations": nob, "discharged": ndis, "checker_cmd": "tools/coqbuild.sh (coqc 8.16.1 full .vo build)", "trusted_base": common.TRUSTED, "files": files,
           "traces_validated_against_impl": stats["reports"], "input_distribution": dict(stats), "findings": len(bad),
           "rule": "scheduled core / sub-slot / tree / ALAP projects with resource rates, 1-2 task reports each with a random column selection (id, name, start, end, cost, priority), leaf-only flag, report and project time formats, reports about the second scenario of projects with scenario-specific efforts, json / csv / both; API tables rendered twice, generated files re-read, task attributes and ledger compared before/after",
           "samples": [{"text": cases[0]["text"][-600:], "csv": (res[0].get("reports") or [{}])[0].get("csv0")}]}
    common.finish(ctx, "proof", cov, violations,
                  ["partial: strftime, json and csv are oracles; cell texts are recomputed by the harness from the schedule and the ledger; which rows appear, their order, the header and the dict semantics of JSON records (duplicate titles keep the last binding) are computed by the extracted Model/Report.v"])
