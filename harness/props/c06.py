"""C06 - reported start and end frame exactly the booked work."""
import schedcheck

PROPS = ["Props/C06.v"]


def run(ctx):
    schedcheck.run(ctx, "C06", PROPS,
                   [("subslot", 200, 2000), ("deps", 60, 600), ("alap", 100, 800), ("alapcore", 80, 800), ("sd", 100, 1000), ("sdteam", 40, 400), ("taskalap", 40, 300), ("core", 40, 300), ("alapfull", 60, 600), ("alapslot0", 30, 200), ("fwdend", 80, 600), ("alapsub", 40, 300)],
                   ["c06"],
                   ["a first/last slot holding less than one second of work cannot be told from no work through dates rounded to the second",
                    "the theorem covers the whole-slot frame; the position inside a shared slot is checked on the implementation by the oracle"],
                   "corpus first; tasks that begin and finish inside one slot, chains and fans of sub-slot tasks on one resource, 3+ tasks meeting in a slot, mid-slot dependency bounds, milestones at mid-slot bounds and in dated containers, ASAP and ALAP, backward projects whose work is pushed back to the very first slot")
