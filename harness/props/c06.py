"""C06 - reported start and end frame exactly the booked work."""
import schedcheck

PROPS = ["Props/C06.v"]


def dated_milestones(ctx):
    """milestones given by ONE date of their own: forward ones by their end instead of their start, and - in backward
    projects - milestones pinned by a start inside containers that carry a deadline"""
    import gens
    import projects
    out = []
    for ap in gens.family(ctx, "mstrees", ctx.n(60, 400)):
        for _, n in projects.walk(ap["tasks"]):
            if "milestone" in n and n.get("start") is not None and n.get("end") is None and ctx.rng.random() < 0.6:
                n["end"] = n.pop("start")
        ap["_family"] = "msend"
        out.append(ap)
    for ap in gens.family(ctx, "alapnest", ctx.n(40, 300)) + gens.family(ctx, "alap", ctx.n(40, 300)):
        k = 0
        for _, c in projects.walk(ap["tasks"]):
            if "kids" in c and c.get("end") is not None and ctx.rng.random() < 0.7:
                d = c["end"] - c["end"] % 86400 - ctx.rng.randint(0, 4) * 86400 + ctx.rng.choice([0, 9, 13]) * 3600
                if d > ap["start"]:
                    c["kids"].append({"id": f"mk{k}", "milestone": True, "start": d})
                    k += 1
        if k:
            ap["_family"] = "alapmsstart"
            out.append(ap)
    return out


def run(ctx):
    schedcheck.run(ctx, "C06", PROPS,
                   [("subslot", 200, 2000), ("deps", 60, 600), ("alap", 100, 800), ("alapcore", 80, 800), ("sd", 100, 1000), ("sdteam", 40, 400), ("taskalap", 40, 300), ("core", 40, 300), ("alapfull", 60, 600), ("alapslot0", 30, 200), ("fwdend", 80, 600), ("alapsub", 40, 300)],
                   ["c06"],
                   ["a first/last slot holding less than one second of work cannot be told from no work through dates rounded to the second",
                    "the theorem covers the whole-slot frame; the position inside a shared slot is checked on the implementation by the oracle"],
                   "corpus first; tasks that begin and finish inside one slot, chains and fans of sub-slot tasks on one resource, 3+ tasks meeting in a slot, mid-slot dependency bounds, milestones at mid-slot bounds and in dated containers, ASAP and ALAP, backward projects whose work is pushed back to the very first slot; milestones given by one date of their own (forward by their end, backward by a start inside containers with deadlines)",
                   extra_cases=dated_milestones)
