"""C16 - scenarios are scheduled independently."""
import copy
from collections import Counter

import common
import gens
import projects

PROPS = ["Props/C16.v"]


def scen_tree(rng):
    """random nested scenario tree; returns (lines, order [ids in declaration order], parent map)"""
    names = ["plan", "s1", "s2", "s3", "s4", "s5"]
    n = rng.randint(2, 5)
    parent = {"plan": None}
    kids = {"plan": []}
    for i in range(1, n):
        p = rng.choice(list(parent))
        parent[names[i]] = p
        kids.setdefault(p, []).append(names[i])
        kids[names[i]] = []
    def rec(s):
        inner = " ".join(rec(k) for k in kids[s])
        return f'scenario {s} "{s}"' + (f" {{ {inner} }}" if inner else "")
    order = []
    def pre(s):
        order.append(s)
        for k in kids[s]:
            pre(k)
    pre("plan")
    return rec("plan"), order, parent


def effective(ap, overrides, parent, order):
    """effective value of every overridable attribute in every scenario, computed by the extracted
    Model/Scenario.v (eff): written for the scenario, else for its nearest ancestor, else the unprefixed value"""
    idx = projects.task_index(ap)
    num = {s: i for i, s in enumerate(order)}
    par = [(-1 if parent[s] is None else num[parent[s]]) for s in order]
    lines, keys = [], []
    for p, n in idx.items():
        for key in ("effort", "start", "end"):
            if not any((p, s, key) in overrides for s in order):
                continue
            ov = [overrides.get((p, s, key), -1) for s in order]
            base = n.get(key)
            for s in order:
                lines.append("eff %d %s %s %d %d" % (len(order), " ".join(map(str, par)), " ".join(map(str, ov)), -1 if base is None else base, num[s]))
                keys.append((p, key, s))
    outs = common.run_driver("miscdriver", lines) if lines else []
    return {k: (None if int(o) < 0 else int(o)) for k, o in zip(keys, outs)}


def view(ap, eff, sc):
    """the single-scenario project that scenario sc must equal"""
    ap2 = copy.deepcopy(ap)
    ap2.pop("scenario_lines", None)
    idx = projects.task_index(ap2)
    for p, n in idx.items():
        n.pop("sc_attrs", None)
        for key in ("effort", "start", "end"):
            if (p, key, sc) in eff:
                if eff[(p, key, sc)] is None:
                    n.pop(key, None)
                else:
                    n[key] = eff[(p, key, sc)]
    return ap2


def run(ctx):
    nob, ndis, failing, files = common.obligations(ctx, PROPS)
    base = []
    for fam, nq, nt in (("core", 40, 400), ("subslot", 30, 300), ("limits", 30, 300), ("coredeps", 30, 300), ("scentrees", 40, 300), ("grouphours", 30, 200), ("taskalap", 40, 300)):
        base += gens.family(ctx, fam, ctx.n(nq, nt))
    multi, metas, singles = [], [], []
    for ap in base:
        line, order, parent = scen_tree(ctx.rng)
        ap2 = copy.deepcopy(ap)
        # usually long enough that the horizon does not depend on the efforts; every fourth project keeps a
        # short window, so that the horizon is extended from the efforts (of the first scenario): the first
        # scenario must then still equal the single-scenario project, horizon included
        short = len(multi) % 4 == 3
        ap2["dur"] = ("w", 1) if short else ("w", 16)
        if short:
            for _, nn in projects.walk(ap2["tasks"]):
                if nn.get("effort"):
                    nn["effort"] = ctx.rng.choice([480, 960, 1440, 2400])
                nn.pop("start", None)
        ap2["scenario_lines"] = [line]
        overrides = {}
        leaves = [(p, n) for p, n in projects.walk(ap2["tasks"]) if "kids" not in n and n.get("effort")]
        for p, n in leaves:
            if ctx.rng.random() < 0.5:
                for s in ctx.rng.sample(order, ctx.rng.randint(1, min(3, len(order)))):
                    key = ctx.rng.choice(["effort", "effort", "start"] if ap.get("_family") != "scentrees" else ["start", "start", "effort"]) if n.get("start") is None else "effort"
                    val = ctx.rng.choice([60, 120, 240, 480, 90]) if key == "effort" else ap["start"] + ctx.rng.randint(1, 8) * 86400 + 10 * 3600
                    overrides[(p, s, key)] = val
        # a task that is a dated milestone without work in the first scenario and has work in a later one
        if len(order) >= 2 and not short:
            for p, n in leaves:
                if ctx.rng.random() < 0.15 and not any(k[0] == p and k[2] == "start" for k in overrides):
                    sc_ = ctx.rng.choice(order[1:])
                    overrides[(p, sc_, "effort")] = n["effort"]
                    for k in [k for k in overrides if k[0] == p and k[2] == "effort" and k[1] == order[0]]:
                        del overrides[k]
                    del n["effort"]
                    if n.get("start") is None:
                        n["start"] = ap["start"] + ctx.rng.randint(0, 6) * 86400 + ctx.rng.choice([9, 10, 14]) * 3600
        # written in random order (descendant before ancestor is allowed)
        items = list(overrides.items())
        ctx.rng.shuffle(items)
        idx = projects.task_index(ap2)
        for (p, s, key), val in items:
            idx[p].setdefault("sc_attrs", []).append((s, key, val))
        multi.append(ap2)
        metas.append((order, parent, overrides))
        eff = effective(ap2, overrides, parent, order)
        for s in order:
            singles.append(view(ap2, eff, s))
    rm = projects.schedule_all(ctx, multi, ledger=True)
    rs = projects.schedule_all(ctx, singles, ledger=True)
    bad, stats = [], Counter()
    k = 0
    for ap2, (order, parent, overrides), r in zip(multi, metas, rm):
        stats["scenarios:%d" % len(order)] += 1
        stats["overrides"] += len(overrides)
        for si, s in enumerate(order):
            one = rs[k]
            single_ap = singles[k]
            k += 1
            if not r.get("ok") or not one.get("ok"):
                if r.get("ok") != one.get("ok"):
                    bad.append({"what": "multi-scenario run and single-scenario run differ in success", "project": projects.render(ap2), "scenario": s,
                                "multi": r.get("exc"), "single": one.get("exc")})
                continue
            scs = [x for x in r["obs"]["scenarios"] if x["id"] == s]
            if not scs:
                bad.append({"what": "scenario missing from the result", "scenario": s, "have": [x["id"] for x in r["obs"]["scenarios"]], "project": projects.render(ap2)})
                continue
            a, b = scs[0], one["obs"]["scenarios"][0]
            if r["obs"]["end"] != one["obs"]["end"]:
                if si == 0:
                    # the first scenario's efforts determine the horizon in both runs: declaring further scenarios
                    # must not move the project end
                    bad.append({"what": "declaring additional scenarios changed the scheduling horizon of the first scenario",
                                "horizon_multi": r["obs"]["end"], "horizon_single": one["obs"]["end"], "project": projects.render(ap2)})
                else:
                    stats["horizon_differs(skipped)"] += 1  # the horizon is computed from the first scenario's efforts
                continue
            stats["compared"] += 1
            diff = {t: [[a["tasks"][t]["sched"], a["tasks"][t]["start"], a["tasks"][t]["end"]], [b["tasks"][t]["sched"], b["tasks"][t]["start"], b["tasks"][t]["end"]]]
                    for t in b["tasks"] if (a["tasks"][t]["sched"], a["tasks"][t]["start"] if a["tasks"][t]["sched"] else None, a["tasks"][t]["end"] if a["tasks"][t]["sched"] else None)
                    != (b["tasks"][t]["sched"], b["tasks"][t]["start"] if b["tasks"][t]["sched"] else None, b["tasks"][t]["end"] if b["tasks"][t]["sched"] else None)}
            led_a = {(r_, s_): sorted(map(tuple, e)) for r_, sl in a["ledger"].items() for s_, e in sl.items() if e}
            led_b = {(r_, s_): sorted(map(tuple, e)) for r_, sl in b["ledger"].items() for s_, e in sl.items() if e}
            if diff:
                bad.append({"what": "a scenario is not scheduled as if it were the only one (dates differ from the single-scenario project with its effective attribute values)",
                            "scenario": s, "scenario_parent": parent[s], "differences": dict(list(diff.items())[:4]),
                            "project": projects.render(ap2), "single_scenario_project": projects.render(single_ap)})
            elif led_a != led_b:
                bad.append({"what": "bookings of a scenario differ from the single-scenario run (carry-over between scenarios)", "scenario": s,
                            "project": projects.render(ap2)})
    violations, seen = [], set()
    for b in bad:
        if b["what"] in seen:
            continue
        seen.add(b["what"])
        violations.append({"replay": common.write_replay(ctx, {"property": "C16", "kind": "failing input on the implementation", "finding": b})})
        if len(violations) >= 3:
            break
    if not violations and failing:
        violations.append({"no_input": True, "replay": common.write_replay(ctx, {"property": "C16", "kind": "proof obligation no longer checks; no failing input found", "failing_obligations": failing})})
    cov = {"obligations": nob, "discharged": ndis, "checker_cmd": "tools/coqbuild.sh (coqc 8.16.1 full .vo build)", "trusted_base": common.TRUSTED, "files": files,
           "traces_validated_against_impl": stats["compared"], "input_distribution": dict(stats), "findings": len(bad),
           "rule": "projects with 2-5 scenarios in random nesting, scenario-specific effort/start overrides on random tasks (incl. starts on leaves below dated containers, and tasks that are dated milestones without work in the first scenario and have work in a later one) for random scenarios written in random order; every scenario of the multi-scenario run is compared (dates, scheduled flags and the complete usage ledger) with a single-scenario run of the project in which every attribute has the value written for that scenario, else for its nearest ancestor scenario, else the unprefixed value - these effective values are computed by the extracted Model/Scenario.v (eff), not by the harness",
           "samples": [{"project": projects.render(multi[0])[:900]}]}
    common.finish(ctx, "proof", cov, violations,
                  ["partial: that different scenarios use distinct ledger / counter objects is observed through the comparison of complete ledgers, not proved about Python object identity",
                   "unprefixed attributes are written before scenario-specific ones (an unprefixed attribute written later overwrites every scenario by design of the parser)"])
