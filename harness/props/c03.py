"""C03 - a scheduled task receives exactly its effort."""
import schedcheck

PROPS = ["Props/C03.v", "Props/C01.v", "Props/C06.v"]


def with_scenarios(ctx):
    """sub-slot and team projects with a second and third scenario (no scenario-specific values): every scenario has a
    ledger of its own and the oracle is applied to each"""
    import gens
    out = []
    for ap in gens.family(ctx, "subslot", ctx.n(50, 400)) + gens.family(ctx, "sdteam", ctx.n(20, 150)):
        ap["scenario_lines"] = [ctx.rng.choice(['scenario plan "plan" { scenario s1 "s1" }',
                                                'scenario plan "plan" { scenario s1 "s1" scenario s2 "s2" }'])]
        ap["_family"] = "scen" + ap["_family"]
        out.append(ap)
    return out


def run(ctx):
    schedcheck.run(ctx, "C03", PROPS,
                   [("subslot", 200, 2000), ("core", 60, 600), ("alap", 60, 500), ("alapcore", 60, 500), ("sd", 100, 1000), ("sdteam", 80, 800), ("limits", 40, 300), ("teamlimits", 80, 700), ("alapalt", 60, 500), ("taskalapalt", 40, 300)],
                   ["c03"],
                   ["a team is credited per slot with its most efficient member (the code's stated rule); equality is checked to the one-second rounding of reported times",
                    "the theorems cover the cell discipline (kept = min(need, booked), Props/C01) and the whole-slot frame (Props/C06); the efficiency arithmetic itself is checked on the implementation by the oracle"],
                   "corpus first; efforts in whole slots, fractions of a slot and primes of minutes, efficiencies 0.5-2.0, resolutions 5-60 min, teams (also of mixed efficiency) and alternatives, contention on shared slots, ASAP and ALAP (alternatives also in backward projects and on task-level ALAP tasks); projects with two and three scenarios: the oracle is applied to the ledger of every scenario",
                   extra_cases=with_scenarios, all_scenarios=True)
