"""C03 - a scheduled task receives exactly its effort."""
import schedcheck

PROPS = ["Props/C03.v", "Props/C01.v", "Props/C06.v"]


def with_scenarios(ctx):
    """sub-slot and team projects with a second and third scenario (efforts of their own for some scenarios, inherited by the scenarios nested in them): every scenario has a
    ledger of its own and the oracle is applied to each"""
    import gens
    out = []
    for ap in gens.family(ctx, "subslot", ctx.n(50, 400)) + gens.family(ctx, "sdteam", ctx.n(20, 150)):
        line, par = ctx.rng.choice([('scenario plan "plan" { scenario s1 "s1" }', {"plan": None, "s1": "plan"}),
                                    ('scenario plan "plan" { scenario s1 "s1" scenario s2 "s2" }', {"plan": None, "s1": "plan", "s2": "plan"}),
                                    ('scenario plan "plan" { scenario s1 "s1" { scenario s2 "s2" { scenario s3 "s3" } } }',
                                     {"plan": None, "s1": "plan", "s2": "s1", "s3": "s2"})])
        ap["scenario_lines"] = [line]
        ap["scen_parent"] = par
        import projects
        for _, n in projects.walk(ap["tasks"]):
            # efforts of their own for inner and enclosing scenarios, written in any order (the others inherit them)
            if "kids" not in n and n.get("effort") and ctx.rng.random() < 0.4:
                for s_ in ctx.rng.sample([x for x in par if x != "plan"], ctx.rng.randint(1, min(2, len(par) - 1))):
                    n.setdefault("sc_attrs", []).append((s_, "effort", n["effort"] + ctx.rng.choice([30, 60, 90, 120])))
        ap["_family"] = "scen" + ap["_family"]
        out.append(ap)
    return out


def run(ctx):
    schedcheck.run(ctx, "C03", PROPS,
                   [("subslot", 200, 2000), ("core", 60, 600), ("alap", 60, 500), ("alapcore", 60, 500), ("sd", 100, 1000), ("sdteam", 80, 800), ("limits", 40, 300), ("teamlimits", 80, 700), ("alapalt", 60, 500), ("taskalapalt", 40, 300)],
                   ["c03"],
                   ["a team is credited per slot with its most efficient member (the code's stated rule); equality is checked to the one-second rounding of reported times",
                    "the theorems cover the cell discipline (kept = min(need, booked), Props/C01) and the whole-slot frame (Props/C06); the efficiency arithmetic itself is checked on the implementation by the oracle"],
                   "corpus first; efforts in whole slots, fractions of a slot and primes of minutes, efficiencies 0.5-2.0, resolutions 5-60 min, teams (also of mixed efficiency) and alternatives, contention on shared slots, ASAP and ALAP (alternatives also in backward projects and on task-level ALAP tasks); projects with two and three scenarios: the oracle is applied to the ledger of every scenario",
                   extra_cases=with_scenarios, all_scenarios=True)
