"""C12 - same input, same output - independent of history and process state."""
import json
from collections import Counter

import common
import gens
import projects

PROPS = ["Props/C12.v"]
REPORT = 'taskreport r1 "r1" { formats json columns id, start, end, cost, priority timeformat "%Y-%m-%d-%H:%M" }\n'
SCEN = ['scenario plan "Plan" { scenario alt "Alt" }', 'scenario base "Base" { scenario late "Late" { scenario later "Later" } scenario fast "Fast" }']
BAD = ['project p "P" 2025-01-06 +1w { }\ntask a "A" { effort 1h allocate nobody }\n', 'project p "P" 2025-01-06 +1w {\n', 'task x "X" { }\n',
       'project p "P" 2025-01-06 +1w { }\nresource r "R" {}\ntask a "A" { effort 2h allocate r depends b }\ntask b "B" { effort 2h allocate r depends a }\n']


def texts(ctx, n):
    out = []
    fams = ["core", "subslot", "limits", "deps", "alap", "hours", "alts", "priotrees", "trees", "grouphours"]
    for i in range(n):
        ap = gens.family(ctx, fams[i % len(fams)], 1)[0]
        if ctx.rng.random() < 0.4:
            ap["scenario_lines"] = [ctx.rng.choice(SCEN)]
            leaves = [n_ for _, n_ in projects.walk(ap["tasks"]) if "kids" not in n_ and n_.get("effort")]
            sid = "alt" if "alt" in ap["scenario_lines"][0] else ctx.rng.choice(["late", "fast", "later"])
            for n_ in leaves[:2]:
                n_.setdefault("sc_attrs", []).append((sid, "effort", n_["effort"] * 2))
        for _, n_ in projects.walk(ap["resources"]):
            if "kids" not in n_ and ctx.rng.random() < 0.5:
                n_["rate"] = 100.0
        out.append(projects.render(ap, extra_tail=REPORT))
    return out


def run(ctx):
    nob, ndis, failing, files = common.obligations(ctx, PROPS)
    n = ctx.n(90, 600)
    tx = texts(ctx, n)
    fresh = common.run_workers(ctx, "w_hist", [{"text": t} for t in tx], hashseed="0")
    cases, kinds = [], []
    for i, t in enumerate(tx):
        hist = []
        for _ in range(ctx.rng.randint(1, 4)):
            k = ctx.rng.random()
            if k < 0.25:
                hist.append({"text": ctx.rng.choice(BAD)})
            else:
                hist.append({"text": ctx.rng.choice(tx), "report": ctx.rng.random() < 0.5, "reschedule": ctx.rng.random() < 0.3, "manual": ctx.rng.random() < 0.2})
        if ctx.rng.random() < 0.4:
            # the call right before the target is one that ends in an explicit schedule() (a second one, or the only one)
            hist[-1] = {"text": ctx.rng.choice(tx), "reschedule": ctx.rng.random() < 0.5}
            hist[-1]["manual"] = not hist[-1]["reschedule"]
        mode = ctx.rng.choice(["history", "history+reuse", "repeat", "reschedule"])
        c = {"text": t}
        if mode.startswith("history"):
            c["history"] = hist
            c["reuse_parser"] = mode.endswith("reuse")
        elif mode == "repeat":
            c["history"] = [{"text": t, "report": True}]
        else:
            c["reschedule"] = True
        cases.append(c)
        kinds.append(mode)
    hist_res = common.run_workers(ctx, "w_hist", cases, hashseed="0")
    seeds = [str(ctx.rng.randint(1, 4000000000)) for _ in range(2)]
    seeded = [common.run_workers(ctx, "w_hist", [{"text": t} for t in tx], hashseed=s, nproc=5) for s in seeds]
    # the process time zone (TZ) is hidden state too: the same texts in workers that run under other local zones
    zones = ["Asia/Tokyo", ctx.rng.choice(["America/Sao_Paulo", "Pacific/Auckland", "America/New_York"])]
    zoned = [common.run_workers(ctx, "w_hist", [{"text": t} for t in tx], hashseed="0", nproc=5, extra_env={"TZ": z}) for z in zones]
    bad, stats = [], Counter()

    def same(a, b):
        return json.dumps(a, sort_keys=True) == json.dumps(b, sort_keys=True)
    # the programmatic command-line interface (run_scriptplan) alone and after other runs in the same interpreter,
    # incl. runs that the library ends with a fatal error (report without a file name / illegal character in it)
    FATAL = ['project p "P" 2025-01-06 +1w { }\nresource r "R" {}\ntask a "A" { effort 2h allocate r }\ntaskreport x "week 1: plan?" { formats json columns id }\n',
             'project p "P" 2025-01-06 +1w { }\nresource r "R" {}\ntask a "A" { effort 2h allocate r }\ntaskreport { formats csv columns id }\n']
    ctx_tx = tx[: ctx.n(24, 120)]
    cli_fresh = common.run_workers(ctx, "w_hist", [{"text": t, "cli": True} for t in ctx_tx], hashseed="0")
    cli_cases = []
    for t in ctx_tx:
        hist = [{"text": ctx.rng.choice(FATAL + BAD + ctx_tx)} for _ in range(ctx.rng.randint(1, 3))]
        if ctx.rng.random() < 0.6:
            hist.insert(ctx.rng.randrange(len(hist) + 1), {"text": ctx.rng.choice(FATAL)})
        cli_cases.append({"text": t, "cli": True, "history": hist})
    cli_hist = common.run_workers(ctx, "w_hist", cli_cases, hashseed="0")
    for t, c, f, h in zip(ctx_tx, cli_cases, cli_fresh, cli_hist):
        if "worker_error" in f or "worker_error" in h:
            stats["worker_error"] += 1
            continue
        stats["mode:cli-history"] += 1
        if not same(f.get("obs"), h.get("obs")):
            bad.append({"what": "the result of run_scriptplan (status, files written) depends on what was run before it in the same interpreter",
                        "text": t, "history": [x["text"] for x in c["history"]], "history_status": h.get("history"),
                        "fresh": f.get("obs"), "after_history": h.get("obs")})
    # ... and with ONE output directory for all runs: a file that an earlier run left there under the same name is
    # replaced, not written over
    valid = [t for t, f in zip(ctx_tx, cli_fresh) if (f.get("obs") or {}).get("cli", {}).get("ok")]
    sh_cases = []
    for t in ctx_tx:
        hist = [{"text": ctx.rng.choice(valid or ctx_tx)} for _ in range(ctx.rng.randint(1, 3))]
        sh_cases.append({"text": t, "cli": True, "history": hist, "shared_out": True})
    sh_res = common.run_workers(ctx, "w_hist", sh_cases, hashseed="0")
    for t, c, f, h in zip(ctx_tx, sh_cases, cli_fresh, sh_res):
        if "worker_error" in f or "worker_error" in h:
            stats["worker_error"] += 1
            continue
        stats["mode:cli-shared-output-directory"] += 1
        fo, ho = (f.get("obs") or {}).get("cli", {}), (h.get("obs") or {}).get("cli", {})
        mine = {x[0] for x in fo.get("files", [])}
        if fo.get("ok") != ho.get("ok") or fo.get("raised") != ho.get("raised") or \
                sorted(map(tuple, fo.get("files", []))) != sorted(tuple(x) for x in ho.get("files", []) if x[0] in mine):
            bad.append({"what": "the files run_scriptplan writes differ when earlier runs wrote into the same output directory",
                        "text": t, "history": [x["text"] for x in c["history"]], "fresh": fo, "after_history_same_directory": ho})
    for i, t in enumerate(tx):
        f = fresh[i]
        if "worker_error" in f:
            stats["worker_error"] += 1
            continue
        stats["mode:" + kinds[i]] += 1
        h = hist_res[i]
        if f.get("ok") != h.get("ok") or (f.get("ok") and not same(f["obs"], h["obs"])):
            bad.append({"what": "the result of a project depends on what was processed before it in the same interpreter",
                        "mode": kinds[i], "text": t, "history": [x["text"] for x in cases[i].get("history", [])],
                        "fresh": summary(f), "after_history": summary(h), "reuse_parser": cases[i].get("reuse_parser", False)})
        if h.get("ok") and "obs_again" in h and not same(h["obs"], h["obs_again"]):
            bad.append({"what": "calling schedule() again on a scheduled project changed the result", "text": t,
                        "first": summary({"obs": h["obs"]}), "second": summary({"obs": h["obs_again"]})})
        for z, zr in zip(zones, zoned):
            g = zr[i]
            if f.get("ok") != g.get("ok") or (f.get("ok") and not same(f["obs"], g["obs"])):
                bad.append({"what": "the result depends on the time zone of the process (TZ)", "TZ": z, "text": t,
                            "utc": summary(f), "other": summary(g)})
        for s, sr in zip(seeds, seeded):
            g = sr[i]
            if f.get("ok") != g.get("ok") or (f.get("ok") and not same(f["obs"], g["obs"])):
                bad.append({"what": "the result depends on PYTHONHASHSEED / the worker process", "hashseed": s, "text": t,
                            "seed0": summary(f), "other": summary(g)})
    violations, seen = [], set()
    for b in bad:
        if b["what"] in seen:
            continue
        seen.add(b["what"])
        violations.append({"replay": common.write_replay(ctx, {"property": "C12", "kind": "failing history on the implementation", "finding": b})})
    if not violations and failing:
        violations.append({"no_input": True, "replay": common.write_replay(ctx, {"property": "C12", "kind": "proof obligation no longer checks; no failing input found", "failing_obligations": failing})})
    cov = {"obligations": nob, "discharged": ndis, "checker_cmd": "tools/coqbuild.sh (coqc 8.16.1 full .vo build)", "trusted_base": common.TRUSTED, "files": files,
           "traces_validated_against_impl": len(tx) * 4, "input_distribution": dict(stats), "hash_seeds": ["0"] + seeds,
           "rule": "each project text (10 generator families incl. containers and groups that pass allocations, priorities, limits and calendars on to their members, allocations with two or three alternatives on resources of differing availability, 40% with nested scenarios and scenario-specific efforts, a cost report attached) is processed (a) alone in a fresh process, (b) after a random history of 1-4 other parse/schedule/report calls incl. failing ones, second schedule() calls and projects parsed without scheduling and scheduled by an explicit call, with a fresh parser object per call or ONE parser object reused, (c) twice, (d) followed by a second schedule(), (e) under two further PYTHONHASHSEED values and under two other process time zones (TZ), (f) through run_scriptplan (the interface 'plan report' uses) alone and after 1-4 other such runs incl. runs the library ends with a fatal error, each run with an output directory of its own and all runs into one directory; dates of all scenarios, the ledger and the report tables are compared",
           "samples": [{"mode": kinds[0], "text": tx[0][:700]}]}
    common.finish(ctx, "proof", cov, violations,
                  ["partial: hash-seed and interpreter-level nondeterminism are outside the model and are covered by the runs only",
                   "texts using wall-clock macros (${now}, ${today}) are excluded by definition"])


def summary(r):
    if not r.get("ok", True) and "obs" not in r:
        return {"exc": r.get("exc"), "msg": r.get("msg")}
    o = r["obs"]
    return {"scenarios": o["scenarios"], "tasks": dict(list(o["tasks"].items())[:5]), "reports": str(o["reports"])[:300]}
