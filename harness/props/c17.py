"""C17 - slot/time conversion and interval scanning obey their algebra."""
import json
from collections import Counter
import common
import leaf

PROPS = ["Props/C17.v"]


def oracle(cases, impl):
    """the property itself, evaluated on the implementation's answers (both twins)"""
    bad = []
    by_win = {}
    for c, r in zip(cases, impl):
        if "w" in c:
            by_win.setdefault(c["w"], []).append((c, r))
    for (s, e, g, size), items in by_win.items():
        for side in ("py", "cy"):
            i2d, d2i = {}, {}
            for c, r in items:
                if side not in r:
                    continue
                if c["f"] == "size" and side == "py":
                    n = int(r["py"])
                    if not (s + (n - 1) * g >= e and s + (n - 2) * g < e):
                        bad.append({"what": "slot table does not cover [start,end] tightly", "case": c, "got": r})
                if c["f"] == "i2d":
                    i2d[(c["a"][4], c["a"][5])] = r[side]
                if c["f"] == "d2i":
                    d2i[(c["a"][4], c["a"][5])] = r[side]
            prev = None
            for i in range(0, size):
                v = i2d.get((i, 0))
                if v is None:
                    continue
                if v.startswith("RAISE"):
                    bad.append({"what": f"index {i} inside the table rejected ({side})", "window": [s, e, g, size]})
                    continue
                t = int(v)
                if prev is not None and not prev < t:
                    bad.append({"what": f"index->time not strictly increasing at {i} ({side})", "window": [s, e, g, size]})
                prev = t
                for fl in (0, 1):
                    back = d2i.get((t, fl))
                    if back is not None and back != str(i):
                        bad.append({"what": f"index(time({i})) = {back} ({side}, force={fl})", "window": [s, e, g, size]})
            for i in (-2, -1, size, size + 1):
                v = i2d.get((i, 0))
                if v is not None and not v.startswith("RAISE"):
                    bad.append({"what": f"index {i} outside the table accepted without clamping ({side})", "window": [s, e, g, size]})
                v = i2d.get((i, 1))
                if v is not None and v != str(s if i < 0 else e):
                    bad.append({"what": f"clamping of index {i} gave {v} ({side})", "window": [s, e, g, size]})
            for (t, fl), v in d2i.items():
                if s <= t <= e:
                    if v.startswith("RAISE"):
                        bad.append({"what": f"instant {t} of the window rejected ({side})", "window": [s, e, g, size]})
                        continue
                    i = int(v)
                    if not (0 <= i < size and s + i * g <= t < s + (i + 1) * g):
                        bad.append({"what": f"time->index({t}) = {i} is not the floor-inverse ({side})", "window": [s, e, g, size]})
    for c, r in zip(cases, impl):
        if c["f"] == "collect":
            bits, sI, eI, m, size = c["c"]
            s, g = c["a"][0], c["a"][2]
            exp = " ".join(f"{s + a * g}:{s + b * g}" for a, b in leaf.ref_collect(bits, sI, eI, m, size))
            for side in ("py", "cy"):
                if side in r and r[side].strip() != exp:
                    bad.append({"what": f"interval scan differs from the maximal runs of length >= {m} clipped to the window ({side})",
                                "table": bits, "window_idx": [sI, eI], "min_slots": m, "expected": exp, "got": r[side]})
        if c["f"] in ("pi2d", "pd2i") and "py" in r:
            s, g, x = c["a"]
            for side in ("py", "cy"):
                if side not in r:
                    continue
                if c["f"] == "pi2d" and r[side] != str(s + x * g):
                    bad.append({"what": f"project index->time({x}) = {r[side]} ({side})", "start": s, "gran": g})
                if c["f"] == "pd2i" and x >= s and not (s + int(r[side]) * g <= x < s + (int(r[side]) + 1) * g):
                    bad.append({"what": f"project time->index({x}) = {r[side]} is not the floor-inverse ({side})", "start": s, "gran": g})
    return bad


def run(ctx):
    nob, ndis, failing, files = common.obligations(ctx, PROPS)
    cases = leaf.cases_index(ctx, [1, 2, 5, 24] if ctx.quick() else [1, 2, 3, 5, 8, 24, 49])
    cases += leaf.cases_collect(ctx, 7 if ctx.quick() else 11)
    impl, model, dis = leaf.compare(ctx, cases)
    bad = oracle(cases, impl)
    violations = []
    if bad:
        violations.append({"replay": common.write_replay(ctx, {"property": "C17", "kind": "failing input on the implementation",
                                                                "failing": bad[:5], "count": len(bad)})})
    elif failing or dis:
        violations.append({"no_input": True, "replay": common.write_replay(ctx, {
            "property": "C17", "kind": "proof obligation or correspondence no longer checks; no failing input found by the search",
            "failing_obligations": failing, "model_vs_implementation_disagreements": dis[:5], "count": len(dis)})})
    dist = Counter(c["f"] for c in cases)
    cov = {"obligations": nob, "discharged": ndis, "checker_cmd": "tools/coqbuild.sh (coq_makefile; coqc 8.16.1, full .vo build) after translate/py2v.py /repo -> coq/Gen",
           "trusted_base": common.TRUSTED, "files": files,
           "traces_validated_against_impl": len(cases), "disagreements": len(dis), "input_distribution": dict(dist),
           "exhaustive": True,
           "rule": "every index -2..size+1 and every slot boundary +-1 s of windows of 1..49 slots x resolutions 60..3600 s x 4 start offsets x 4 base dates, plus windows of 1, 3 and 10 years at indices around 2^24, 2^26 and 2^28 seconds; every predicate pattern up to length 7 (quick) / 11 (thorough) x 4 windows x 4 minimum durations, plus random longer tables; each case run on the pure-Python twin, the rebuilt Cython twin and the extracted regenerated Gallina function",
           "samples": [{"case": c["f"], "args": c["a"][:12], "impl": i, "model": m} for c, i, m in list(zip(cases, impl, model))[:: max(1, len(cases) // 6)][:6]]}
    common.finish(ctx, "proof", cov, violations,
                  ["instants in (start - resolution, start) truncate toward zero to index 0 (int() is not floor); the property speaks about instants of the window only",
                   "C ints of the Cython twins do not wrap (horizons below 68 years)"])
