"""C19 - the plan CLI honours its output contract."""
import csv
import io
import json
from collections import Counter
from datetime import datetime, timedelta

import cli
import common
import gens
import projects

PROPS = ["Props/C19.v"]
E = datetime(1970, 1, 1)


def own_reports(rng):
    k = rng.randint(0, 3)
    if k == 0:
        return ""
    out = ""
    names = rng.sample(["aaa", "zzz", "plan_auto_0", "Report One", "my.rep", "reports/overview", "out/deep/er"], k)
    for i, nm in enumerate(names):
        fm = rng.choice(["json", "csv", "json, csv"])
        out += f'taskreport own{i} "{nm}" {{ formats {fm} columns name, id, priority }}\n'
    return out


AUTO, AUTO_DOC = 9, 12


def model_plan(chan, inp, fmt, engine_ok=True, own=()):
    """the decision function of Model/Cli.v (extracted): exit status, what stdout carries, whether a diagnostic
    is due.  chan: file | stdin; inp: missing | notafile | empty | content; own: [(name code, 'json'|'csv')]"""
    files = []
    for i, (nm, fm) in enumerate(own):
        files += [nm, 0 if fm == "json" else 1, 100 + i]
    files += [AUTO, 0, AUTO_DOC, AUTO, 1, AUTO_DOC]
    eng = [1, len(own) + 2] + files if engine_ok else [0]
    line = ["plan", 0 if chan == "file" else 1, {"missing": 0, "notafile": 1, "empty": 2, "content": 3}[inp], 0 if fmt == "json" else 1, AUTO] + eng
    ex, out, diag = common.run_driver("miscdriver", [" ".join(map(str, line))])[0].split()
    return int(ex), out, diag == "1"


def own_list(tail):
    """(name code, format) of every file the own reports of a project produce"""
    import re
    out = []
    for i, m in enumerate(re.finditer(r'taskreport own\d+ "[^"]*" \{ formats ([a-z, ]+) columns', tail)):
        for fm in m.group(1).split(","):
            out.append((20 + i, fm.strip()))
    return out


def expected(ap, obs, fmt):
    sc = obs["scenarios"][0]
    rows = []
    for p, n in projects.task_index(ap).items():
        st = sc["tasks"][projects.fid(p)]
        f = lambda v: (E + timedelta(seconds=v)).strftime("%Y-%m-%d-%H:%M") if (st["sched"] and v is not None) else ""
        rows.append([projects.fid(p), f(st["start"]), f(st["end"])])
    return rows


def run(ctx):
    nob, ndis, failing, files = common.obligations(ctx, PROPS)
    aps = []
    for fam, nq, nt in (("core", 10, 60), ("subslot", 8, 40), ("trees", 8, 40), ("alap", 4, 30), ("yearend", 6, 40)):
        aps += gens.family(ctx, fam, ctx.n(nq, nt))
    # one task per working day across a year end: dates whose ISO week-year differs from the calendar year
    for k, st in enumerate((1734912000, 1797811200)):          # 2024-12-23, 2026-12-21
        aps.append({"start": st, "dur": ("w", 4), "G": 3600, "tz": "Etc/UTC", "vac": [], "gleaves": [], "shifts": {},
                    "resources": [{"id": "r0", "eff": "1.0", "leaves": []}],
                    "tasks": [dict({"id": f"d{j}", "effort": 480, "alloc": ["r0"]}, **({"deps": [{"to": [f"d{j - 1}"], "style": "abs"}]} if j else {}))
                              for j in range(10)],
                    "_family": "isoyear", "_i": k})
    api = projects.schedule_all(ctx, aps, ledger=False)
    bad, stats = [], Counter()
    box = cli.Box(ctx)
    try:
        for ap, ref in zip(aps, api):
            if not ref.get("ok"):
                continue
            tail = own_reports(ctx.rng)
            text = projects.render(ap, extra_tail=tail)
            if ctx.rng.random() < 0.25:
                text = text.replace("\n", "\r\n")
            data = text.encode()
            fn = ctx.rng.choice(["p.tjp", "project with space.tjp", "noext", "x.txt"])
            box.put(fn, data)
            outs = {}
            for fmt in ("json", "csv"):
                for chan in ("file", "stdin", "stdin-"):
                    args = ["--quiet", "report"] if ctx.rng.random() < 0.5 else ["report"]
                    if fmt == "csv":
                        args.append("--csv")
                    if chan == "file":
                        r = box.run(args + [fn])
                    elif chan == "stdin":
                        r = box.run(args, stdin=data)
                    else:
                        r = box.run(args + ["-"], stdin=data)
                    stats[f"{fmt}/{chan}"] += 1
                    outs[(fmt, chan)] = r
                    where = {"format": fmt, "channel": chan, "own_reports": tail, "text": text}
                    m_exit, m_out, m_diag = model_plan("file" if chan == "file" else "stdin", "content", fmt, True, own_list(tail))
                    if r["rc"] != m_exit:
                        bad.append({"what": "a valid project did not exit 0", "rc": r["rc"], "model_exit": m_exit, "stderr": r["err"].decode(errors="replace")[-300:], **where})
                        continue
                    if m_out != ("S%d" % AUTO_DOC if fmt == "json" else str(AUTO_DOC)):
                        bad.append({"what": "Model/Cli.v does not select the auto report for stdout (model/harness mismatch)", "model_stdout": m_out, **where})
                        continue
                    want = expected(ap, ref["obs"], fmt)
                    if fmt == "json":
                        try:
                            js = json.loads(r["out"])
                        except Exception as ex:
                            bad.append({"what": "stdout is not well-formed JSON (something besides the report was written to stdout)", "stdout": r["out"].decode(errors="replace")[:300], **where})
                            continue
                        if js.get("report_id") != cli.sha(data):
                            bad.append({"what": "report_id is not the SHA-256 of the input bytes", "report_id": js.get("report_id"), "sha256": cli.sha(data), **where})
                        if js.get("columns") != ["id", "start", "end"] or [[d.get("id"), d.get("start"), d.get("end")] for d in js.get("data", [])] != want:
                            bad.append({"what": "the emitted report is not the id/start/end report of all tasks", "columns": js.get("columns"),
                                        "data": js.get("data", [])[:4], "expected": want[:4], **where})
                    else:
                        rows = list(csv.reader(io.StringIO(r["out"].decode())))
                        rows = [x for x in rows if x]
                        if [h.lower() for h in rows[0]] != ["id", "start", "end"] or rows[1:] != want:
                            bad.append({"what": "the emitted CSV report is not the id/start/end report of all tasks", "rows": rows[:4], "expected": want[:4], **where})
            for fmt in ("json", "csv"):
                a, b, c = outs[(fmt, "file")], outs[(fmt, "stdin")], outs[(fmt, "stdin-")]
                if a["rc"] == 0 and not (a["out"] == b["out"] == c["out"]):
                    bad.append({"what": "file and stdin input give different stdout bytes", "format": fmt, "text": text})
        # bad input classes
        box.put("empty.tjp", b"")
        box.put("syntax.tjp", b'project p "P" 2025-01-06 +1w {\n task a "A" { effort }\n')
        box.put("anon.tjp", b'project p "P" 2025-01-06 +1w { timezone "Etc/UTC" }\nresource r "R" {}\ntask a "A" { effort 2h allocate r }\ntaskreport { formats json columns id }\n')
        box.put("badname.tjp", b'project p "P" 2025-01-06 +1w { timezone "Etc/UTC" }\nresource r "R" {}\ntask a "A" { effort 2h allocate r }\ntaskreport q "what?" { formats csv columns id }\n')
        box.put("unsched.tjp", b'project p "P" 2025-01-06 +1w { timezone "Etc/UTC" }\nresource r "R" { leaves annual 2025-01-01 - 2026-01-01 }\ntask a "A" { effort 2h allocate r }\n')
        import os
        os.makedirs(box.cwd + "/adir.tjp", exist_ok=True)
        # the expected exit status / stdout / diagnostic of every input class is the extracted decision function's
        for args, stdin, cls, label in ((["report", "missing.tjp"], None, ("file", "missing", "json", True), "missing file"),
                                        (["report", "adir.tjp"], None, ("file", "notafile", "json", True), "directory"),
                                        (["report", "empty.tjp"], None, ("file", "empty", "json", True), "empty file"),
                                        (["report"], b"", ("stdin", "empty", "json", True), "empty stdin"),
                                        (["report", "-"], b"   \n", ("stdin", "empty", "json", True), "blank stdin"),
                                        (["report", "syntax.tjp"], None, ("file", "content", "json", False), "syntax error"),
                                        (["report", "--csv", "syntax.tjp"], None, ("file", "content", "csv", False), "syntax error csv"),
                                        (["report", "anon.tjp"], None, ("file", "content", "json", False), "report without a name (library sys.exit)"),
                                        (["report", "--csv", "badname.tjp"], None, ("file", "content", "csv", False), "invalid character in a report name (library sys.exit)"),
                                        (["report", "unsched.tjp"], None, ("file", "content", "json", True), "unschedulable task")):
            want_rc, m_out, m_diag = model_plan(*cls)
            r = box.run(args, stdin=stdin)
            stats["badinput:" + label] += 1
            if r["rc"] != want_rc:
                bad.append({"what": f"wrong exit status for input class '{label}'", "rc": r["rc"], "expected": want_rc, "stderr": r["err"].decode(errors="replace")[-300:]})
            if want_rc != 0 and r["out"].strip():
                bad.append({"what": f"something was written to stdout although the run failed ('{label}')", "stdout": r["out"].decode(errors="replace")[:200]})
            if want_rc != 0 and not r["err"].strip():
                bad.append({"what": f"no diagnostic on stderr for input class '{label}'"})
        # projects without any task (header only / resources only, also with an own task report): the id/start/end
        # report of all tasks is then the empty report - exit 0, data [], the three columns; CSV: the header line only
        import hashlib
        empties = {"empty1.tjp": b'project p "P" 2025-01-06 +1w { timezone "Etc/UTC" }\n',
                   "empty2.tjp": b'project p "P" 2025-01-06 +1w { timezone "Etc/UTC" }\nresource r "R" {}\nresource s "S" {}\n',
                   "empty3.tjp": b'project p "P" 2025-01-06 +1w { timezone "Etc/UTC" }\nresource r "R" {}\ntaskreport own "own" { formats json, csv columns id, name }\n'}
        for fn, data in empties.items():
            box.put(fn, data)
            for args, stdin in ((["--quiet", "report", fn], None), (["--quiet", "report", "--csv", fn], None), (["--quiet", "report"], data)):
                r = box.run(args, stdin=stdin)
                stats["notasks"] += 1
                if r["rc"] != 0:
                    bad.append({"what": "a project without tasks is not reported as the empty id/start/end report (exit status)", "rc": r["rc"], "args": args, "text": data.decode(),
                                "stderr": r["err"].decode(errors="replace")[-300:]})
                    continue
                if "--csv" in args:
                    rows = [x for x in csv.reader(io.StringIO(r["out"].decode(errors="replace"))) if x]
                    if len(rows) != 1 or [h.lower() for h in rows[0]] != ["id", "start", "end"]:
                        bad.append({"what": "a project without tasks is not reported as the empty id/start/end report (CSV)", "stdout": r["out"].decode(errors="replace")[:300], "text": data.decode()})
                else:
                    try:
                        js = json.loads(r["out"].decode())
                    except ValueError:
                        js = None
                    if not js or js.get("data") != [] or [c.lower() for c in js.get("columns", [])] != ["id", "start", "end"] or js.get("report_id") != hashlib.sha256(data).hexdigest():
                        bad.append({"what": "a project without tasks is not reported as the empty id/start/end report (JSON)", "stdout": r["out"].decode(errors="replace")[:300], "text": data.decode()})
    finally:
        box.close()
    violations, seen = [], set()
    for b in bad:
        if b["what"] in seen:
            continue
        seen.add(b["what"])
        violations.append({"replay": common.write_replay(ctx, {"property": "C19", "kind": "failing input on the implementation", "finding": b})})
        if len(violations) >= 3:
            break
    if not violations and failing:
        violations.append({"no_input": True, "replay": common.write_replay(ctx, {"property": "C19", "kind": "proof obligation no longer checks; no failing input found", "failing_obligations": failing})})
    cov = {"obligations": nob, "discharged": ndis, "checker_cmd": "tools/coqbuild.sh (coqc 8.16.1 full .vo build)", "trusted_base": common.TRUSTED, "files": files,
           "traces_validated_against_impl": sum(v for k, v in stats.items()), "input_distribution": dict(stats), "findings": len(bad),
           "rule": "the real entry point (scriptplan.cli.plan:main) as a subprocess with private cwd and TMPDIR: generated projects (incl. projects across a year end, where ISO week-year and calendar year differ) x {no, 1-3 own reports in json/csv/both with names sorting before and after the auto report} x {file, stdin, stdin '-'} x {json, csv} x LF/CRLF x file names with/without .tjp; stdout compared with the schedule obtained through the API; classes of bad input (missing, directory, empty file, empty/blank stdin, syntax error, report definitions the library ends with sys.exit, unschedulable task); projects without tasks (the empty report)",
           "samples": [{"args": ["report", "p.tjp"], "expect": "exit 0, JSON {data, columns=[id,start,end], report_id=sha256(input)}"}]}
    common.finish(ctx, "proof", cov, violations,
                  ["partial: click, the OS and exit-status delivery are runtime; the Coq model covers the decision table of report() only - the expected exit status, stdout selection and diagnostics of every run are taken from the extracted Model/Cli.v (plan_report)"])
