"""C07 - ASAP schedules equal the priority-ordered earliest-fit schedule (the extracted Coq list
scheduler is the independent reference implementation)."""
import gens
import schedcheck

PROPS = ["Props/C07.v"]


def run(ctx):
    def extra(ctx):
        return gens.small_universe(ctx, sample=ctx.n(500, None)) + gens.prio_family(ctx, ctx.n(150, 1500))

    schedcheck.run(ctx, "C07", PROPS,
                   [("core", 150, 1500), ("coredeps", 100, 1000), ("limits", 60, 600), ("trees", 60, 500), ("hours", 60, 500)],
                   [],
                   ["the reference is Model/Sched.v extracted to OCaml; calendars are recomputed by the harness from the abstract project; the horizon (project end after the scheduler's extension) is an input taken from the run",
                    "core dialect: slot-aligned calendars, efforts that are whole slots at the resource's efficiency, gaps that are whole slots"],
                   "corpus first; every project of the bounded universe (3 leaf tasks x 2 resources x efforts of 1-2 slots x every dependency subset x two priorities x optional daily limit x optional leave = 16384 projects; thorough: all, quick: a sample of 500) and random core-dialect projects with nesting, teams, limits on resources/groups/tasks, calendars and zones; all dates of all tasks and all (task, resource, slot) bookings compared",
                   extra_cases=extra, model_is_oracle=True)
