"""C14 - shifting the calendar by whole weeks shifts the schedule by the same amount."""
import copy
from collections import Counter

import common
import gens
import projects

PROPS = ["Props/C14.v"]
WEEK = 604800


def shift(ap, k):
    d = k * WEEK
    ap = copy.deepcopy(ap)
    ap["start"] += d
    ap["vac"] = [(a + d, None if b is None else b + d) for a, b in ap.get("vac", [])]
    ap["gleaves"] = [(a + d, None if b is None else b + d) for a, b in ap.get("gleaves", [])]
    for _, n in projects.walk(ap["resources"]):
        if n.get("leaves"):
            n["leaves"] = [(a + d, None if b is None else b + d, kind) for a, b, kind in n["leaves"]]
        if n.get("bookings"):
            n["bookings"] = [(a + d, mins, txt) for a, mins, txt in n["bookings"]]
    for _, n in projects.walk(ap["tasks"]):
        for key in ("start", "end"):
            if n.get(key) is not None:
                n[key] += d
    return ap


def run(ctx):
    nob, ndis, failing, files = common.obligations(ctx, PROPS)
    base = []
    for fam, nq, nt in (("core", 60, 600), ("limits", 120, 1200), ("hours", 60, 600), ("coredeps", 40, 400), ("subslot", 40, 400), ("alap", 30, 300), ("yearend", 60, 600), ("bookings", 120, 800)):
        base += gens.family(ctx, fam, ctx.n(nq, nt))
    # resolutions that divide neither a day nor a week (the slot grid begins at the project start, not at a clock phase)
    for ap in gens.family(ctx, "core", ctx.n(40, 300)):
        ap["G"] = ctx.rng.choice([3000, 1500, 660, 6000, 2100, 780])
        ap["_family"] = "oddres"
        base.append(ap)
    for ap in base:                      # UTC projects: the property is about UTC; a resource may still NAME its zone, as UTC
        for _, n in projects.walk(ap["resources"]):
            if n.pop("tz", None) is not None and ctx.rng.random() < 0.7:
                n["tz"] = ctx.rng.choice(["Etc/UTC", "UTC"])
    ks = [1, 2, 3, 4, 5, 9, 13, 26, 51, 52, 53, 60, 104, 157, 209, 261, 300]
    shifted, kk = [], []
    for ap in base:
        k = ctx.rng.choice(ks)
        kk.append(k)
        shifted.append(shift(ap, k))
    # the zone of the PROCESS is no part of a UTC project: both runs of a pair happen under the same one of three
    zones = [None, "Europe/Berlin", "America/New_York"]
    ra, rb = [None] * len(base), [None] * len(base)
    for zi, z in enumerate(zones):
        idx = [i for i in range(len(base)) if i % len(zones) == zi]
        env = {"TZ": z} if z else None
        for dst, src in ((ra, base), (rb, shifted)):
            for i, r in zip(idx, projects.schedule_all(ctx, [src[i] for i in idx], ledger=False, env=env)):
                dst[i] = r
    bad, stats = [], Counter()
    for i_, (ap, ap2, k, a, b) in enumerate(zip(base, shifted, kk, ra, rb)):
        stats["weeks:%d" % k] += 1
        stats["process_zone:%s" % zones[i_ % len(zones)]] += 1
        if not a.get("ok") or not b.get("ok"):
            if a.get("ok") != b.get("ok"):
                bad.append({"what": "one of the two runs failed", "weeks": k, "a": a.get("exc"), "b": b.get("exc"), "project": projects.render(ap)})
            continue
        d = k * WEEK
        ta, tb = a["obs"]["scenarios"][0]["tasks"], b["obs"]["scenarios"][0]["tasks"]
        diff = {}
        for t, x in ta.items():
            y = tb.get(t)
            ex = (x["sched"], None if x["start"] is None else x["start"] + d, None if x["end"] is None else x["end"] + d)
            got = (y["sched"], y["start"], y["end"]) if y else None
            if x["sched"] and ex != got or (not x["sched"] and y and y["sched"]):
                diff[t] = {"original": [x["sched"], x["start"], x["end"]], "shifted_minus_offset": None if not y else [y["sched"], None if y["start"] is None else y["start"] - d, None if y["end"] is None else y["end"] - d]}
        stats["compared"] += 1
        if diff:
            bad.append({"what": "shifting every date by whole weeks did not shift the schedule by the same amount", "weeks": k, "TZ_of_the_process": zones[i_ % len(zones)],
                        "differences": dict(list(diff.items())[:4]), "project": projects.render(ap), "shifted_project": projects.render(ap2)})
    # ---- the dates as REPORTED: 'plan report --csv' of the project as given and shifted (year-end projects first)
    import cli, csv, io, datetime
    from concurrent.futures import ThreadPoolExecutor
    pick = [i for i, ap in enumerate(base) if ap.get("_family") == "yearend"][: ctx.n(16, 120)] + \
           [i for i, ap in enumerate(base) if ap.get("_family") == "core"][: ctx.n(6, 40)]
    box = cli.Box(ctx)
    try:
        jobs = []
        for i in pick:
            box.put(f"a{i}.tjp", projects.render(base[i]))
            box.put(f"b{i}.tjp", projects.render(shifted[i]))
            jobs += [(i, "a", ["--quiet", "report", "--csv", f"a{i}.tjp"]), (i, "b", ["--quiet", "report", "--csv", f"b{i}.tjp"])]
        with ThreadPoolExecutor(max_workers=common.NPROC) as ex:
            outs = list(ex.map(lambda j: box.run(j[2]), jobs))

        def rows(r):
            if r["rc"] != 0:
                return None
            rr = [x for x in csv.reader(io.StringIO(r["out"].decode(errors="replace"))) if x]
            return {x[0]: (x[1], x[2]) for x in rr[1:] if len(x) >= 3}

        def plus(sv, d):
            if not sv:
                return sv
            return (datetime.datetime.strptime(sv, "%Y-%m-%d-%H:%M") + datetime.timedelta(seconds=d)).strftime("%Y-%m-%d-%H:%M")
        res = {(j[0], j[1]): rows(r) for j, r in zip(jobs, outs)}
        for i in pick:
            ra_, rb_ = res[(i, "a")], res[(i, "b")]
            if ra_ is None or rb_ is None:
                if (ra_ is None) != (rb_ is None):
                    bad.append({"what": "'plan report' succeeded for one of the two projects only", "weeks": kk[i], "project": projects.render(base[i])})
                continue
            stats["reports_compared"] += 1
            d = kk[i] * WEEK
            try:
                diff = {t: {"reported": v, "reported_shifted": rb_.get(t)} for t, v in ra_.items()
                        if rb_.get(t) != (plus(v[0], d), plus(v[1], d))}
            except ValueError as ex_:
                diff = {"?": {"unparsable date in the report": str(ex_)}}
            if diff:
                bad.append({"what": "the dates in the report ('plan report --csv') of the shifted project are not the reported dates plus the offset", "weeks": kk[i],
                            "differences": dict(list(diff.items())[:4]), "project": projects.render(base[i]), "shifted_project": projects.render(shifted[i])})
    finally:
        box.close()
    violations = []
    if bad:
        violations.append({"replay": common.write_replay(ctx, {"property": "C14", "kind": "failing input on the implementation", "finding": bad[0], "count": len(bad)})})
    elif failing:
        violations.append({"no_input": True, "replay": common.write_replay(ctx, {"property": "C14", "kind": "proof obligation no longer checks; no failing input found", "failing_obligations": failing})})
    cov = {"obligations": nob, "discharged": ndis, "checker_cmd": "tools/coqbuild.sh (coqc 8.16.1 full .vo build) after translate/py2v.py /repo -> coq/Gen", "trusted_base": common.TRUSTED, "files": files,
           "traces_validated_against_impl": stats["compared"], "input_distribution": dict(stats),
           "rule": "UTC projects (timing resolutions incl. 50, 25, 11, 100, 35 and 13 minutes, which divide neither a day nor a week; resources may name their zone as Etc/UTC; each pair runs in a process whose own zone is unset, Europe/Berlin or America/New_York; limits on resources/groups/tasks, own hours and shifts, leaves, vacations, holidays, pinned starts, ALAP deadlines; starts incl. year ends, 53-week years, Sundays, times of day) scheduled as given and with every date moved by k weeks (incl. leaves of one and two calendar months, whose end lands on another day of the month after some shifts), k in {1,2,3,4,5,9,13,26,51,52,53,60,104,157,209,261,300} (across leap days, year ends and 53-week ISO years); for the year-end projects also the dates printed by 'plan report --csv' of both",
           "samples": [{"weeks": kk[0], "project": projects.render(base[0])[:800]}]}
    common.finish(ctx, "proof", cov, violations,
                  ["project end given in days/weeks (month/year durations move the end by a non-week amount by definition)",
                   "the theorem covers the regenerated period index and the working-time test; the composition with the scheduler is by correspondence"])
