"""C15 - equivalent ways of writing a project give the same schedule."""
import copy
import os
import re
from collections import Counter

import common
import gens
import projects

PROPS = ["Props/C15.v"]


def rw_rename(rng, ap):
    """consistent renaming of task / resource / shift identifiers; new local task ids may coincide
    across different containers (siblings stay distinct)"""
    pool = ["a", "x", "b", "zz", "k9", "n", "m2", "t", "w0", "alpha", "q"]
    tmap, rmap, smap = {}, {}, {}
    def names(nodes, prefix):
        used = set()
        for n in nodes:
            new = rng.choice(pool) + str(rng.randint(0, 3))
            while new in used:
                new = rng.choice(pool) + str(rng.randint(0, 30))
            used.add(new)
            tmap[prefix + (n["id"],)] = new
            if "kids" in n:
                names(n["kids"], prefix + (n["id"],))
    names(ap["tasks"], ())
    used = set()
    for p, n in projects.walk(ap["resources"]):
        new = "res_" + rng.choice(pool) + str(len(used))
        used.add(new)
        rmap[n["id"]] = new
    for s in ap.get("shifts", {}):
        smap[s] = "sh_" + rng.choice(pool) + str(len(smap))
    ap2 = copy.deepcopy(ap)

    def rpath(path):
        return [tmap[tuple(path[:k + 1])] for k in range(len(path))]
    for p, n in list(projects.walk(ap2["tasks"])):
        pass
    # rewrite ids top-down, keeping the ORIGINAL path around for the mapping
    back = {}

    def rec(nodes, opath, npath):
        for n in nodes:
            o = opath + (n["id"],)
            newid = tmap[o]
            for key in ("deps", "precedes"):
                for d in n.get(key, []) or []:
                    d["to"] = rpath(d["to"])
            if n.get("alloc"):
                n["alloc"] = [rmap[x] for x in n["alloc"]]
            if n.get("alt"):
                n["alt"] = [rmap[x] for x in n["alt"]]
            if n.get("limit_res"):
                n["limit_res"] = [rmap[x] for x in n["limit_res"]]
            n["id"] = newid
            back[projects.fid(npath + (newid,))] = projects.fid(o)
            if "kids" in n:
                rec(n["kids"], o, npath + (newid,))
    rec(ap2["tasks"], (), ())
    for p, n in projects.walk(ap2["resources"]):
        n["id"] = rmap[n["id"]]
        if n.get("shift"):
            n["shift"] = smap[n["shift"]]
    ap2["shifts"] = {smap[k]: v for k, v in ap.get("shifts", {}).items()}
    rw_rename.last = ap2
    return projects.render(ap2), back


def rw_refstyle(rng, ap):
    ap2 = copy.deepcopy(ap)
    for _, n in projects.walk(ap2["tasks"]):
        for key in ("deps", "precedes"):
            for d in n.get(key, []) or []:
                d["style"] = "abs" if d.get("style") == "rel" else "rel"
    return projects.render(ap2), None


OPTS = ("gap", "onstart", "onend", "maxgap", "gaplen")


def decorate(rng, ap):
    """give some dependencies options that the generators do not use (each alone and combined):
    maxgapduration, gaplength.  maxgapduration on leaf-to-leaf edges, also next to other own, inherited or inverted
    dependencies and dates of the successor (until repair F49 the handling of such an edge depended on its spelling:
    former known finding K03, whose fixed case is still run)"""
    edges = projects.all_edges(ap)
    idx = projects.task_index(ap)

    def sole(succ, pred):
        succ, pred = tuple(succ), tuple(pred)
        if succ not in idx or pred not in idx or "kids" in idx[succ] or "kids" in idx[pred]:
            return False
        return True
    for p, n in projects.walk(ap["tasks"]):
        for key in ("deps", "precedes"):
            for d in n.get(key, []) or []:
                k = rng.random()
                if k < 0.3:
                    if sole(p, d["to"]) if key == "deps" else sole(d["to"], p):
                        d["maxgap"] = rng.choice([60, 120, 480])
                elif k < 0.4 and not ap.get("alap"):
                    d["gaplen"] = rng.choice([60, 120, 240])
                    d.pop("gap", None)


def single_option_family(ctx, n):
    """a predecessor and a successor on different resources, the successor's resource busy at first with a
    higher-priority task or a blocking booking, and ONE option on the edge (each option alone): the option decides the
    dates, so a spelling that drops it shows"""
    rng = ctx.rng
    out = []
    for i in range(n):
        ap = {"start": MON_, "dur": ("w", 3), "G": 3600, "tz": "Etc/UTC", "vac": [], "gleaves": [], "shifts": {},
              "resources": [{"id": "r0", "eff": "1.0", "leaves": []}, {"id": "r1", "eff": "1.0", "leaves": []}], "tasks": [],
              "_family": "singleopt", "_i": i, "_always_precedes": True}
        opt = rng.choice(["maxgap", "maxgap", "gaplen", "gap", "onstart", "onend"])
        d = {"to": ["c", "a"] if i % 2 else ["a"], "style": rng.choice(["abs", "rel"])}
        if opt in ("maxgap", "gaplen", "gap"):
            d[opt] = rng.choice([60, 120, 180])
        else:
            d[opt] = True
        a = {"id": "a", "effort": rng.choice([120, 180, 240]), "alloc": ["r0"]}
        b = {"id": "b", "effort": rng.choice([120, 240]), "alloc": ["r1"]}
        blk = {"id": "blk", "effort": rng.choice([360, 480, 600]), "alloc": ["r1"], "prio": 900}
        if opt == "maxgap" or rng.random() < 0.3:
            # the successor's resource is blocked by a booking at first (what maxgapduration looks at)
            ap["resources"][1]["bookings"] = [(MON_ + 9 * 3600, 360, "6h")]
            blk["alloc"] = ["r0"]
            blk["prio"] = 100
        key = rng.choice(["deps", "precedes"])
        if key == "deps":
            b["deps"] = [d]
        else:
            d["to"] = ["c", "b"] if i % 2 else ["b"]
            a["precedes"] = [d]
        ap["tasks"] = [{"id": "c", "kids": [a, b]}, blk] if i % 2 else [a, b, blk]
        out.append(ap)
    return out


MON_ = projects.MON


def rw_precedes(rng, ap):
    """express 'b depends a {opts}' as 'a precedes b {opts}' and the other way round"""
    ap2 = copy.deepcopy(ap)
    idx = projects.task_index(ap2)
    moves = []
    always = bool(ap.get("_always_precedes"))
    for p, n in idx.items():
        for d in list(n.get("deps", []) or []):
            if always or rng.random() < 0.6:
                n["deps"].remove(d)
                moves.append((tuple(d["to"]), {"to": list(p), "style": d.get("style", "abs"), **{k: d[k] for k in OPTS if k in d}}, "precedes"))
        for d in list(n.get("precedes", []) or []):
            if always or rng.random() < 0.6:
                n["precedes"].remove(d)
                moves.append((tuple(d["to"]), {"to": list(p), "style": d.get("style", "abs"), **{k: d[k] for k in OPTS if k in d}}, "deps"))
    for src, d, key in moves:
        idx[src].setdefault(key, []).append(d)
    return projects.render(ap2), None


def rw_shift(rng, ap):
    ap2 = copy.deepcopy(ap)
    n_shift = 0
    for _, n in projects.walk(ap2["resources"]):
        if n.get("shift"):
            n["hours"] = copy.deepcopy(ap2["shifts"][n["shift"]])
            del n["shift"]
        elif n.get("hours") is not None:
            sid = f"xs{n_shift}"
            n_shift += 1
            ap2.setdefault("shifts", {})[sid] = n.pop("hours")
            n["shift"] = sid
    return projects.render(ap2), None


def rw_comments(rng, ap):
    text = projects.render(ap)
    out = []
    for ln in text.split("\n"):
        k = rng.random()
        if k < 0.2:
            out.append("# a comment with task x \"y\" { } and ${macro} and 'quotes'")
        elif k < 0.3:
            out.append("   ")
        ln2 = ("  " * rng.randint(0, 3)) + ln.strip() if rng.random() < 0.5 else ln
        if rng.random() < 0.25 and ln.strip() and '"' not in ln:
            ln2 += "   # trailing comment } {"
        elif rng.random() < 0.15 and ln.strip():
            ln2 += "  // cpp comment"
        elif rng.random() < 0.1 and ln.strip():
            ln2 += " /* c comment */"
        out.append(ln2)
    return "\n".join(out) + "\n", None


def rw_macro(rng, ap):
    text = projects.render(ap)
    lines = text.split("\n")
    cand = [i for i, ln in enumerate(lines) if re.match(r"^\s+(effort|priority) ", ln)]
    if not cand:
        return text, None
    macros = []
    attr = re.compile(r"^\s+(effort|priority|allocate|depends|precedes) ")
    used = set()
    for k, i in enumerate(rng.sample(cand, min(3, len(cand)))):
        if i in used or i + 1 in used:
            continue
        name = f"mac{k}"
        nxt = lines[i + 1] if i + 1 < len(lines) else ""
        if rng.random() < 0.6 and attr.match(nxt) and nxt.count("{") == nxt.count("}") and "]" not in nxt and "${" not in nxt:
            # a body of several lines, with a comment of any kind on the first one
            note = rng.choice(["  // set by the planning office", "  # set by the planning office", "  /* set by the planning office */", ""])
            macros.append(f"macro {name} [\n  {lines[i].strip()}{note}\n  {nxt.strip()}\n]")
            lines[i] = re.match(r"^\s+", lines[i]).group(0) + "${" + name + "}"
            lines[i + 1] = ""
            used |= {i, i + 1}
        else:
            macros.append(f"macro {name} [ {lines[i].strip()} ]")
            lines[i] = re.match(r"^\s+", lines[i]).group(0) + "${" + name + "}"
            used.add(i)
    return "\n".join(macros) + "\n" + "\n".join(lines), None


def model_edges(ap):
    """request lines for the extracted Model/Parse.v (one per written reference) and how to read the answers"""
    codes = {}

    def code(x):
        return codes.setdefault(x, len(codes) + 1)

    def enc(nodes):
        out = [len(nodes)]
        for n in nodes:
            out.append(code(n["id"]))
            out += enc(n.get("kids", []))
        return out
    forest = enc(ap["tasks"])
    pos = {}

    def index(nodes, path, ipath):
        for k, n in enumerate(nodes):
            pos[path + (n["id"],)] = ipath + [k]
            index(n.get("kids", []), path + (n["id"],), ipath + [k])
    index(ap["tasks"], (), [])
    inv = {tuple(v): k for k, v in pos.items()}
    lines, meta = [], []
    for p, n in projects.walk(ap["tasks"]):
        for key in ("deps", "precedes"):
            for d in n.get(key, []) or []:
                ref = projects.ref_string(p, tuple(d["to"]), d.get("style", "abs"))
                nb = len(ref) - len(ref.lstrip("!"))
                ids = [code(x) for x in ref.lstrip("!").split(".")]
                lines.append("resolve " + " ".join(map(str, forest + [len(pos[p])] + pos[p] + [nb, len(ids)] + ids)))
                meta.append((p, key, ref))
    return lines, meta, inv


def parse_correspondence(pairs):
    """Model/Parse.v (extracted) against _resolve_task_reference / _resolve_precedes: every written reference
    is resolved by the model to a position; the edge sets per dependent task must equal the implementation's"""
    bad, n = [], 0
    for ap, r in pairs:
        if not r.get("ok") or "deps" not in r["obs"]:
            continue
        lines, meta, inv = model_edges(ap)
        if not lines:
            continue
        outs = common.run_driver("miscdriver", lines)
        want = {}
        for (p, key, ref), o in zip(meta, outs):
            n += 1
            tgt = inv.get(tuple(int(x) for x in o.split("."))) if o not in ("-", ".") and not o.startswith("ERROR") else None
            if tgt is None:
                want.setdefault("?unresolved", set()).add((projects.fid(p), ref))
                continue
            a, b = (p, tgt) if key == "deps" else (tgt, p)
            want.setdefault(projects.fid(a), set()).add(projects.fid(b))
        want = {k: sorted(v) for k, v in want.items()}
        have = {k: v for k, v in r["obs"]["deps"].items() if v}
        if want != have:
            bad.append({"what": "resolved dependency targets differ between Model/Parse.v and the parser",
                        "model": {k: v for k, v in want.items() if have.get(k) != v}, "parser": {k: v for k, v in have.items() if want.get(k) != v},
                        "original": projects.render(ap)})
    return bad, n


REWRITES = {"rename": rw_rename, "refstyle": rw_refstyle, "precedes": rw_precedes, "shift": rw_shift, "comments": rw_comments, "macro": rw_macro}


def run(ctx):
    nob, ndis, failing, files = common.obligations(ctx, PROPS)
    base = []
    for fam, nq, nt in (("deps", 80, 800), ("coredeps", 60, 600), ("hours", 50, 500), ("core", 30, 300), ("alap", 30, 300), ("dupprec", 80, 600), ("grouphours", 40, 300), ("alapmany", 40, 300)):
        base += gens.family(ctx, fam, ctx.n(nq, nt))
    for ap in base[::2]:
        decorate(ctx.rng, ap)
    base += single_option_family(ctx, ctx.n(40, 300))
    texts, metas, renamed = [], [], []
    for ap in base:
        names = ctx.rng.sample(sorted(REWRITES), 3)
        if ap.get("_always_precedes") and "precedes" not in names:
            names[0] = "precedes"
        if ap.get("_family") == "alapmany" and "rename" not in names:
            names[0] = "rename"          # ids that are prefixes of one another (t1 / t10) are renamed apart
        for name in names:
            if name == "shift" and not any(n.get("shift") or n.get("hours") is not None for _, n in projects.walk(ap["resources"])):
                continue
            t, back = REWRITES[name](ctx.rng, ap)
            texts.append(t)
            metas.append((ap, name, back))
            renamed.append(rw_rename.last if name == "rename" else None)
    ra = projects.schedule_all(ctx, base, ledger=False)
    rb = common.run_workers(ctx, "w_sched", [{"text": t, "ledger": False, "timeout": 60} for t in texts])
    orig = {id(ap): r for ap, r in zip(base, ra)}
    bad, stats = [], Counter()
    pb, nrefs = parse_correspondence(list(zip(base, ra)) + [(a2, r) for a2, r in zip(renamed, rb) if a2 is not None])
    bad += pb
    stats["references_resolved_by_model_and_parser"] = nrefs
    for (ap, name, back), t, r in zip(metas, texts, rb):
        a = orig[id(ap)]
        stats["rewrite:" + name] += 1
        if a.get("ok") != r.get("ok"):
            bad.append({"what": f"rewrite '{name}': one spelling is accepted / scheduled and the other raises", "original": projects.render(ap), "rewritten": t,
                        "a": a.get("exc"), "b": [r.get("exc"), r.get("msg")]})
            continue
        if not a.get("ok"):
            continue
        ta = a["obs"]["scenarios"][0]["tasks"]
        tb = r["obs"]["scenarios"][0]["tasks"]
        if back:
            tb = {back.get(k, k): v for k, v in tb.items()}
        diff = {k: [[ta[k]["sched"], ta[k]["start"], ta[k]["end"]], None if k not in tb else [tb[k]["sched"], tb[k]["start"], tb[k]["end"]]]
                for k in ta if k not in tb or (ta[k]["sched"], ta[k]["start"], ta[k]["end"]) != (tb[k]["sched"], tb[k]["start"], tb[k]["end"])}
        if diff:
            bad.append({"what": f"rewrite '{name}' changed reported dates", "differences": dict(list(diff.items())[:4]),
                        "original": projects.render(ap), "rewritten": t})
    # K03 (former known finding, repaired by F49; the fixed case stays as a regression): one edge written as 'precedes { maxgapduration }' on the predecessor or as
    # 'depends { maxgapduration }' on the successor, next to competing constraints on the same successor
    known_lines = []
    here = os.path.dirname(os.path.abspath(__file__))
    kt = [open(os.path.join(here, x)).read() for x in ("c15_k03_a.tjp", "c15_k03_b.tjp")]
    kr = common.run_workers(ctx, "w_sched", [{"text": t, "ledger": False, "timeout": 60} for t in kt])
    if all(r.get("ok") for r in kr):
        da, db = (r["obs"]["scenarios"][0]["tasks"] for r in kr)
        if any((da[k]["sched"], da[k]["start"], da[k]["end"]) != (db[k]["sched"], db[k]["start"], db[k]["end"]) for k in da):
            k = common.match_known("C15", "K03 maxgapduration next to competing constraints depends on the spelling")
            if k:
                known_lines.append(f"KNOWN-FINDING: property=C15 {k['what']}")
            else:
                bad.append({"what": "rewrite 'precedes' changed reported dates (fixed case K03)", "original": kt[0], "rewritten": kt[1]})
    stats["K03_reproduced"] = len(known_lines)
    violations, seen = [], set()
    for b in bad:
        if b["what"] in seen:
            continue
        seen.add(b["what"])
        violations.append({"replay": common.write_replay(ctx, {"property": "C15", "kind": "failing input on the implementation", "finding": b})})
        if len(violations) >= 3:
            break
    if not violations and failing:
        violations.append({"no_input": True, "replay": common.write_replay(ctx, {"property": "C15", "kind": "proof obligation no longer checks; no failing input found", "failing_obligations": failing})})
    cov = {"obligations": nob, "discharged": ndis, "checker_cmd": "tools/coqbuild.sh (coqc 8.16.1 full .vo build)", "trusted_base": common.TRUSTED, "files": files,
           "traces_validated_against_impl": len(texts), "input_distribution": dict(stats), "findings": len(bad),
           "rule": "each generated project (nested trees, relative/absolute references, precedes, container dependencies, shifts, ALAP) is scheduled as written and under 3 of 6 meaning-preserving rewrites: consistent renaming of task/resource/shift ids (local task ids may then coincide across containers), relative <-> absolute references, depends <-> precedes on the other task (options kept: gapduration, gaplength, maxgapduration, onstart, each alone and combined), shift reference <-> inline hours (on resources and on resource groups whose members inherit them), comments/whitespace (#, //, /* */, inside-comment braces and quotes), attribute lines moved into macros (one line, or two lines with a #, // or /* */ comment after the first); all task dates compared (ids mapped back); every written reference (original and renamed projects, where local ids coincide across containers and with top-level ids) is resolved by the extracted Model/Parse.v and the per-task sets of resolved predecessors are compared with the parser's",
           "samples": [{"rewrite": metas[0][1], "text": texts[0][:900]}]}
    common.finish(ctx, "proof", cov, violations,
                  ["partial: the Lark grammar / lexer is not modelled; the theorems cover reference resolution under renaming and the precedes inversion; everything else is decided by the rewrite runs",
                   "maxgapduration is generated on leaf-to-leaf edges only"],
                  known_lines)
