"""C13 - compiled fast paths and pure-Python fallbacks are equivalent."""
from collections import Counter
import common
import leaf

PROPS = ["Props/C13.v"]


def run(ctx):
    nob, ndis, failing, files = common.obligations(ctx, PROPS)
    cases = leaf.cases_index(ctx, [1, 3, 24] if ctx.quick() else [1, 2, 3, 5, 8, 24, 49])
    cases += leaf.cases_collect(ctx, 6 if ctx.quick() else 10)
    cases += leaf.cases_hours(ctx)
    impl, model, dis = leaf.compare(ctx, cases)
    bad = []
    nocy = 0
    for c, r in zip(cases, impl):
        if "cy" not in r:
            if c["f"] not in ("size", "limidx"):
                nocy += 1
            continue
        if r.get("py") != r.get("cy"):
            bad.append({"what": "compiled and pure-Python implementations return different values",
                        "function": c["f"], "args": c["a"], "python": r.get("py"), "compiled": r.get("cy")})
    # the same grid on extensions compiled from the TRACKED generated C (a build on a fresh checkout reuses it)
    tracked = 0
    alt = common.prepare_impl_tracked_c(ctx)
    if alt:
        import copy
        ctx2 = copy.copy(ctx)
        ctx2.impl = alt
        for c, r in zip(cases, common.run_workers(ctx2, "w_leaf", [{"f": c["f"], "a": c["a"]} for c in cases])):
            if "cy" in r:
                tracked += 1
                if r.get("py") != r.get("cy"):
                    bad.append({"what": "an extension compiled from the tracked generated C sources (what setup.py builds on a fresh checkout, where the C is not older than the .pyx) and the pure-Python implementation return different values",
                                "function": c["f"], "args": c["a"], "python": r.get("py"), "compiled_from_tracked_c": r.get("cy")})
    whole = whole_projects(ctx)
    bad += whole["bad"]
    violations = []
    if nocy and not bad:
        failing = failing + [{"file": "scriptplan/_cython", "line": None, "error": f"compiled extensions could not be built/imported from the current .pyx sources ({nocy} cases without a compiled answer)", "theorems_in_file": 0}]
    if bad:
        violations.append({"replay": common.write_replay(ctx, {"property": "C13", "kind": "failing input on the implementation",
                                                                "failing": bad[:5], "count": len(bad)})})
    elif failing or dis:
        violations.append({"no_input": True, "replay": common.write_replay(ctx, {
            "property": "C13", "kind": "proof obligation or correspondence no longer checks; no failing input found by the search",
            "failing_obligations": failing, "model_vs_implementation_disagreements": dis[:5], "count": len(dis)})})
    dist = Counter(c["f"] for c in cases)
    cov = {"obligations": nob, "discharged": ndis - (nob - ndis if False else 0), "checker_cmd": "tools/coqbuild.sh (coqc 8.16.1 full .vo build) after translate/py2v.py /repo -> coq/Gen (both the .py and the .pyx side are regenerated)",
           "trusted_base": common.TRUSTED, "files": files, "traces_validated_against_impl": len(cases), "disagreements": len(dis),
           "input_distribution": dict(dist), "cases_also_run_on_extensions_built_from_tracked_c": tracked, "whole_projects_compared_with_extensions_blocked": whole["n"], "exhaustive": True,
           "rule": "bounded grid: every index/boundary instant of windows x resolutions; windows of 1, 3 and 10 years around 2^24 / 2^26 / 2^28 s; every predicate pattern up to length 6 (quick) / 10 (thorough); every 7th minute (quick) / every minute (thorough) of a week x interval sets incl. cross-midnight, unordered and empty days; each on both twins (the .so rebuilt from the current .pyx) and on the extracted regenerated Gallina function; whole projects scheduled with the extensions loaded and blocked",
           "samples": [{"case": c["f"], "args": c["a"][:14], "impl": i, "model": m} for c, i, m in list(zip(cases, impl, model))[:: max(1, len(cases) // 6)][:6]]}
    common.finish(ctx, "proof", cov, violations,
                  ["C ints of the compiled twins do not wrap: |index x resolution| < 2^31 s (horizons below 68 years), hour/minute components <= 1000",
                   "the .so under test is rebuilt from the working tree's .pyx with the installed Cython 3.3 / gcc"])


def whole_projects(ctx):
    try:
        import projects
    except ImportError:
        return {"n": 0, "bad": []}
    return projects.compare_cython_blocked(ctx)
