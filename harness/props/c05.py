"""C05 - daily and weekly limits are never exceeded."""
import schedcheck

PROPS = ["Props/C05.v"]


def with_scenarios(ctx):
    """limit projects with a second and third scenario (nested or siblings) and scenario-specific efforts: every
    scenario has limit counters of its own, and the oracle is applied to the ledger of each"""
    import gens
    import projects
    out = []
    for ap in gens.family(ctx, "limits", ctx.n(60, 500)) + gens.family(ctx, "teamlimits", ctx.n(20, 150)):
        ap["scenario_lines"] = [ctx.rng.choice(['scenario plan "plan" { scenario s1 "s1" }',
                                                'scenario plan "plan" { scenario s1 "s1" scenario s2 "s2" }',
                                                'scenario plan "plan" { scenario s1 "s1" { scenario s2 "s2" } }'])]
        for _, n in projects.walk(ap["tasks"]):
            if "kids" not in n and n.get("effort") and ctx.rng.random() < 0.4:
                n.setdefault("sc_attrs", []).append(("s1", "effort", n["effort"] * ctx.rng.choice([1, 2, 3])))
        ap["_family"] = "scenlimits"
        out.append(ap)
    return out


def run(ctx):
    schedcheck.run(ctx, "C05", PROPS,
                   [("limits", 200, 2000), ("sublimits", 120, 1200), ("teamlimits", 60, 500), ("core", 60, 600), ("coredeps", 30, 300), ("alapcore", 60, 600)],
                   ["c05"],
                   ["booked seconds are aggregated per calendar day / ISO week by the harness itself from the ledger",
                    "limit values are whole numbers of slots after int(hours / slot_hours), as the code computes them"],
                   "corpus first; dailymax / weeklymax on resources, resource groups, tasks and containers (optionally restricted to one resource), horizons that overrun the declared end, starts on Sundays, at year ends, in 53-week years and with a time of day, resolutions 15-60 min; limits reached by tasks that begin or end inside a slot after a predecessor on another resource; Gen/LimitsPy compared on the leaf grid; core projects compared with the extracted scheduler model; limit projects with two and three scenarios: the oracle is applied to the ledger of every scenario",
                   extra_cases=with_scenarios, all_scenarios=True)
