"""C05 - daily and weekly limits are never exceeded."""
import schedcheck

PROPS = ["Props/C05.v"]


def run(ctx):
    schedcheck.run(ctx, "C05", PROPS,
                   [("limits", 200, 2000), ("sublimits", 120, 1200), ("teamlimits", 60, 500), ("core", 60, 600), ("coredeps", 30, 300), ("alapcore", 60, 600)],
                   ["c05"],
                   ["booked seconds are aggregated per calendar day / ISO week by the harness itself from the ledger",
                    "limit values are whole numbers of slots after int(hours / slot_hours), as the code computes them"],
                   "corpus first; dailymax / weeklymax on resources, resource groups, tasks and containers (optionally restricted to one resource), horizons that overrun the declared end, starts on Sundays, at year ends, in 53-week years and with a time of day, resolutions 15-60 min; limits reached by tasks that begin or end inside a slot after a predecessor on another resource; Gen/LimitsPy compared on the leaf grid; core projects compared with the extracted scheduler model")
