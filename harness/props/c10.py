"""C10 - containers summarise their children and book nothing."""
import schedcheck

PROPS = ["Props/C10.v"]


def with_scenarios(ctx):
    """trees with a second and third scenario whose efforts differ: the children of a container then begin and end at
    other times than in the first scenario, and the container must follow them in every scenario"""
    import gens
    import projects
    out = []
    for ap in gens.family(ctx, "trees", ctx.n(60, 500)) + gens.family(ctx, "deps", ctx.n(20, 200)):
        ap["scenario_lines"] = [ctx.rng.choice(['scenario plan "plan" { scenario s1 "s1" }',
                                                'scenario plan "plan" { scenario s1 "s1" scenario s2 "s2" }'])]
        for _, n in projects.walk(ap["tasks"]):
            if "kids" not in n and n.get("effort") and ctx.rng.random() < 0.5:
                n.setdefault("sc_attrs", []).append(("s1", "effort", n["effort"] + ctx.rng.choice([120, 480, 960])))
        ap["_family"] = "scen" + ap["_family"]
        out.append(ap)
    return out


def run(ctx):
    schedcheck.run(ctx, "C10", PROPS,
                   [("trees", 200, 2000), ("mstrees", 80, 800), ("deps", 60, 600), ("coredeps", 60, 500), ("alap", 40, 300), ("alapcore", 60, 500), ("wintrees", 100, 800)],
                   ["c10", "c01"],
                   ["every scenario of the multi-scenario projects is checked; scenario independence itself is C16"],
                   "corpus first; random task trees of depth <= 4 with unschedulable leaves (resource on permanent leave), milestones with own dates, dated containers, containers with a start and an end of their own above unschedulable leaves, dependencies on containers; trees with two and three scenarios of differing efforts, every scenario checked",
                   extra_cases=with_scenarios, all_scenarios=True)
