"""C10 - containers summarise their children and book nothing."""
import schedcheck

PROPS = ["Props/C10.v"]


def run(ctx):
    schedcheck.run(ctx, "C10", PROPS,
                   [("trees", 200, 2000), ("mstrees", 80, 800), ("deps", 60, 600), ("coredeps", 60, 500), ("alap", 40, 300), ("alapcore", 60, 500), ("wintrees", 100, 800)],
                   ["c10", "c01"],
                   ["checked for scenario 0 here; other scenarios are covered by C16"],
                   "corpus first; random task trees of depth <= 4 with unschedulable leaves (resource on permanent leave), milestones with own dates, dated containers, containers with a start and an end of their own above unschedulable leaves, dependencies on containers")
