"""C09 - lower-priority work never disturbs higher-priority work."""
import copy
import json
from collections import Counter

import common
import gens
import projects

PROPS = ["Props/C09.v"]


def intruder(rng, ap):
    rids = [n["id"] for _, n in projects.walk(ap["resources"]) if "kids" not in n]
    leaves = [p for p, n in projects.walk(ap["tasks"]) if "kids" not in n]
    x = {"id": "zzx", "prio": 1, "effort": rng.choice([60, 120, 240, 480, 30, 90]), "alloc": [rng.choice(rids)]}
    if len(rids) > 1 and rng.random() < 0.2:
        x["alloc"] = rng.sample(rids, 2)
    if rng.random() < 0.3 and leaves and not ap.get("alap"):
        x["deps"] = [{"to": list(rng.choice(leaves)), "style": "abs"}]
    if rng.random() < 0.2 and not ap.get("alap"):
        x["start"] = ap["start"] + rng.randint(0, 5) * 86400 + rng.choice([9, 11, 14]) * 3600
    if rng.random() < 0.25 and leaves and not ap.get("alap") and not (ap["resources"] and "kids" in ap["resources"][0]):
        # a resource of its own that is away when the project begins (leave or a late shift); the intruder depends on
        # another task: whatever the scheduler estimates for the intruder must not move its predecessor
        day0 = ap["start"] - ap["start"] % 86400
        r = {"id": "rzz", "eff": "1.0", "leaves": [(day0, day0 + rng.randint(1, 3) * 86400, "annual")]}
        if rng.random() < 0.4:
            r = {"id": "rzz", "eff": "1.0", "leaves": [], "hours": [(d, [((15, 0), (19, 0))]) for d in range(1, 5)]}
        ap["resources"].append(r)
        x["alloc"] = ["rzz"]
        x["deps"] = [{"to": list(rng.choice(leaves)), "style": "abs"}]
        x.pop("start", None)
    return x


def run(ctx):
    nob, ndis, failing, files = common.obligations(ctx, PROPS)
    base = []
    for fam, nq, nt in (("core", 80, 800), ("subslot", 60, 600), ("coredeps", 40, 400), ("limits", 30, 300), ("hours", 20, 200), ("alap", 120, 1200), ("trees", 60, 500), ("priotrees", 60, 500)):
        base += gens.family(ctx, fam, ctx.n(nq, nt))
    base += gens.prio_family(ctx, ctx.n(150, 1500))
    # allocations with alternatives (the choice looks at the bookings made so far) in projects with a second scenario:
    # the intruder must be harmless in every scenario
    for ap in gens.family(ctx, "alts", ctx.n(60, 500)) + gens.family(ctx, "subslot", ctx.n(20, 200)):
        ap["scenario_lines"] = [ctx.rng.choice(['scenario plan "plan" { scenario s1 "s1" }', 'scenario plan "plan" { scenario s1 "s1" scenario s2 "s2" }',
                                                'scenario plan "plan" { scenario s1 "s1" { scenario s2 "s2" } }'])]
        if "{ scenario s2" in ap["scenario_lines"][0]:
            # nested scenarios: some tasks give s1 an effort of its own, which s2 inherits
            ap["_nested"] = True
            for _, n in projects.walk(ap["tasks"]):
                if "kids" not in n and n.get("effort") and ctx.rng.random() < 0.5:
                    n.setdefault("sc_attrs", []).append(("s1", "effort", n["effort"] + ctx.rng.choice([60, 120, 240])))
        ap["_family"] = "scen" + str(ap.get("_family"))
        base.append(ap)
    withx = []
    for ap in base:
        ap2 = copy.deepcopy(ap)
        for _, n in projects.walk(ap2["tasks"]):          # everything else has a higher priority
            if n.get("prio") is not None and n["prio"] <= 1:
                n["prio"] = 100
        x = intruder(ctx.rng, ap2)
        # strictly lowest BY THE PROJECT TEXT: often just one below the lowest effective priority (own or inherited
        # from the nearest enclosing container that declares one; default 500), not always far below everything
        tidx = projects.task_index(ap2)
        eff = []
        for p, n in tidx.items():
            if "kids" in n:
                continue
            pr = 500
            for k in range(len(p), 0, -1):
                if tidx[p[:k]].get("prio") is not None:
                    pr = tidx[p[:k]]["prio"]
                    break
            eff.append(pr)
        if eff and min(eff) > 2 and ctx.rng.random() < 0.7:
            x["prio"] = min(eff) - 1
        # ids need to be unique among siblings only: the intruder may carry the local id of a task nested somewhere
        nested_ids = sorted({p[-1] for p in tidx if len(p) > 1} - {p[0] for p in tidx})
        if nested_ids and ctx.rng.random() < 0.35:
            x["id"] = ctx.rng.choice(nested_ids)
        pos = ctx.rng.randint(0, len(ap2["tasks"]))
        if ap2.get("_nested") and x.get("effort"):
            # the intruder writes a value of its own for the innermost scenario and is declared first
            x.setdefault("sc_attrs", []).append(("s2", "effort", x["effort"] + 60))
            pos = 0
        ap2["tasks"].insert(pos, x)
        withx.append(ap2)
    ra = projects.schedule_all(ctx, base, ledger=False)
    rb = projects.schedule_all(ctx, withx, ledger=False)
    bad, stats = [], Counter()
    for ap, ap2, a, b in zip(base, withx, ra, rb):
        if not a.get("ok") or not b.get("ok"):
            stats["impl_error"] += 1
            continue
        if a["obs"]["end"] != b["obs"]["end"]:
            stats["horizon_changed(skipped)"] += 1
            continue
        ta, tb = a["obs"]["scenarios"][0]["tasks"], b["obs"]["scenarios"][0]["tasks"]
        stats["compared"] += 1
        xid = [n["id"] for n in ap2["tasks"] if n["id"] not in {m["id"] for m in ap["tasks"]}][0]
        stats["intruder_scheduled"] += 1 if tb.get(xid, {}).get("sched") else 0
        stats["intruder_named_like_a_nested_task"] += 1 if xid != "zzx" else 0
        diff = {}
        for si, (sa, sb) in enumerate(zip(a["obs"]["scenarios"], b["obs"]["scenarios"])):
            ta, tb = sa["tasks"], sb["tasks"]
            stats["scenarios_compared"] += 1
            for t in ta:
                if (ta[t]["sched"], ta[t]["start"], ta[t]["end"]) != (tb.get(t, {}).get("sched"), tb.get(t, {}).get("start"), tb.get(t, {}).get("end")):
                    diff[t if si == 0 else f"{t} (scenario {si})"] = (ta[t], tb.get(t))
        if diff:
            bad.append({"what": "adding a strictly lowest-priority task on which nothing depends changed the dates of other tasks",
                        "changed": {k: v for k, v in list(diff.items())[:4]}, "project_with_intruder": projects.render(ap2),
                        "abstract_project": ap2})
    violations = []
    if bad:
        violations.append({"replay": common.write_replay(ctx, {"property": "C09", "kind": "failing input on the implementation", "finding": bad[0], "count": len(bad)})})
    elif failing:
        violations.append({"no_input": True, "replay": common.write_replay(ctx, {"property": "C09", "kind": "proof obligation no longer checks; no failing input found", "failing_obligations": failing})})
    cov = {"obligations": nob, "discharged": ndis, "checker_cmd": "tools/coqbuild.sh (coqc 8.16.1 full .vo build)", "trusted_base": common.TRUSTED, "files": files,
           "traces_validated_against_impl": stats["compared"], "input_distribution": dict(stats),
           "rule": "random core / sub-slot / dependency / limit / calendar projects, each scheduled with and without a random intruder (strictly lowest priority - mostly one below the lowest priority that the text gives any other task, directly or by inheritance through up to four levels of containers -, any effort, resource or team, optional pinned start, optional dependency ON other tasks, sometimes on a resource of its own that is away when the project begins, inserted at a random declaration position, in a third of the cases carrying the local id of a task nested in some container); projects with alternatives and two or three scenarios are compared in every scenario; pairs whose horizon differs are skipped (property hypothesis)",
           "samples": [{"project_with_intruder": projects.render(withx[0])[:1200]}]}
    common.finish(ctx, "proof", cov, violations,
                  ["the theorem is stated for the whole-slot model with the intruder declared last; other declaration positions and sub-slot projects are covered by the two-run comparison on the implementation"])
