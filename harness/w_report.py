"""Worker: parse + schedule a project text that defines reports; render every report through the API
(to_json / to_csv) twice, generate the files, and return tables, file contents and the task
attributes before / after report generation."""
import contextlib
import csv
import io
import json
import os
import sys
import tempfile
import shutil
from datetime import datetime

E = datetime(1970, 1, 1)


def secs(d):
    return int((d - E).total_seconds()) if isinstance(d, datetime) else None


from scriptplan.parser.tjp_parser import ProjectFileParser  # noqa: E402
from scriptplan.report import ReportContext  # noqa: E402


def snapshot(p):
    out = {}
    nsc = len(list(p.scenarios))
    for t in p.tasks:
        out[t.fullId] = [[bool(t.get("scheduled", s)), secs(t.get("start", s)), secs(t.get("end", s))] for s in range(nsc)]
    leds = []
    for s in range(nsc):
        led = {}
        for r in p.resources:
            rs = r.data[s] if r.data else None
            if rs is not None:
                led[r.fullId] = {str(i): [[t.fullId, round(x, 6)] for t, x in l] for i, l in rs.slotTaskUsage.items()}
        leds.append(led)
    return out, leds


def run(case):
    err = io.StringIO()
    res = {}
    try:
        with contextlib.redirect_stderr(err):
            p = ProjectFileParser().parse(case["text"])
        before, led = snapshot(p)
        res["tasks"] = before
        res["ledger"] = led[0] if led else {}
        res["ledgers"] = led
        res["leaf"] = {t.fullId: bool(t.leaf()) for t in p.tasks}
        res["rates"] = {r.fullId: (r.get("rate", 0) or 0.0) for r in p.resources}
        reports = []
        outdir = tempfile.mkdtemp(prefix="vrep_")
        p.outputDir = outdir
        for rep in p.reports:
            item = {"id": rep.id, "name": rep.name}
            with contextlib.redirect_stderr(err):
                for k in range(2):
                    ctx = ReportContext(p, rep)
                    ctx.push()
                    rep.generate_intermediate_format()
                    item["json%d" % k] = rep.to_json()
                    item["csv%d" % k] = rep.to_csv()
                    ctx.pop()
                ctx = ReportContext(p, rep)
                ctx.push()
                try:
                    rep.generate()
                except Exception as ex:  # noqa
                    item["generate_exc"] = f"{type(ex).__name__}: {ex}"
                finally:
                    ctx.pop()
            files = {}
            for fn in sorted(os.listdir(outdir)):
                with open(os.path.join(outdir, fn), newline="") as f:
                    files[fn] = f.read()
                os.remove(os.path.join(outdir, fn))
            item["files"] = files
            reports.append(item)
        shutil.rmtree(outdir, ignore_errors=True)
        res["reports"] = reports
        after, led2 = snapshot(p)
        res["tasks_after"] = after
        res["ledger_same"] = (led == led2)
        res["ok"] = True
    except Exception as ex:  # noqa
        import traceback
        res["ok"] = False
        res["exc"] = type(ex).__name__
        res["msg"] = str(ex)[:300]
        res["tb"] = traceback.format_exc()[-500:]
    res["stderr"] = err.getvalue()[-300:]
    return res


import signal


class _Timeout(BaseException):
    pass


def _alarm(signum, frame):
    raise _Timeout()


signal.signal(signal.SIGALRM, _alarm)
for line in sys.stdin:
    line = line.strip()
    if not line:
        continue
    try:
        signal.alarm(120)
        out = run(json.loads(line))
    except _Timeout:
        out = {"ok": False, "exc": "Timeout", "msg": "case exceeded 120 s"}
    except BaseException as ex:  # noqa
        out = {"worker_error": f"{type(ex).__name__}: {ex}"}
    finally:
        signal.alarm(0)
    sys.stdout.write(json.dumps(out, default=str) + "\n")
    sys.stdout.flush()
