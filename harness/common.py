"""Shared machinery of the checks: scratch copy of the implementation, Coq build, workers,
evidence, known findings, violation reports."""
import atexit
import fcntl
import hashlib
import json
import os
import random
import re
import shutil
import subprocess
import sys
import tempfile
import time

VERIF = "/verif"
REPO = "/repo"
PY = "/venv/bin/python"
COQ = os.path.join(VERIF, "coq")
BUILD = os.path.join(VERIF, "build")
NPROC = int(os.environ.get("VERIF_JOBS", "12"))

FORBIDDEN = re.compile(
    r"\b(Admitted|admit|Axiom|Axioms|Parameter|Parameters|Conjecture|Hypothesis|Variable|Variables|"
    r"Unset\s+Guard\s+Checking|bypass_check|Admit\s+Obligations|Unset\s+Universe\s+Checking|"
    r"Unset\s+Positivity\s+Checking|type-in-type|impredicative-set)\b")


class Ctx:
    def __init__(self, prop, tier, seed):
        self.prop, self.tier, self.seed = prop, tier, seed
        self.t0 = time.time()
        self.rng = random.Random(seed * 1000003 + int(prop[1:]))
        base = os.environ.get("VERIF_SCRATCH") or tempfile.mkdtemp(prefix="verif.", dir="/var/tmp")
        self.scratch = base
        os.makedirs(base, exist_ok=True)
        atexit.register(lambda: shutil.rmtree(base, ignore_errors=True))
        self.impl = None
        self.notes = []

    def quick(self):
        return self.tier == "quick"

    def n(self, quick, thorough):
        return quick if self.quick() else thorough


# ----------------------------------------------------------------------------- implementation tree
def _tree_files(root, exts):
    out = []
    for d, dirs, files in os.walk(root):
        dirs[:] = [x for x in dirs if x not in (".git", "__pycache__", "build", ".pytest_cache") and not x.endswith(".egg-info")]
        for f in files:
            if f.endswith(exts):
                out.append(os.path.join(d, f))
    return sorted(out)


def _prune_cache(root, keep):
    """keep the most recently used compiled-extension sets only"""
    try:
        ents = sorted((os.path.getmtime(os.path.join(root, x)), x) for x in os.listdir(root))
        for _, x in ents[:-keep]:
            shutil.rmtree(os.path.join(root, x), ignore_errors=True)
    except OSError:
        pass


def prepare_impl(ctx):
    """rsync /repo's working tree to the scratch dir and (re)build the Cython extensions from the
    current .pyx sources (cached by the hash of the .pyx files and setup.py)."""
    if ctx.impl:
        return ctx.impl
    dst = os.path.join(ctx.scratch, "impl")
    subprocess.run(["rsync", "-a", "--delete", "--exclude", ".git", "--exclude", "*.so", "--exclude", "__pycache__",
                    "--exclude", "*.egg-info", "--exclude", ".pytest_cache", REPO + "/", dst + "/"], check=True)
    h = hashlib.sha256()
    for f in _tree_files(os.path.join(dst, "scriptplan", "_cython"), (".pyx",)) + [os.path.join(dst, "setup.py")]:
        h.update(os.path.relpath(f, dst).encode() + b"\0" + open(f, "rb").read())
    key = h.hexdigest()[:20]
    cache = os.path.join(BUILD, "cache", "so", key)
    _prune_cache(os.path.dirname(cache), keep=24)
    cyd = os.path.join(dst, "scriptplan", "_cython")
    if not (os.path.isdir(cache) and len([x for x in os.listdir(cache) if x.endswith(".so")]) >= 1):
        for f in os.listdir(cyd):
            if f.endswith(".c"):
                os.remove(os.path.join(cyd, f))          # force regeneration from the .pyx
        r = subprocess.run([PY, "setup.py", "build_ext", "--inplace", "-j", "3"], cwd=dst, capture_output=True, text=True)
        sos = [x for x in os.listdir(cyd) if x.endswith(".so")]
        tmp = cache + ".tmp%d" % os.getpid()
        os.makedirs(tmp, exist_ok=True)
        for x in sos:
            shutil.copy2(os.path.join(cyd, x), tmp)
        open(os.path.join(tmp, "build.log"), "w").write(r.stdout[-4000:] + r.stderr[-4000:])
        if os.path.isdir(cache):
            shutil.rmtree(tmp)
        else:
            os.makedirs(os.path.dirname(cache), exist_ok=True)
            os.rename(tmp, cache)
    try:
        os.utime(cache)
    except OSError:
        pass
    for x in os.listdir(cache):
        if x.endswith(".so"):
            shutil.copy2(os.path.join(cache, x), cyd)
    ctx.so_built = sorted(x for x in os.listdir(cyd) if x.endswith(".so"))
    ctx.impl = dst
    return dst


def prepare_impl_tracked_c(ctx):
    """A second copy of the implementation whose extensions are compiled from the TRACKED .c files - what
    `setup.py build_ext` does on a fresh checkout, where the generated C is not older than the .pyx and is not
    regenerated.  Returns the directory, or None when the tree tracks no generated C."""
    src = prepare_impl(ctx)
    rc = os.path.join(REPO, "scriptplan", "_cython")
    cs = sorted(f for f in os.listdir(rc) if f.endswith(".c"))
    if not cs:
        return None
    dst = os.path.join(ctx.scratch, "impl_c")
    subprocess.run(["rsync", "-a", "--delete", "--exclude", "*.so", "--exclude", "__pycache__", "--exclude", "build", src + "/", dst + "/"], check=True)
    cyd = os.path.join(dst, "scriptplan", "_cython")
    h = hashlib.sha256()
    newest = max(os.path.getmtime(os.path.join(cyd, x)) for x in os.listdir(cyd))
    for f in cs:
        shutil.copy2(os.path.join(rc, f), os.path.join(cyd, f))
        os.utime(os.path.join(cyd, f), (newest + 60, newest + 60))
        h.update(f.encode() + b"\0" + open(os.path.join(cyd, f), "rb").read())
    h.update(open(os.path.join(dst, "setup.py"), "rb").read())
    cache = os.path.join(BUILD, "cache", "so", "c-" + h.hexdigest()[:20])
    if not (os.path.isdir(cache) and any(x.endswith(".so") for x in os.listdir(cache))):
        before = {f: open(os.path.join(cyd, f), "rb").read() for f in cs}
        r = subprocess.run([PY, "setup.py", "build_ext", "--inplace", "-j", "3"], cwd=dst, capture_output=True, text=True)
        if any(open(os.path.join(cyd, f), "rb").read() != before[f] for f in cs):
            return None                      # the build regenerated the C after all: nothing different to look at
        tmp = cache + ".tmp%d" % os.getpid()
        os.makedirs(tmp, exist_ok=True)
        for x in os.listdir(cyd):
            if x.endswith(".so"):
                shutil.copy2(os.path.join(cyd, x), tmp)
        open(os.path.join(tmp, "build.log"), "w").write(r.stdout[-4000:] + r.stderr[-4000:])
        if os.path.isdir(cache):
            shutil.rmtree(tmp)
        else:
            os.rename(tmp, cache)
    try:
        os.utime(cache)
    except OSError:
        pass
    for x in os.listdir(cache):
        if x.endswith(".so"):
            shutil.copy2(os.path.join(cache, x), cyd)
    return dst


def impl_env(ctx, hashseed="0", extra=None):
    env = dict(os.environ)
    env["PYTHONPATH"] = prepare_impl(ctx) + ":" + os.path.join(VERIF, "harness")
    env["PYTHONHASHSEED"] = str(hashseed)
    env["PYTHONDONTWRITEBYTECODE"] = "1"
    env.pop("SCRIPTPLAN_VERIF", None)
    if extra:
        env.update(extra)
    return env


def repo_tree_hash():
    h = hashlib.sha256()
    for f in _tree_files(REPO, (".py", ".pyx", ".lark", ".toml")):
        h.update(f.encode() + b"\0" + open(f, "rb").read())
    return h.hexdigest()[:16]


# ----------------------------------------------------------------------------- Coq
def coq_gate():
    """no Admitted / admit / Axiom / Parameter / ... anywhere in the development (comments stripped)"""
    bad = []
    for f in _tree_files(COQ, (".v",)):
        if "/_wip/" in f:
            continue
        txt = open(f).read()
        txt = re.sub(r"\(\*.*?\*\)", " ", txt, flags=re.S)
        # Section variables/hypotheses are allowed: they must be inside a Section
        depth = 0
        for ln_no, ln in enumerate(txt.split("\n"), 1):
            if re.match(r"\s*Section\s+\w+", ln):
                depth += 1
            if re.match(r"\s*End\s+\w+", ln):
                depth = max(0, depth - 1)
            for m in FORBIDDEN.finditer(ln):
                w = m.group(1)
                if w in ("Hypothesis", "Variable", "Variables") and depth > 0:
                    continue
                if w in ("Hypothesis", "Variable", "Variables") and re.search(r"\(\s*%s" % w, ln):
                    continue
                bad.append(f"{os.path.relpath(f, COQ)}:{ln_no}: {w}")
    return bad


_coq_state = {}


def coq_build(ctx):
    """Regenerate Gen/*.v from the scratch copy of the source, then a full .vo build.
    Returns dict(untranslatable=str|None, errors=[(file, line, msg)], log=str)."""
    if "res" in _coq_state:
        return _coq_state["res"]
    impl = prepare_impl(ctx)
    os.makedirs(BUILD, exist_ok=True)
    lock = open(os.path.join(BUILD, "coq.lock"), "w")
    fcntl.flock(lock, fcntl.LOCK_EX)
    try:
        res = {"untranslatable": None, "errors": [], "log": "", "gate": coq_gate()}
        r = subprocess.run([sys.executable, os.path.join(VERIF, "translate", "py2v.py"), impl, os.path.join(COQ, "Gen")],
                           capture_output=True, text=True)
        if r.returncode != 0:
            res["untranslatable"] = (r.stdout + r.stderr).strip()[-600:]
        env = dict(os.environ, COQ_JOBS=str(NPROC), COQ_TIMEOUT="1500", VERIF_NO_REGEN="1")
        r = subprocess.run([os.path.join(VERIF, "tools", "coqbuild.sh")], capture_output=True, text=True, env=env)
        log = r.stdout + r.stderr
        res["log"] = log
        for m in re.finditer(r'File "\./([^"]+)", line (\d+), characters [\d-]+:\n(Error:.*?)(?=\n(?:make|File|COQ)|\Z)', log, re.S):
            res["errors"].append((m.group(1), int(m.group(2)), " ".join(m.group(3).split())[:300]))
        # authoritative list of targets whose compilation failed in THIS build
        res["failed_targets"] = sorted(set(re.findall(r"\*\*\* \[Makefile[^\]]*?:\s*([\w/.]+)\.vo\] Error", log)))
        res["assumptions"] = parse_assumptions(log)
        if not res["errors"]:
            r2 = subprocess.run([os.path.join(VERIF, "tools", "ocamlbuild.sh")], capture_output=True, text=True)
            if r2.returncode != 0:
                res["errors"].append(("ocaml", 0, (r2.stdout + r2.stderr)[-300:]))
    finally:
        fcntl.flock(lock, fcntl.LOCK_UN)
    _coq_state["res"] = res
    return res


def parse_assumptions(log):
    return log.count("Closed under the global context")


def vo_ok(relv):
    """is the compiled file present and not older than its source (after a make -k)"""
    v = os.path.join(COQ, relv)
    vo = v[:-2] + ".vo"
    return os.path.exists(vo) and os.path.getmtime(vo) >= os.path.getmtime(v)


def obligations(ctx, files):
    """Status of the proof obligations of a property: the named Props/Proofs files and everything
    they depend on (coqdep), after the build.  Returns (n_obligations, n_discharged, failing, axioms_text)."""
    res = coq_build(ctx)
    # transitive dependencies through the .d files written by coq_makefile
    deps = {}
    dfile = os.path.join(COQ, ".Makefile.d")
    if os.path.exists(dfile):
        for ln in open(dfile).read().replace("\\\n", " ").split("\n"):
            if ":" in ln:
                lhs, rhs = ln.split(":", 1)
                srcs = [x for x in rhs.split() if x.endswith(".vo") or x.endswith(".v")]
                for t in lhs.split():
                    if t.endswith(".vo"):
                        deps[t] = [x[:-1] if x.endswith(".vo") else x for x in srcs if x.endswith(".vo")]
    need = set()

    def walk(v):
        if v in need:
            return
        need.add(v)
        for d in deps.get(v + "o", []):
            if not d.startswith("/"):
                walk(d)
    for f in files:
        walk(f)
    need = sorted(x for x in need if os.path.exists(os.path.join(COQ, x)))
    failing = []
    errfiles = {e[0]: e for e in res["errors"]}
    failed = set(x + ".v" for x in res.get("failed_targets", [])) | set(errfiles)
    # a file is not checked if it failed itself or (transitively) depends on a file that failed
    memo = {}

    def broken(v):
        if v in memo:
            return memo[v]
        memo[v] = False
        r = v in failed or not os.path.exists(os.path.join(COQ, v[:-2] + ".vo")) or any(
            broken(d) for d in deps.get(v + "o", []) if not d.startswith("/") and os.path.exists(os.path.join(COQ, d)))
        memo[v] = r
        return r
    thm_count = 0
    for v in need:
        txt = open(os.path.join(COQ, v)).read()
        n = len(re.findall(r"^\s*(?:Theorem|Lemma|Corollary|Example|Fact)\s+\w+", txt, re.M))
        thm_count += n
        if broken(v):
            e = errfiles.get(v)
            failing.append({"file": v, "line": e[1] if e else None, "error": e[2] if e else "not built (a dependency failed)",
                            "theorems_in_file": n})
    if res["untranslatable"]:
        failing.append({"file": "translate/py2v.py", "line": None, "error": res["untranslatable"], "theorems_in_file": 0})
    for g in res["gate"]:
        failing.append({"file": g, "line": None, "error": "forbidden declaration in the development", "theorems_in_file": 0})
    lost = sum(f["theorems_in_file"] for f in failing)
    return thm_count, thm_count - lost, failing, need


def print_assumptions(files):
    """Print Assumptions output of the given Props files (recompiled, a second or two each)."""
    out = {}
    for f in files:
        r = subprocess.run(["coqc", "-R", ".", "SP", f], cwd=COQ, capture_output=True, text=True, timeout=600)
        txt = r.stdout
        out[f] = {"closed": txt.count("Closed under the global context"),
                  "axioms": sorted(set(re.findall(r"^([\w.']+)\s*:", txt, re.M)))}
    return out


# ----------------------------------------------------------------------------- workers
def run_workers(ctx, worker, cases, nproc=None, hashseed="0", timeout=900, extra_env=None, chunk=None):
    """Run harness/<worker>.py (a line-oriented JSON worker executed with the implementation under
    test on PYTHONPATH) over the cases; returns the list of results in order."""
    if not cases:
        return []
    nproc = min(nproc or NPROC, len(cases))
    env = impl_env(ctx, hashseed, extra_env)
    chunks = [cases[i::nproc] for i in range(nproc)]
    procs = []
    for ch in chunks:
        p = subprocess.Popen([PY, os.path.join(VERIF, "harness", worker + ".py")], stdin=subprocess.PIPE,
                             stdout=subprocess.PIPE, stderr=subprocess.DEVNULL, env=env, text=True, cwd=ctx.scratch)
        procs.append(p)
    import threading
    outs = [None] * nproc

    def feed(i):
        try:
            data = "".join(json.dumps(c) + "\n" for c in chunks[i])
            outs[i] = procs[i].communicate(data, timeout=timeout)[0]
        except subprocess.TimeoutExpired:
            procs[i].kill()
            outs[i] = procs[i].communicate()[0]
    th = [threading.Thread(target=feed, args=(i,)) for i in range(nproc)]
    [t.start() for t in th]
    [t.join() for t in th]
    results = [None] * len(cases)
    for i in range(nproc):
        lines = [ln for ln in (outs[i] or "").split("\n") if ln.startswith("{")]
        for j, c in enumerate(chunks[i]):
            idx = i + j * nproc
            if j < len(lines):
                try:
                    results[idx] = json.loads(lines[j])
                except Exception:
                    results[idx] = {"worker_error": "bad json"}
            else:
                results[idx] = {"worker_error": "no output (worker died or timed out)"}
    return results


def run_driver(name, lines, timeout=600):
    """Feed lines to an extracted-OCaml driver, return output lines."""
    exe = os.path.join(BUILD, "bin", name)
    r = subprocess.run([exe], input="\n".join(lines) + "\n", capture_output=True, text=True, timeout=timeout)
    return r.stdout.split("\n")[:len(lines)]


def run_driver_parallel(name, lines, nproc=None, timeout=3600):
    """the same, the lines spread over several driver processes (one answer per line, in order)"""
    from concurrent.futures import ThreadPoolExecutor
    if not lines:
        return []
    n = max(1, min(nproc or NPROC, len(lines)))
    chunks = [list(range(i, len(lines), n)) for i in range(n)]
    out = [None] * len(lines)

    def work(idx):
        return idx, run_driver(name, [lines[i] for i in idx], timeout)
    with ThreadPoolExecutor(max_workers=n) as ex:
        for idx, res in ex.map(work, chunks):
            for i, o in zip(idx, res + ["ERROR no answer"] * (len(idx) - len(res))):
                out[i] = o
    return out


# ----------------------------------------------------------------------------- findings / reports
def known_findings():
    return json.load(open(os.path.join(VERIF, "known_findings.json")))


def match_known(prop, signature):
    for k in known_findings().get("known", []):
        if prop in k["properties"] and k["signature"] in signature:
            return k
    return None


def write_replay(ctx, payload):
    os.makedirs(os.path.join(VERIF, "replays"), exist_ok=True)
    body = json.dumps(payload, indent=1, sort_keys=True, default=str)
    h = hashlib.sha256(body.encode()).hexdigest()[:12]
    path = os.path.join(VERIF, "replays", f"{ctx.prop}-{h}.json")
    open(path, "w").write(body)
    return path


TRUSTED = [
    "Coq 8.16.1 kernel, coqc, vm_compute (Examples and _refuted witnesses only); no native_compute",
    "axioms: none declared by the development; Print Assumptions under every property theorem reports 'Closed under the global context' unless listed in coverage.axioms",
    "translator translate/py2v.py and the .pyx normaliser: int->Z, naive datetime->Z seconds, int(a/b)->Z.quot, math.ceil(a/b)->ceiling division, C int->32-bit wrap, cdivision->Z.quot/Z.rem (validated by grid correspondence, not verified)",
    "extraction with ExtrOcamlBasic only (no Extract Constant), OCaml 4.13, ocaml/*.ml drivers",
    "the correspondence harness under harness/: generators, .tjp renderer, observation dumpers, canonicalisation, comparators",
    "floats are modelled as exact rationals/integers; Python's zoneinfo, datetime, json, csv, click and the OS are oracles",
]


def finish(ctx, level, coverage, violations, assumptions, known_lines=()):
    """Write the evidence file, print the verdict lines, exit."""
    for ln in known_lines:
        print(ln)
    ev = {"property_id": ctx.prop, "tier": ctx.tier, "seed": ctx.seed, "level": level, "coverage": coverage,
          "assumptions": assumptions, "wall_s": round(time.time() - ctx.t0, 1), "violations": len(violations)}
    os.makedirs(os.path.join(VERIF, "evidence"), exist_ok=True)
    json.dump(ev, open(os.path.join(VERIF, "evidence", ctx.prop + ".json"), "w"), indent=1, default=str)
    for v in violations:
        print(f"VIOLATION property={ctx.prop} replay={v['replay']}" + (" no-failing-input-found" if v.get("no_input") else ""))
    sys.stdout.flush()
    sys.exit(1 if violations else 0)
