"""Shared skeleton of the scheduler-property checks (C01..C11): proof obligations, corpus first,
generated families through the implementation, the property's oracle on the implementation's
observations, and the model-vs-implementation correspondence on core-dialect projects."""
import glob
import json
import os
from collections import Counter

import common
import gens
import oracles
import projects


MODEL_WHAT = "the implementation's schedule differs from the reference list scheduler"


def load_corpus(prop):
    out = []
    for f in sorted(glob.glob(os.path.join(common.VERIF, "corpus", prop, "*.json"))):
        ap = json.load(open(f))
        ap["_family"] = "corpus"
        ap["_i"] = os.path.basename(f)
        out.append(ap)
    return out


def listify(ap):
    """JSON round trip turns tuples into lists; the oracles accept both except for dict keys"""
    return ap


def shrink(ap, still_bad, budget=40):
    """greedy reduction: drop tasks (leaves first), then resources' features, while the oracle still fails"""
    import copy
    cur = ap
    steps = 0
    changed = True
    while changed and steps < budget:
        changed = False
        tl = [p for p, n in projects.walk(cur["tasks"]) if "kids" not in n]
        for p in reversed(tl):
            cand = copy.deepcopy(cur)
            cand.pop("_inh_hours", None)          # cache of inherited calendars (projects.own_or_inherited_hours)
            if not remove_task(cand, p):
                continue
            steps += 1
            if steps > budget:
                break
            try:
                if still_bad(cand):
                    cur = cand
                    changed = True
                    break
            except Exception:
                pass
    return cur


def remove_task(ap, path):
    """remove a leaf and every dependency that points at it; returns False if not removable"""
    def rec(nodes, pre):
        for i, n in enumerate(nodes):
            p = pre + (n["id"],)
            if p == tuple(path):
                del nodes[i]
                return True
            if "kids" in n and rec(n["kids"], p):
                if not n["kids"]:
                    return True
                return True
        return False
    if not rec(ap["tasks"], ()):
        return False
    # drop empty containers and dangling references
    def prune(nodes):
        nodes[:] = [n for n in nodes if "kids" not in n or prune(n["kids"]) or n["kids"]]
        return nodes
    prune(ap["tasks"])
    live = {p for p, _ in projects.walk(ap["tasks"])}
    for p, n in projects.walk(ap["tasks"]):
        for key in ("deps", "precedes"):
            if n.get(key):
                n[key] = [d for d in n[key] if tuple(d["to"]) in live]
    return bool(ap["tasks"])


def run(ctx, prop, props_files, fams, oracle_names, assumptions, level_rule, model=True, extra_cases=None, extra_oracle=None,
        post=None, model_is_oracle=False, all_scenarios=False, first_cases=None):
    nob, ndis, failing, files = common.obligations(ctx, props_files)
    aps = (first_cases(ctx) if first_cases else []) + load_corpus(prop)       # first_cases: one per worker process, run before anything else
    ncorp = len(aps)
    for fam, nq, nt in fams:
        aps += gens.family(ctx, fam, ctx.n(nq, nt))
    if extra_cases:
        aps += extra_cases(ctx)
    if ctx.replay:
        rp = json.load(open(ctx.replay))
        aps = [rp["abstract_project"]] if "abstract_project" in rp else aps
    res = projects.schedule_all(ctx, aps)
    bad, dis, known_lines = [], [], []
    stats = Counter()
    ncore = 0
    model_pairs = []
    for ap, r in zip(aps, res):
        stats["family:" + str(ap.get("_family"))] += 1
        if "worker_error" in r or not r.get("ok"):
            stats["impl_error"] += 1
            if "c11" in oracle_names:
                for f in oracles.c11(ap, r):
                    bad.append((ap, f, r))
            continue
        obs = r["obs"]
        for sc in (obs["scenarios"] if all_scenarios and ap.get("scenario_lines") else obs["scenarios"][:1]):
            stats["scenarios_checked"] += 1
            stats["tasks"] += len(sc["tasks"])
            stats["scheduled_leaves"] += sum(1 for t in sc["tasks"].values() if t["leaf"] and t["sched"])
            stats["ledger_entries"] += sum(len(e) for sl in sc["ledger"].values() for e in sl.values())
            shared = sum(1 for sl in sc["ledger"].values() for e in sl.values() if len([x for x in e if x[1] > 1e-3]) > 1)
            stats["shared_slots"] += shared
            for name in oracle_names:
                fs = oracles.c11(ap, r) if name == "c11" else getattr(oracles, name)(ap, obs, sc)
                for f in fs:
                    bad.append((ap, f, r))
            if extra_oracle:
                for f in extra_oracle(ap, obs, sc, r):
                    bad.append((ap, f, r))
        if model:
            model_pairs.append((ap, obs, r))
    if model and model_pairs:
        for (ap, obs, r), (d, why, kind) in zip(model_pairs, projects.compare_many([(a, o) for a, o, _ in model_pairs])):
            if d is None:
                stats["model:outside_dialect"] += 1
                continue
            ncore += 1
            if kind in ("second", "team"):
                stats["model:subslot"] += 1
            if kind == "team":
                stats["model:subslot_team"] += 1
            if d and model_is_oracle:
                # the model IS the reference the property names (C07): a disagreement is the failing input
                bad.append((ap, {"what": MODEL_WHAT, "disagreements": d[:4]}, r))
            elif d:
                dis.append({"project": projects.render(ap), "disagreements": d[:4], "family": ap.get("_family"), "i": ap.get("_i")})
    if post:
        pb, pstats = post(ctx, aps, res)
        bad += pb
        stats.update(pstats)
    violations = []
    reported = set()
    for ap, f, r in bad:
        sig = f.get("known_signature") or ""
        k = common.match_known(prop, sig) if sig else None
        if k:
            line = f"KNOWN-FINDING: property={prop} {k['what']}"
            if line not in known_lines:
                known_lines.append(line)
            continue
        key = f["what"]
        if key in reported:
            continue
        reported.add(key)

        def still(cand, what=f["what"]):
            rr = projects.schedule_all(ctx, [cand])[0]
            if not rr.get("ok"):
                return any(x["what"] == what for x in oracles.c11(cand, rr)) if "c11" in oracle_names else False
            o = rr["obs"]
            out = []
            for name in oracle_names:
                out += oracles.c11(cand, rr) if name == "c11" else getattr(oracles, name)(cand, o, o["scenarios"][0])
            if extra_oracle:
                out += extra_oracle(cand, o, o["scenarios"][0], rr)
            if model_is_oracle:
                dd, _ = projects.compare_model(cand, o)
                if dd:
                    out.append({"what": MODEL_WHAT})
            return any(x["what"] == what for x in out)
        small = ap
        is_project = "dur" in ap
        try:
            if is_project and len(reported) <= 2 and not ctx.replay:
                small = shrink(ap, still)
        except Exception:
            small = ap
        payload = {"property": prop, "kind": "failing input on the implementation", "finding": f,
                   "family": ap.get("_family"), "index": ap.get("_i"), "seed": ctx.seed,
                   "how_to_replay": f"./check {prop} --replay <this file>"}
        if is_project:
            payload["project_text"] = projects.render(small)
            payload["abstract_project"] = small
        violations.append({"replay": common.write_replay(ctx, payload)})
        if len(violations) >= 3:
            break
    if not violations and (failing or dis):
        violations.append({"no_input": True, "replay": common.write_replay(ctx, {
            "property": prop, "kind": "proof obligation or correspondence no longer checks; the failing-input search found no input on which the property fails",
            "failing_obligations": failing, "model_vs_implementation_disagreements": dis[:3], "count": len(dis)})})
    samples = []
    for ap, r in list(zip(aps, res))[:: max(1, len(aps) // 3)][:3]:
        samples.append({"family": ap.get("_family"), "project": projects.render(ap)[:1500],
                        "observed": {k: v for k, v in list((r.get("obs") or {}).get("scenarios", [{}])[0].get("tasks", {}).items())[:6]}})
    cov = {"obligations": nob, "discharged": ndis,
           "checker_cmd": "tools/coqbuild.sh (coq_makefile + coqc 8.16.1, full .vo build) after translate/py2v.py /repo -> coq/Gen; extraction built by tools/ocamlbuild.sh",
           "trusted_base": common.TRUSTED, "files": files,
           "traces_validated_against_impl": ncore, "projects_run_on_impl": len(aps), "corpus_cases_first": ncorp,
           "model_disagreements": len(dis), "oracle_findings": len(bad), "input_distribution": dict(stats),
           "rule": level_rule, "samples": samples}
    common.finish(ctx, "proof", cov, violations, assumptions, known_lines)
