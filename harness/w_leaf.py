"""Worker: run the real leaf functions (pure-Python twin and compiled twin) on one flat-integer case
per line; answers in the text format of ocaml/gendriver.ml.  Executed with the implementation under
test on PYTHONPATH."""
import json
import sys
from datetime import datetime, timedelta

E = datetime(1970, 1, 1)


def dt(t):
    return E + timedelta(seconds=t)


def secs(d):
    return int((d - E).total_seconds())


import scriptplan.scheduler.scoreboard as sbm
import scriptplan.core.project as prm
import scriptplan.core.working_hours as whm
from scriptplan.core.limits import Limit
from scriptplan.utils.time import TimeInterval

try:
    from scriptplan._cython import scoreboard_cy, time_utils_cy, working_hours_cy
    HAVE_CY = True
except ImportError:
    HAVE_CY = False


class FakeProject:
    def __init__(self, start, gran):
        self.attributes = {"start": start, "scheduleGranularity": gran}
    dateToIdx = prm.Project.dateToIdx
    idxToDate = prm.Project.idxToDate


def guard(fn):
    try:
        return fn()
    except IndexError:
        return "RAISE IndexError"
    except ValueError:
        return "RAISE ValueError"
    except OverflowError:
        return "RAISE Overflow"


def take_list(a, pos, f):
    n = a[pos]
    pos += 1
    out = []
    for _ in range(n):
        v, pos = f(a, pos)
        out.append(v)
    return out, pos


def take_iv(a, pos):
    return ((a[pos], a[pos + 1]), (a[pos + 2], a[pos + 3])), pos + 4


def take_tbl(a, pos):
    n = a[pos]
    pos += 1
    d = {}
    for _ in range(n):
        k = a[pos]
        l, pos = take_list(a, pos + 1, take_iv)
        if k not in d:
            d[k] = l
    return d, pos


def both(module, fn):
    """evaluate fn with module._USE_CYTHON False and True"""
    res = {}
    saved = module._USE_CYTHON
    try:
        module._USE_CYTHON = False
        res["py"] = guard(fn)
        if HAVE_CY:
            module._USE_CYTHON = True
            res["cy"] = guard(fn)
    finally:
        module._USE_CYTHON = saved
    return res


def sb_of(a):
    s, e, r = a[0], a[1], a[2]
    sb = sbm.Scoreboard(dt(s), dt(e), r, None)
    return sb


def run(case):
    f, a = case["f"], case["a"]
    if f == "size":
        return {"py": str(sb_of(a).size)}
    if f == "i2d":
        sb = sb_of(a)
        sb.size = a[3]
        return both(sbm, lambda: str(secs(sb.idxToDate(a[4], bool(a[5])))))
    if f == "d2i":
        sb = sb_of(a)
        sb.size = a[3]
        return both(sbm, lambda: str(sb.dateToIdx(dt(a[4]), bool(a[5]))))
    if f == "collect":
        sb = sb_of(a)
        sb.size = a[3]
        lst, pos = take_list(a, 4, lambda x, p: (x[p], p + 1))
        sb.sb = list(lst)
        t1, t2, md = a[pos], a[pos + 1], a[pos + 2]
        pred = lambda v: v == 1

        def go():
            ivs = sb.collectIntervals(TimeInterval(dt(t1), dt(t2)), md, pred)
            return " ".join(f"{secs(i.start)}:{secs(i.end)}" for i in ivs)
        return both(sbm, go)
    if f == "pd2i":
        p = FakeProject(dt(a[0]), a[1])
        return both(prm, lambda: str(p.dateToIdx(dt(a[2]))))
    if f == "pi2d":
        p = FakeProject(dt(a[0]), a[1])
        return both(prm, lambda: str(secs(p.idxToDate(a[2]))))
    if f == "psize":
        s, e, g = dt(a[0]), dt(a[1]), a[2]
        res = {"py": str(int((e - s).total_seconds() / g) + 1)}
        # the pure-Python branch of Project.scoreboardSize without a scoreboard
        p = FakeProject(s, g)
        p.attributes["end"] = e
        p.scoreboard = None
        res["py"] = guard(lambda: str(prm.Project.scoreboardSize(p)))
        if HAVE_CY:
            res["cy"] = guard(lambda: str(time_utils_cy.scoreboard_size(s, e, g)))
        return res
    if f == "onshift":
        tbl, pos = take_tbl(a, 0)
        t = a[pos]
        wh = whm.WorkingHours.__new__(whm.WorkingHours)
        wh._hours = tbl
        wh._custom_hours_set = True

        class P:
            def idxToDate(self, i):
                return dt(t)
        wh.project = P()
        return both(whm, lambda: "1" if wh.onShift(0) else "0")
    if f == "daily":
        tbl, pos = take_tbl(a, 0)
        wd = a[pos]
        wh = whm.WorkingHours.__new__(whm.WorkingHours)
        wh._hours = tbl
        r = both(whm, lambda: wh.get_daily_hours(wd).hex())
        return r
    if f == "limidx":
        lim = Limit("x", dt(a[0]), dt(a[0]) + timedelta(days=1), a[2], 1, True, None, a[1])
        return {"py": guard(lambda: str(lim._idx_to_sb_idx(a[3])))}
    return {"py": "UNKNOWN"}


for line in sys.stdin:
    line = line.strip()
    if not line:
        continue
    try:
        out = run(json.loads(line))
    except Exception as ex:  # noqa
        out = {"worker_error": f"{type(ex).__name__}: {ex}"}
    sys.stdout.write(json.dumps(out) + "\n")
    sys.stdout.flush()
