"""Worker: drive ResourceScenario.available/book (through TaskScenario.bookResource) and
TaskScenario._calculatePreciseEndTimeAndRelease on ONE slot of one resource with an operation
sequence, and report the cell (slotSecondsUsed, slotTaskUsage)."""
import contextlib
import io
import json
import sys

from scriptplan.parser.tjp_parser import ProjectFileParser

TEXT = """project prj "P" 2025-01-06 +2w { timezone "Etc/UTC" %s }
resource r "r" { }
""" + "".join('task t%d "t%d" { effort 1h allocate r }\n' % (i, i) for i in range(6))
CACHE = {}


def setup(G):
    if G in CACHE:
        return CACHE[G]
    extra = "" if G == 3600 else "timingresolution %dmin" % (G // 60)
    with contextlib.redirect_stderr(io.StringIO()):
        p = ProjectFileParser().parse(TEXT % extra)
    CACHE[G] = p
    return p


def run(case):
    G = case["G"]
    p = setup(G)
    r = [x for x in p.resources][0]
    rs = r.data[0]
    rs.prepareScheduling()
    rs.slotSecondsUsed = {}
    rs.slotTaskUsage = {}
    tasks = [t for t in p.tasks]
    for t in tasks:
        t.data[0].prepareScheduling()
    idx = p.dateToIdx(p["start"]) + (9 * 3600) // G          # Monday 09:00
    log = []
    for op in case["ops"]:
        kind = op[0]
        if kind in ("book", "bookoff", "bookcap"):
            ts = tasks[op[1]].data[0]
            ts.currentSlotIdx = idx
            ts.doneEffort = 0.0
            ts.slotStartOffset = float(op[2]) if kind == "bookoff" else 0.0
            cap = float(op[2]) if kind == "bookcap" else None
            got = ts.bookResource(r, cap) if cap is not None else ts.bookResource(r)
            log.append(round(got * 3600.0, 6))
        elif kind == "finish":
            ts = tasks[op[1]].data[0]
            ts.currentSlotIdx = idx
            ts._selectedResources = [r]
            ts._lastBookedResource = r
            need = float(op[2])
            ts._calculatePreciseEndTimeAndRelease(need / 3600.0, 0.0, True)
            log.append(None)
    used = rs.slotSecondsUsed.get(idx, 0.0)
    ents = [[tasks.index(t), round(s, 6)] for t, s in rs.slotTaskUsage.get(idx, [])]
    return {"used": round(used, 6), "entries": ents, "gained": log}


for line in sys.stdin:
    line = line.strip()
    if not line:
        continue
    try:
        out = run(json.loads(line))
    except Exception as ex:  # noqa
        import traceback
        out = {"worker_error": f"{type(ex).__name__}: {ex}", "tb": traceback.format_exc()[-400:]}
    sys.stdout.write(json.dumps(out) + "\n")
    sys.stdout.flush()
