"""The properties C01..C11 as predicates on (abstract project, implementation observations).
Each oracle returns a list of findings {"what": ..., ...}; empty = the property holds on this case."""
from projects import walk, task_index, res_index, fid, all_edges, working, aligned, leaves_under, day_interval, effective_attr

EPS = 1e-4
TINY = 1e-3        # ledger entries below a millisecond are float artefacts (documented in DESIGN.md 2.1)


def ledger_of(sc):
    """{res: {slot(int): [(task, secs)]}}"""
    return {r: {int(k): [(t, s) for t, s in v] for k, v in d.items()} for r, d in sc["ledger"].items()}


def slot_of(obs, t):
    return (t - obs["start"]) // obs["G"]


def forward_task(ap, n):
    if n.get("sched") == "alap":
        return False
    if n.get("sched") == "asap":
        return True
    return not ap.get("alap")


# ----------------------------------------------------------------------------------------- C01
def c01(ap, obs, sc):
    bad = []
    G = obs["G"]
    ridx = {fid(p): n for p, n in res_index(ap).items()}
    tidx = {fid(p): n for p, n in task_index(ap).items()}
    for r, slots in ledger_of(sc).items():
        if r in ridx and "kids" in ridx[r] and any(slots.values()):
            bad.append({"what": "a resource group occupies resource time", "resource": r})
        for s, ents in slots.items():
            tot = sum(x for _, x in ents)
            if tot > G + EPS:
                bad.append({"what": "a resource is booked for more than the slot length", "resource": r, "slot": s,
                            "slot_start": obs["start"] + s * G, "entries": ents, "sum": tot, "G": G})
            for t, x in ents:
                if x < -EPS:
                    bad.append({"what": "negative booking", "resource": r, "slot": s, "entries": ents})
                if t in tidx and "kids" in tidx[t]:
                    bad.append({"what": "a container task occupies resource time", "task": t, "resource": r, "slot": s})
    return bad


# ----------------------------------------------------------------------------------------- C02
def c02(ap, obs, sc):
    bad = []
    G = obs["G"]
    rl = {fid(p): n for p, n in res_index(ap).items() if "kids" not in n}
    al = aligned(ap)
    for r, slots in ledger_of(sc).items():
        node = rl.get(r)
        if node is None:
            continue
        for s, ents in slots.items():
            if sum(x for _, x in ents if x > TINY) <= 0:
                continue
            ts = obs["start"] + s * G
            if not working(ap, node, ts):
                bad.append({"what": "work booked outside the resource's working time (slot start is off-shift, on leave, vacation or holiday)",
                            "resource": r, "slot": s, "slot_start": ts, "entries": ents})
            elif al and not working(ap, node, ts + G - 60):
                bad.append({"what": "work booked in a slot whose last minute is outside working time although the calendar is aligned to the resolution",
                            "resource": r, "slot": s, "slot_start": ts, "entries": ents})
    return bad


# ----------------------------------------------------------------------------------------- C03
def task_usage(sc):
    """{task: {res: {slot: secs}}}"""
    u = {}
    for r, slots in ledger_of(sc).items():
        for s, ents in slots.items():
            for t, x in ents:
                if x > TINY:
                    u.setdefault(t, {}).setdefault(r, {})
                    u[t][r][s] = u[t][r].get(s, 0.0) + x
    return u


def has_task_limit(ap, p):
    idx = task_index(ap)
    return any(idx[p[:k]].get("dailymax") is not None or idx[p[:k]].get("weeklymax") is not None for k in range(1, len(p) + 1))


def c03(ap, obs, sc):
    bad = []
    use = task_usage(sc)
    rl = {n["id"]: (fid(p), n) for p, n in res_index(ap).items() if "kids" not in n}
    for p, n in task_index(ap).items():
        t = fid(p)
        if "kids" in n or n.get("effort") is None or not n.get("alloc") or any(x not in rl for x in n["alloc"]):
            continue        # a resource group in the allocation: nothing is claimed about who works (C10 claims the group books nothing)
        st = sc["tasks"].get(t)
        if not st or not st["sched"]:
            continue
        u = use.get(t, {})
        booked = set(u)
        prim = {rl[x][0] for x in n["alloc"]}
        alts = {rl[x][0] for x in n.get("alt", [])}
        if booked != prim and not (alts and booked == alts):
            f = {"what": "the booked resources are neither exactly the allocated team nor exactly the alternative",
                 "task": t, "booked": sorted(booked), "allocated": sorted(prim), "alternative": sorted(alts)}
            bad.append(f)
            continue
        # team: identical instants
        maps = list(u.values())
        for m in maps[1:]:
            if set(m) != set(maps[0]) or any(abs(m[s] - maps[0][s]) > 1e-3 for s in m):
                bad.append({"what": "team members are booked for different instants", "task": t, "usage": u})
                break
        # effort: per slot the credited effort is the best member's seconds x efficiency
        effs = {rl[x][0]: float(rl[x][1].get("eff") or 1.0) for x in list(n["alloc"]) + list(n.get("alt", []))}
        slots = set()
        for m in maps:
            slots |= set(m)
        credited = sum(max(u[r].get(s, 0.0) * effs[r] for r in u) for s in slots)
        want = (effective_attr(ap, n, "effort", sc.get("id")) if ap.get("scen_parent") else n["effort"]) * 60.0
        tol = 1.0 * max(effs.values()) + 1e-3
        if abs(credited - want) > tol:
            bad.append({"what": "booked time weighted by efficiency differs from the requested effort by more than the one-second rounding",
                        "task": t, "effort_s": want, "credited_s": round(credited, 3), "usage": u})
    return bad


# ----------------------------------------------------------------------------------------- C04
def node_dates(sc, t):
    x = sc["tasks"].get(t)
    return x if x else None


def alap_related(ap):
    """task paths that are task-level ALAP or (transitive) predecessors of one: mixed-mode chains, not claimed"""
    edges = all_edges(ap)
    idx = task_index(ap)
    bad = {p for p, n in idx.items() if n.get("sched") == "alap"}
    changed = True
    while changed:
        changed = False
        for p in list(bad):
            for (q, _, _, _) in edges.get(p, []):
                qs = [q] + [x for x in idx if x[:len(q)] == q]
                for z in qs:
                    if z not in bad:
                        bad.add(z)
                        changed = True
    return bad


def c04(ap, obs, sc):
    bad = []
    edges = all_edges(ap)
    idx = task_index(ap)
    mixed = alap_related(ap) if not ap.get("alap") else set()
    for p, n in idx.items():
        if "kids" in n:
            continue
        t = fid(p)
        st = sc["tasks"].get(t)
        if not st or not st["sched"] or st["start"] is None:
            continue
        if forward_task(ap, n):
            if n.get("start") is not None or p in mixed:
                continue
            for (q, gap, onstart, gaplen) in edges[p]:
                if gaplen:
                    continue
                ps = sc["tasks"].get(fid(q))
                if not ps or not ps["sched"]:
                    bad.append({"what": "a task is scheduled although a predecessor is not", "task": t, "predecessor": fid(q)})
                    continue
                ref = ps["start"] if onstart else ps["end"]
                if ref is None:
                    continue
                if st["start"] < ref + gap:
                    bad.append({"what": "a task starts before its predecessor's %s plus the gap" % ("start" if onstart else "end"),
                                "task": t, "task_start": st["start"], "predecessor": fid(q), "pred_time": ref, "gap_s": gap})
    if ap.get("alap"):
        for u, es in edges.items():
            su = sc["tasks"].get(fid(u))
            for (q, gap, onstart, gaplen) in es:
                if onstart or gaplen:
                    continue
                # every leaf below the predecessor q that has no own end must end before u (or u's leaves) start
                qn = idx[q]
                for lp in leaves_under(qn, q):
                    ln = idx[lp]
                    if ln.get("end") is not None or ln.get("sched") == "asap":
                        continue
                    sl = sc["tasks"].get(fid(lp))
                    if not sl or not sl["sched"] or sl["end"] is None or not su or not su["sched"] or su["start"] is None:
                        continue
                    if "kids" in idx[u]:
                        continue
                    if idx[u].get("sched") == "asap":
                        continue
                    if sl["end"] + gap > su["start"]:
                        bad.append({"what": "backward mode: a predecessor ends after its successor's start minus the gap",
                                    "task": fid(lp), "task_end": sl["end"], "successor": fid(u), "succ_start": su["start"], "gap_s": gap})
    return bad


# ----------------------------------------------------------------------------------------- C05
def c05(ap, obs, sc):
    bad = []
    G = obs["G"]
    led = ledger_of(sc)
    ridx = res_index(ap)
    tidx = task_index(ap)

    def check(owner, kind, minutes, entries):
        per = {}
        for (ts, x) in entries:
            k = ts // 86400 if kind == "dailymax" else (ts // 86400 + 3) // 7
            per[k] = per.get(k, 0.0) + x
        for k, v in per.items():
            if v > minutes * 60 + 1e-3:
                bad.append({"what": f"{kind} exceeded", "owner": owner, "limit_s": minutes * 60, "booked_s": round(v, 3),
                            "period": ("day starting %d" % (k * 86400)) if kind == "dailymax" else ("ISO week starting %d" % ((k * 7 - 3) * 86400))})
    for p, n in ridx.items():
        for kind in ("dailymax", "weeklymax"):
            if n.get(kind) is None:
                continue
            ls = {fid(x) for x in leaves_under(n, p)}
            ents = [(obs["start"] + s * G, x) for r in ls for s, e in led.get(r, {}).items() for _, x in e]
            check("resource " + fid(p), kind, n[kind], ents)
    rid2f = {n["id"]: fid(p) for p, n in ridx.items()}
    for p, n in tidx.items():
        for kind in ("dailymax", "weeklymax"):
            if n.get(kind) is None:
                continue
            ts_ = {fid(x) for x in leaves_under(n, p)}
            flt = {rid2f[x] for x in n.get("limit_res", [])} if n.get("limit_res") else None
            ents = [(obs["start"] + s * G, x) for r, sl in led.items() if flt is None or r in flt
                    for s, e in sl.items() for t, x in e if t in ts_]
            check("task " + fid(p), kind, n[kind], ents)
    return bad


def alap_deadline(ap, p, sc, obs, edges=None, idx=None):
    """latest admissible end of a backward-scheduled task: its own end, else the minimum of the project end,
    the deadline of every enclosing container and (start - gap) of every successor (own edges and edges on an
    enclosing container); None when a successor is unscheduled or the edge kind is not claimed"""
    edges = edges or all_edges(ap)
    idx = idx or task_index(ap)
    n = idx[p]
    if n.get("end") is not None:
        return n["end"]
    dl = obs["end"]
    for k in range(len(p) - 1, 0, -1):
        e = idx[p[:k]].get("end")
        if e is not None:
            dl = min(dl, e)
    if any(e[2] for e in edges[p]):
        return None
    for u, es in edges.items():
        if "kids" in idx[u]:
            continue
        for (q, gap, onstart, gaplen) in es:
            if p[:len(q)] == q:
                if onstart or gaplen:
                    return None
                su = sc["tasks"].get(fid(u))
                if not su or not su["sched"] or su["start"] is None:
                    return None
                dl = min(dl, su["start"] - gap)
    return dl


# ----------------------------------------------------------------------------------------- C06
def dep_bound(ap, p, sc):
    """the dependency bound of a forward task: own start, else max(project start, inherited start, edges)"""
    idx = task_index(ap)
    n = idx[p]
    if n.get("start") is not None:
        return n["start"]
    b = ap["start"]
    for k in range(len(p) - 1, 0, -1):          # 'start' is inherited from the nearest dated container
        s = idx[p[:k]].get("start")
        if s is not None:
            b = max(b, s)
            break
    for (q, gap, onstart, gaplen) in all_edges(ap)[p]:
        ps = sc["tasks"].get(fid(q))
        if not ps or gaplen:
            return None
        if "kids" in idx[tuple(q)]:
            # a container begins with its first and ends with its last leaf - whatever date is reported for it
            below = [sc["tasks"].get(fid(r)) for r, m in idx.items() if len(r) > len(q) and r[:len(q)] == tuple(q) and "kids" not in m]
            if not below or any(x is None or not x["sched"] or x["start"] is None or x["end"] is None for x in below):
                return None
            ref = min(x["start"] for x in below) if onstart else max(x["end"] for x in below)
        else:
            ref = ps["start"] if onstart else ps["end"]
        if ref is None:
            return None
        b = max(b, ref + gap)
    return b


_EDGES = {}


def _edges(ap):
    import projects
    key = id(ap)
    if key not in _EDGES or _EDGES[key][0] is not ap:
        if len(_EDGES) > 2000:
            _EDGES.clear()
        _EDGES[key] = (ap, projects.all_edges(ap))
    return _EDGES[key][1]


def c06(ap, obs, sc):
    bad = []
    G = obs["G"]
    use = task_usage(sc)
    for p, n in task_index(ap).items():
        if "kids" in n:
            continue
        t = fid(p)
        st = sc["tasks"].get(t)
        if not st or not st["sched"]:
            continue
        if st["start"] is None or st["end"] is None:
            bad.append({"what": "a scheduled task has no start or no end", "task": t, "dates": st})
            continue
        if st["start"] > st["end"]:
            bad.append({"what": "start after end", "task": t, "start": st["start"], "end": st["end"]})
            continue
        if n.get("effort") is None:
            own = [n.get("start"), n.get("end")]
            if "milestone" not in n and None not in own:
                # a leaf given by its two dates alone is no milestone: it is reported with exactly these dates
                if (st["start"], st["end"]) != tuple(own):
                    bad.append({"what": "a leaf given by a start and an end alone is not reported with these dates", "task": t,
                                "written": own, "reported": [st["start"], st["end"]]})
            elif st["start"] != st["end"]:
                bad.append({"what": "a milestone has start != end", "task": t, "start": st["start"], "end": st["end"]})
            elif "milestone" in n and own.count(None) == 1 and not _edges(ap).get(tuple(p)) and not n.get("sched") \
                    and st["start"] != [d for d in own if d is not None][0]:
                # a milestone without dependencies that is given ONE date of its own (start or end) happens at that date
                bad.append({"what": "a milestone with a date of its own (and no dependencies) is not reported at that date", "task": t,
                            "written": {"start": n.get("start"), "end": n.get("end")}, "reported": st["start"]})
            elif forward_task(ap, n) and n.get("end") is None:
                b = dep_bound(ap, p, sc)
                if b is not None and st["start"] != b:
                    bad.append({"what": "a milestone is not at its dependency bound", "task": t, "date": st["start"], "bound": b})
            elif ap.get("alap") and n.get("start") is None and n.get("sched") is None:
                b = alap_deadline(ap, p, sc, obs)
                if b is not None and st["start"] != b:
                    bad.append({"what": "a backward-scheduled milestone is not at its bound (own end, else earliest successor start minus gap, enclosing deadlines, project end)",
                                "task": t, "date": st["start"], "bound": b})
            continue
        u = use.get(t)
        if not u:
            continue
        slots = {}
        for r, m in u.items():
            for s, x in m.items():
                slots[s] = max(slots.get(s, 0.0), x)
        # reported times are rounded to the second: a first/last slot holding less than one second
        # of work cannot be told from "no work" through the reported dates
        big = [k for k, v in slots.items() if v >= 1.0]
        if not big:
            continue
        first, last = min(big), max(big)
        if st["start"] == st["end"]:
            bad.append({"what": "a task with booked work has zero length", "task": t, "start": st["start"], "usage": u})
            continue
        s0, s1 = slot_of(obs, st["start"]), slot_of(obs, st["end"] - 1)
        # an end reported on a slot boundary may be the rounded end of less than one second of work in the
        # slot that begins there (and likewise a start on a boundary with sub-second work in the slot before)
        if (st["end"] - obs["start"]) % G == 0 and 0.0 < slots.get(slot_of(obs, st["end"]), 0.0) < 1.0:
            s1 = slot_of(obs, st["end"])
        if (st["start"] - obs["start"]) % G == 0 and 0.0 < slots.get(s0 - 1, 0.0) < 1.0:
            s0 = s0 - 1
        if first < s0 or last > s1:
            bad.append({"what": "work is booked outside [start, end]", "task": t, "start": st["start"], "end": st["end"],
                        "first_booked_slot_start": obs["start"] + first * G, "last_booked_slot_start": obs["start"] + last * G})
            continue
        if s0 not in slots or s1 not in slots:
            bad.append({"what": "[start, end] is not tight: no work booked in the slot of the start or of the end", "task": t,
                        "start": st["start"], "end": st["end"], "first_booked_slot_start": obs["start"] + first * G,
                        "last_booked_slot_start": obs["start"] + last * G})
            continue
        first, last = s0, s1
        if first == last:
            if st["end"] - st["start"] < slots[first] - 1.001:
                bad.append({"what": "[start, end] is shorter than the work booked in its slot", "task": t, "start": st["start"],
                            "end": st["end"], "booked_s": slots[first]})
        else:
            room_first = obs["start"] + (first + 1) * G - st["start"]
            room_last = st["end"] - (obs["start"] + last * G)
            if room_first < slots[first] - 1.001 or room_last < slots[last] - 1.001:
                bad.append({"what": "[start, end] cannot contain the work booked in its first / last slot", "task": t,
                            "start": st["start"], "end": st["end"], "first_s": slots[first], "last_s": slots[last]})
    return bad


# ----------------------------------------------------------------------------------------- C08
def limited(ap, tpath, rnode_path):
    tidx, ridx = task_index(ap), res_index(ap)
    for k in range(1, len(tpath) + 1):
        n = tidx[tpath[:k]]
        if n.get("dailymax") is not None or n.get("weeklymax") is not None:
            return True
    for k in range(1, len(rnode_path) + 1):
        n = ridx[rnode_path[:k]]
        if n.get("dailymax") is not None or n.get("weeklymax") is not None:
            return True
    return False


def c08(ap, obs, sc):
    bad = []
    if not aligned(ap):
        return bad
    G = obs["G"]
    led = ledger_of(sc)
    rpaths = {n["id"]: p for p, n in res_index(ap).items() if "kids" not in n}
    ridx = res_index(ap)
    edges = all_edges(ap)
    idx = task_index(ap)
    mixed = alap_related(ap) if not ap.get("alap") else set()
    for p, n in idx.items():
        if "kids" in n or n.get("effort") is None or n.get("alt") or len(n.get("alloc", [])) != 1 or n["alloc"][0] not in rpaths:
            continue
        t = fid(p)
        st = sc["tasks"].get(t)
        if not st or not st["sched"] or st["start"] is None or st["end"] is None:
            continue
        rp = rpaths[n["alloc"][0]]
        if limited(ap, p, rp):
            continue
        r = fid(rp)
        rn = ridx[rp]
        rl = led.get(r, {})
        if forward_task(ap, n):
            if p in mixed:
                continue
            b = dep_bound(ap, p, sc)
            if b is None or any(e[3] for e in edges[p]):
                continue
            lo, hi = slot_of(obs, b), slot_of(obs, st["end"] - 1)
            for s in range(max(lo, 0), hi + 1):
                ents = rl.get(s, [])
                if any(tt == t and x > TINY for tt, x in ents):
                    continue
                if any(x > TINY for tt, x in ents):
                    continue
                ts = obs["start"] + s * G
                if working(ap, rn, ts) and working(ap, rn, ts + G - 60):
                    bad.append({"what": "an ASAP task left a working, unbooked slot of its resource idle between its dependency bound and its end",
                                "task": t, "resource": r, "bound": b, "idle_slot_start": ts, "task_start": st["start"], "task_end": st["end"]})
                    break
        else:
            # ALAP: deadline = own end | min(earliest successor start - gap, deadlines of the enclosing containers, project end)
            dl = alap_deadline(ap, p, sc, obs, edges, idx)
            if dl is None:
                continue
            if st["end"] > dl:
                bad.append({"what": "an ALAP task ends after its deadline", "task": t, "end": st["end"], "deadline": dl})
                continue
            s = slot_of(obs, st["end"] - 1) + 1
            while obs["start"] + (s + 1) * G <= dl:
                ents = rl.get(s, [])
                ts = obs["start"] + s * G
                if not any(x > TINY for _, x in ents) and working(ap, rn, ts) and working(ap, rn, ts + G - 60):
                    bad.append({"what": "an ALAP task left a working, unbooked slot of its resource idle between its end and its deadline",
                                "task": t, "resource": r, "task_end": st["end"], "deadline": dl, "idle_slot_start": ts})
                    break
                s += 1
    return bad


def c08_team(ap, obs, sc):
    """C08 for teams and limits, as the theorem C08_asap_teams_and_limits states it: a slot between the bound and
    the end that a forward task did not take must have, in the final ledger, a member that does not work then, a
    member booked for another task, or a limit (of the member, its groups, the task or its containers) without room
    for the whole team in that period.  Whole-slot projects only (every ledger entry is a full slot)."""
    bad = []
    if ap.get("alap") or not aligned(ap):
        return bad
    G = obs["G"]
    led = ledger_of(sc)
    if any(abs(x - G) > 1e-3 for sl in led.values() for e in sl.values() for _, x in e if x > TINY):
        return bad                                      # sub-slot projects: not claimed here
    ridx, tidx = res_index(ap), task_index(ap)
    rpaths = {n["id"]: p for p, n in ridx.items() if "kids" not in n}
    rid_of = {fid(p): n["id"] for p, n in ridx.items() if "kids" not in n}
    edges = all_edges(ap)

    def period(kind, slot):
        day = (obs["start"] + slot * G) // 86400
        return day if kind == "dailymax" else (day + 3) // 7

    # the limits with their counting rule
    lims = []          # (kind, slots allowed, counts(task path, resource id))
    for p, n in ridx.items():
        for kind in ("dailymax", "weeklymax"):
            if n.get(kind) is not None:
                members = {x["id"] for x in ([n] if "kids" not in n else [m for _, m in walk(n["kids"]) if "kids" not in m])}
                lims.append((kind, int((n[kind] / 60.0) / (G / 3600.0)), lambda tp, rid, members=members: rid in members))
    for p, n in tidx.items():
        for kind in ("dailymax", "weeklymax"):
            if n.get(kind) is not None:
                only = set(n["limit_res"]) if n.get("limit_res") else None
                lims.append((kind, int((n[kind] / 60.0) / (G / 3600.0)),
                             lambda tp, rid, p=p, only=only: tp[:len(p)] == p and (only is None or rid in only)))
    tpath = {fid(p): p for p in tidx}
    events = [(tpath[t], rid_of[r], s) for r, sl in led.items() if r in rid_of for s, e in sl.items() for t, x in e if x > TINY and t in tpath]
    for p, n in tidx.items():
        if "kids" in n or n.get("effort") is None or n.get("alt") or n.get("sched") or n.get("end") is not None:
            continue
        team = n.get("alloc", [])
        if not team or any(x not in rpaths for x in team) or len(set(team)) != len(team):
            continue
        mine = [l for l in lims if any(l[2](p, x) for x in team)]
        if len(team) == 1 and not mine:
            continue                                    # the single unlimited resource is c08's case
        t = fid(p)
        st = sc["tasks"].get(t)
        if not st or not st["sched"] or st["start"] is None or st["end"] is None:
            continue
        b = dep_bound(ap, p, sc)
        if b is None or any(e[3] for e in edges[p]) or (b - obs["start"]) % G:
            continue
        for s in range(max(slot_of(obs, b), 0), slot_of(obs, st["end"] - 1) + 1):
            if all(any(tt == t and x > TINY for tt, x in led.get(fid(rpaths[x_]), {}).get(s, [])) for x_ in team):
                continue
            ts = obs["start"] + s * G
            why = None
            for x_ in team:
                rp = rpaths[x_]
                if not working(ap, ridx[rp], ts):
                    why = "off"
                    break
                if any(tt != t and xx > TINY for tt, xx in led.get(fid(rp), {}).get(s, [])):
                    why = "other"
                    break
            if why is None:
                for kind, value, counts in mine:
                    k = period(kind, s)
                    used = sum(1 for (tp, rid, s2) in events if counts(tp, rid) and period(kind, s2) == k)
                    need = sum(1 for x_ in team if counts(p, x_))
                    if used + need > value:
                        why = "limit"
                        break
            if why is None:
                bad.append({"what": "a team / limited task skipped a slot although every member works, none is booked for another task and every limit has room for the whole team",
                            "task": t, "team": team, "bound": b, "idle_slot_start": ts, "task_start": st["start"], "task_end": st["end"]})
                break
    return bad


# ----------------------------------------------------------------------------------------- C10
def c10(ap, obs, sc):
    bad = []
    idx = task_index(ap)
    for p, n in idx.items():
        if "kids" not in n:
            continue
        c = sc["tasks"].get(fid(p))
        kids = [sc["tasks"].get(fid(p + (k["id"],))) for k in n["kids"]]
        if c is None or any(k is None for k in kids):
            bad.append({"what": "task missing from the result", "task": fid(p)})
            continue
        allk = all(k["sched"] for k in kids)
        if c["sched"] != allk:
            bad.append({"what": "a container is scheduled exactly when all its children are - violated", "container": fid(p),
                        "container_scheduled": c["sched"], "children_scheduled": [k["sched"] for k in kids]})
            continue
        if c["sched"]:
            ss = [k["start"] for k in kids if k["start"] is not None]
            es = [k["end"] for k in kids if k["end"] is not None]
            if ss and es and (c["start"] != min(ss) or c["end"] != max(es)):
                bad.append({"what": "container dates are not the earliest child start / latest child end", "container": fid(p),
                            "container": [c["start"], c["end"]], "children": [[k["start"], k["end"]] for k in kids]})
    ridx = {fid(p): n for p, n in res_index(ap).items()}
    for r, slots in sc["ledger"].items():
        if r in ridx and "kids" in ridx[r] and any(slots.values()):
            bad.append({"what": "a resource group occupies resource time", "resource": r})
        for s, ents in slots.items():
            for t, x in ents:
                if fid(tuple(t.split("."))) and tuple(t.split(".")) in idx and "kids" in idx[tuple(t.split("."))]:
                    bad.append({"what": "a container occupies resource time", "task": t})
    return bad


# ----------------------------------------------------------------------------------------- C11
def c11(ap, res, size_hint=1):
    bad = []
    if "worker_error" in res:
        return [{"what": "the worker process died", "detail": res["worker_error"]}]
    if not res.get("ok"):
        if res.get("exc") in ("UnexpectedInput", "UnexpectedCharacters", "UnexpectedToken", "UnexpectedEOF", "VisitError",
                              "ParseError", "LarkError", "SyntaxParsingError", "SemanticError", "ParsingError"):
            return bad
        return [{"what": "scheduling raised an internal error / did not terminate in time", "exception": res.get("exc"),
                 "message": res.get("msg"), "where": res.get("where")}]
    obs = res["obs"]
    if obs.get("start") is None or obs.get("end") is None:
        return [{"what": "the project was accepted but has no start / end: the scheduling horizon is undefined", "start": obs.get("start"), "end": obs.get("end")}]
    # processor time of the worker, not wall-clock time: the latter triples when other checks run next to this one
    if res.get("cpu", res["wall"]) > 30 + 0.5 * size_hint:
        bad.append({"what": "scheduling took more processor time than the bound proportional to project size", "cpu_s": res.get("cpu"), "wall_s": res["wall"]})
    warn = "could not be scheduled" in res.get("stderr", "") or "Deadlock" in res.get("stderr", "")
    for sc in obs["scenarios"]:
        for t, st in sc["tasks"].items():
            if not st["leaf"]:
                continue
            if st["sched"]:
                if st["start"] is None or st["end"] is None or st["start"] > st["end"]:
                    bad.append({"what": "a scheduled task without start <= end", "task": t, "dates": st})
                elif st["start"] < obs["start"] or st["end"] > obs["end"] + obs["G"]:
                    bad.append({"what": "a scheduled task lies outside the scheduling horizon", "task": t, "dates": st,
                                "horizon": [obs["start"], obs["end"]]})
            elif not warn:
                bad.append({"what": "a task is left unscheduled without a warning", "task": t})
    return bad
