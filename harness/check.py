import argparse
import importlib
import os
import sys

sys.path.insert(0, os.path.dirname(os.path.abspath(__file__)))
from common import Ctx  # noqa: E402


def main():
    ap = argparse.ArgumentParser()
    ap.add_argument("prop")
    ap.add_argument("--tier", default=os.environ.get("VERIF_TIER", "quick"), choices=["quick", "thorough"])
    ap.add_argument("--replay", default=None)
    a = ap.parse_args()
    seed = int(os.environ.get("VERIF_SEED", "1"))
    ctx = Ctx(a.prop, a.tier, seed)
    ctx.replay = a.replay
    mod = importlib.import_module("props." + a.prop.lower())
    mod.run(ctx)


if __name__ == "__main__":
    main()
