"""Worker: parse + schedule one project text per input line with the implementation under test and dump
the observations the checks need (per scenario: task dates, the per-resource per-slot usage ledger,
placement order, warnings, exception class)."""
import io
import json
import os
import signal
import sys
import time
import contextlib
from datetime import datetime

E = datetime(1970, 1, 1)


def secs(d):
    if d is None:
        return None
    if not isinstance(d, datetime):
        return None
    return int((d.replace(tzinfo=None) - E).total_seconds())


if os.environ.get("VERIF_BLOCK_CYTHON") == "1":
    # make the optional extensions un-importable: the pure-Python fallbacks must take over
    import importlib.abc

    class _Block(importlib.abc.MetaPathFinder):
        def find_spec(self, name, path, target=None):
            if name.startswith("scriptplan._cython.") and name.endswith("_cy"):
                raise ImportError("blocked by the verification harness")
            return None
    sys.meta_path.insert(0, _Block())

from scriptplan.parser.tjp_parser import ProjectFileParser  # noqa: E402
import scriptplan.core.task_scenario as tsm  # noqa: E402

ORDER = []
_orig_schedule = tsm.TaskScenario.schedule


def _rec_schedule(self):
    already = self.scheduled
    r = _orig_schedule(self)
    if not already:
        ORDER.append([self.property.fullId, self.scenarioIdx, bool(r)])
    return r


tsm.TaskScenario.schedule = _rec_schedule


class Timeout(Exception):
    pass


def _alarm(signum, frame):
    raise Timeout()


def observe(p, want_ledger=True, scenarios=None):
    out = {"start": secs(p["start"]), "end": secs(p["end"]), "G": p.attributes.get("scheduleGranularity"),
           "scenarios": []}
    nsc = len(list(p.scenarios))
    for sc in range(nsc):
        if scenarios is not None and sc not in scenarios:
            continue
        tasks = {}
        for t in p.tasks:
            tasks[t.fullId] = {"leaf": bool(t.leaf()), "sched": bool(t.get("scheduled", sc)),
                               "start": secs(t.get("start", sc)), "end": secs(t.get("end", sc)),
                               "seq": t.get("seqno") if hasattr(t, "get") else None}
        if sc == 0:
            # resolved dependency targets of the tasks that carry dependencies of their own
            # (after 'precedes' was turned into a dependency of the other task)
            deps = {}
            for t in p.tasks:
                try:
                    own = t.provided("depends", 0)
                except Exception:
                    own = False
                if own:
                    ids = set()
                    for d in t.get("depends", 0) or []:
                        tgt = d.get("task") if isinstance(d, dict) else getattr(d, "task", d)
                        ids.add(getattr(tgt, "fullId", repr(tgt)))
                    deps[t.fullId] = sorted(ids)
            out["deps"] = deps
        led, used = {}, {}
        if want_ledger:
            for r in p.resources:
                rs = r.data[sc] if r.data else None
                if rs is None:
                    continue
                l = {}
                for idx, lst in rs.slotTaskUsage.items():
                    ent = [[t.fullId, round(s, 6)] for t, s in lst]
                    if ent:
                        l[str(idx)] = ent
                if l or not r.leaf():
                    led[r.fullId] = l
                u = {str(i): round(v, 6) for i, v in rs.slotSecondsUsed.items() if v}
                if u:
                    used[r.fullId] = u
        out["scenarios"].append({"idx": sc, "id": list(p.scenarios)[sc].id, "tasks": tasks, "ledger": led, "used": used})
    return out


def run(case):
    text = case["text"]
    res = {}
    err = io.StringIO()
    del ORDER[:]
    t0 = time.time()
    c0 = time.process_time()
    signal.signal(signal.SIGALRM, _alarm)
    signal.alarm(int(case.get("timeout", 60)))
    try:
        with contextlib.redirect_stderr(err):
            p = ProjectFileParser().parse(text)
        res["ok"] = True
        res["obs"] = observe(p, case.get("ledger", True))
        if case.get("reschedule"):
            with contextlib.redirect_stderr(err):
                p.schedule()
            res["obs2"] = observe(p, case.get("ledger", True))
    except Timeout:
        res["ok"] = False
        res["exc"] = "Timeout"
    except RecursionError as ex:
        res["ok"] = False
        res["exc"] = "RecursionError"
    except Exception as ex:  # noqa
        res["ok"] = False
        res["exc"] = type(ex).__name__
        res["msg"] = str(ex)[:300]
        import traceback
        tb = traceback.extract_tb(ex.__traceback__)
        res["where"] = [f"{os.path.basename(f.filename)}:{f.lineno}:{f.name}" for f in tb[-3:]]
    finally:
        signal.alarm(0)
    res["order"] = list(ORDER)
    res["wall"] = round(time.time() - t0, 3)
    res["cpu"] = round(time.process_time() - c0, 3)
    res["stderr"] = err.getvalue()[-600:]
    return res


if __name__ == "__main__":
    for line in sys.stdin:
        line = line.strip()
        if not line:
            continue
        try:
            out = run(json.loads(line))
        except BaseException as ex:  # noqa
            out = {"worker_error": f"{type(ex).__name__}: {ex}"}
        sys.stdout.write(json.dumps(out) + "\n")
        sys.stdout.flush()
