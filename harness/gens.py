"""Generators of abstract projects.  One PRNG (ctx.rng); families differ only in the feature
configuration, so a failing case replays from (family, index, seed)."""
from projects import MON

DST_ZONES = ["America/New_York", "Europe/Berlin", "Australia/Sydney", "America/Sao_Paulo"]
ODD_ZONES = ["Asia/Kolkata", "Asia/Kathmandu", "Pacific/Kiritimati", "Pacific/Pago_Pago", "Asia/Tokyo", "America/St_Johns"]

BASE = dict(
    G=[3600], nres=(1, 3), group=0.0, ntasks=(2, 7), nest=0.0, depth=2,
    efforts=[60, 120, 180, 240, 480], effs=["1.0"], team=0.0, alt=0.0,
    dep=0.5, gap=[0, 0, 60, 120, 240], onstart=0.1, precedes=0.1, rel=0.3, contdep=0.0,
    prio=0.5, pin=0.1, contstart=0.0, milestone=0.05,
    rleave=0.15, vac=0.15, gleave=0.1, hours=0.0, shift=0.0, tz=0.0, xmid=0.0,
    rdaily=0.0, rweekly=0.0, gdaily=0.0, tdaily=0.0, tweekly=0.0, tlimres=0.0,
    alap=0.0, taskalap=0.0, dupid=0.0, galloc=0.0, rbook=0.0, starts=[MON], dur=[("w", 4), ("w", 6), ("d", 20)], midstart=0.0,
)

FAMILIES = {
    "core": dict(rbook=0.2, nest=0.4, group=0.4, team=0.2, rdaily=0.3, rweekly=0.15, gdaily=0.2, tdaily=0.15, contdep=0.3, G=[3600, 3600, 1800]),
    "subslot": dict(G=[3600, 3600, 1800, 900, 300], efforts=[7, 10, 20, 25, 45, 50, 90, 100, 135, 200, 61, 119],
                    effs=["1.0", "1.0", "0.5", "0.7", "1.5", "2.0", "0.9", "1.3"], team=0.25, alt=0.15, nres=(1, 2), ntasks=(2, 8),
                    gap=[0, 0, 0, 10, 30, 45, 90], dep=0.6, rleave=0.05, vac=0.05, gleave=0.15, prio=0.6, rdaily=0.1),
    "hours": dict(overlaplines=0.3, phours=0.35, rbook=0.3, hours=0.6, shift=0.3, tz=0.5, xmid=0.4, rleave=0.3, vac=0.45, gleave=0.3, efforts=[120, 480, 960, 1440],
                  starts=[MON, 1741305600, 1761523200, 1743292800 - 86400 * 6], G=[3600, 3600, 1800, 900], dur=[("w", 4)], ntasks=(1, 4)),
    "limits": dict(rdaily=0.6, rweekly=0.5, gdaily=0.4, tdaily=0.4, tweekly=0.3, tlimres=0.3, group=0.6, nest=0.5, team=0.2,
                   efforts=[240, 480, 960, 1920, 2400], dur=[("w", 1), ("d", 13), ("w", 3)], ntasks=(1, 5),
                   starts=[MON, 1798761600, 1798761600 - 3 * 86400, 1609113600, 1735516800, 1736035200, MON + 13 * 3600], G=[3600, 3600, 1800, 900]),
    # limits met by tasks that start or end inside a slot (dependencies across resources, sub-slot efforts)
    "sublimits": dict(rdaily=0.7, rweekly=0.3, gdaily=0.5, tdaily=0.3, group=0.6, nres=(2, 3), dep=0.8, gap=[0, 0, 0, 30, 45],
                      efforts=[90, 150, 210, 45, 75, 330, 660, 840, 100], ntasks=(2, 5), dur=[("w", 2), ("w", 3)], G=[3600, 3600, 1800],
                      prio=0.5, team=0.15, rleave=0.0, vac=0.0, gleave=0.0),
    # horizons that cross a year end, with vacations / holidays / leaves that straddle 31 December
    "yearend": dict(rbook=0.3, starts=[1766361600, 1797811200, 1734912000], vac=0.3, straddle=0.7, gleave=0.4, rleave=0.4, efforts=[480, 960, 1920, 2400, 3000, 3600, 4800],
                    dur=[("w", 4), ("w", 5)], ntasks=(1, 4), nres=(1, 2), dep=0.4, rdaily=0.2, rweekly=0.2),
    # task trees in which several containers complete in the same pass (containers of dated milestones)
    "mstrees": dict(window=0.4, milestone=0.6, pin=0.7, nest=0.9, depth=3, ntasks=(4, 10), dep=0.2, contdep=0.1, dupid=0.2),
    # equal local ids in different containers, many 'precedes': edges between like-named tasks
    "dupprec": dict(topdup=0.5, dupid=0.95, nest=0.85, depth=2, precedes=0.6, dep=0.8, rel=0.5, ntasks=(4, 9), gap=[0, 0, 60, 120], contdep=0.1),
    # the dialect of Model/SubSlot.v: one resource per task, no limits; efforts, efficiencies and gaps arbitrary
    "sd": dict(G=[3600, 3600, 1800, 900], efforts=[7, 10, 20, 25, 45, 50, 90, 100, 135, 200, 61, 119, 60, 120],
               effs=["1.0", "1.0", "0.5", "0.7", "1.5", "2.0", "0.9", "1.3"], nres=(1, 3), ntasks=(2, 8),
               gap=[0, 0, 0, 10, 30, 45, 90, 60], dep=0.6, rleave=0.1, vac=0.05, gleave=0.1, prio=0.6, nest=0.3, contdep=0.2,
               milestone=0.1, pin=0.1, onstart=0.1, contstart=0.1),
    "sdteam": dict(G=[3600, 3600, 1800, 900], efforts=[7, 10, 20, 25, 45, 50, 90, 100, 135, 200, 61, 119, 60, 120],
                   effs=["1.0", "1.0", "0.5", "0.7", "1.5", "2.0", "0.9", "1.3"], nres=(2, 3), ntasks=(2, 8), team=0.45,
                   gap=[0, 0, 0, 10, 30, 45, 90, 60], dep=0.6, rleave=0.1, vac=0.05, gleave=0.1, prio=0.6, nest=0.3, contdep=0.2,
                   milestone=0.1, pin=0.1, onstart=0.1, contstart=0.1),
    # teams inside containers that carry limits, with single-resource siblings eating odd parts of the budget
    "teamlimits": dict(team=0.55, nest=0.85, depth=2, tdaily=0.55, tweekly=0.2, rdaily=0.15, gdaily=0.2, group=0.4, nres=(2, 3),
                       ntasks=(3, 7), efforts=[60, 120, 180, 300, 360, 420], dur=[("w", 3), ("w", 4)], prio=0.7, dep=0.2),
    # blocking bookings in every duration unit, also months
    "bookings": dict(rleave=0.5, monthleave=0.7, rbook=0.95, book_units=[(30.4167 * 1440, "1m"), (2 * 30.4167 * 1440, "2m"), (10080, "1w"), (1440, "1d"), (360, "6h")],
                     efforts=[480, 960, 1920, 2400, 3000], dur=[("w", 4), ("w", 8)], ntasks=(1, 4), nres=(1, 2), dep=0.4, vac=0.1),
    # leaves, vacations and blocking bookings that end inside a slot, in the hours where the work is
    "midslot": dict(midslot=0.8, rbook=0.5, book_units=[(90, "90min"), (30, "30min"), (150, "150min"), (45, "45min"), (210, "210min")],
                    efforts=[60, 120, 180, 240, 480, 90], ntasks=(1, 3), nres=(1, 2), dep=0.3, prio=0.5, rleave=0.0, vac=0.0, gleave=0.0,
                    G=[3600, 3600, 1800], dur=[("w", 2)], midvac=0.4),
    "deps": dict(topdup=0.3, dupid=0.4, nest=0.6, depth=3, dep=0.8, precedes=0.3, rel=0.5, contdep=0.5, contstart=0.3, onstart=0.25, pin=0.15,
                 gap=[0, 60, 120, 480, 1440, 90, 30, 2880, 10080], ntasks=(3, 9), hours=0.2),
    "coredeps": dict(dupid=0.3, nest=0.6, depth=3, dep=0.8, precedes=0.3, rel=0.5, contdep=0.5, contstart=0.3, onstart=0.25, pin=0.15,
                     gap=[0, 60, 120, 480, 1440, 2880, 10080], ntasks=(3, 9), rdaily=0.2, team=0.2, G=[3600, 3600, 1800]),
    "alap": dict(alap=1.0, dupid=0.5, nest=0.5, dep=0.7, gap=[0, 0, 60, 120, 480, 1440], onstart=0.0, precedes=0.1, pin=0.0, milestone=0.1,
                 efforts=[60, 120, 240, 480, 90, 45], effs=["1.0", "1.0", "0.5", "2.0"], contdep=0.2, ntasks=(2, 6)),
    # backward projects inside the dialect of Model/Alap.v (whole-slot efforts and gaps, no on-start edges)
    "alapcore": dict(alap=1.0, dupid=0.3, nest=0.5, dep=0.7, gap=[0, 0, 60, 120, 480], onstart=0.0, precedes=0.1, pin=0.0,
                     milestone=0.1, efforts=[60, 120, 240, 480], contdep=0.2, ntasks=(2, 6), team=0.2,
                     rdaily=0.3, rweekly=0.15, gdaily=0.2, tdaily=0.15, group=0.4, hours=0.2, rleave=0.2, G=[3600, 3600, 1800]),
    # backward projects that begin at a working instant and are short enough for the work to be pushed back to slot 0
    "alapfull": dict(alap=1.0, midstart=0.8, dur=[("d", 1), ("d", 2), ("d", 3), ("d", 5)], nres=(1, 2), ntasks=(2, 5), efforts=[60, 120, 180, 240, 480, 90, 45],
                     dep=0.3, gap=[0, 0, 60], onstart=0.0, precedes=0.1, pin=0.0, milestone=0.05, prio=0.7, rleave=0.0, vac=0.0, gleave=0.0),
    # priorities declared on outer containers only and inherited through several levels, contention on few resources
    "priotrees": dict(nest=0.9, depth=4, ntasks=(4, 9), nres=(1, 2), prio=0.0, contprio=0.8, dep=0.15, efforts=[60, 120, 240, 480], rleave=0.0, vac=0.0, gleave=0.0),
    # several alternatives per allocation on resources of differing availability
    "alts": dict(nres=(3, 4), alt=0.85, alt2=True, rleave=0.5, rbook=0.4, ntasks=(2, 6), prio=0.7, dep=0.2, efforts=[240, 480, 960, 120], vac=0.0, gleave=0.0),
    # working hours declared on a resource group and inherited by its members
    "grouphours": dict(group=1.0, ghours=1.0, gnest=0.4, nres=(2, 3), hours=0.25, shift=0.1, ntasks=(2, 5), efforts=[120, 480, 960], dep=0.3, xmid=0.2,
                       rleave=0.1, vac=0.1, gleave=0.0),
    # dated containers above leaves without dates of their own (scenario-specific starts on the leaves: C16)
    "scentrees": dict(nest=0.9, depth=2, contstart=0.8, ntasks=(3, 7), pin=0.0, dep=0.2, nres=(1, 2), efforts=[60, 120, 240, 480], rleave=0.0, vac=0.0, gleave=0.0),
    # backward scheduling (project- and task-level) of allocations with an alternative of similar speed
    "alapalt": dict(alap=1.0, alt=0.7, nres=(2, 3), effs=["1.0", "1.0", "0.8", "0.9"], efforts=[120, 240, 330, 480, 90, 200], ntasks=(2, 5), dep=0.3,
                    onstart=0.0, pin=0.0, prio=0.6, gap=[0, 0, 60], milestone=0.0),
    "taskalapalt": dict(taskalap=0.7, alt=0.7, nres=(2, 3), effs=["1.0", "0.8", "0.9"], efforts=[120, 240, 330, 480, 90], ntasks=(2, 5), dep=0.2, onstart=0.0,
                        pin=0.0, milestone=0.0),
    # backward projects with dependencies ON containers that contain containers (the successor binds every leaf below)
    "alapnest": dict(alap=1.0, nest=0.9, depth=3, contdep=0.9, dep=0.6, gap=[0, 0, 60, 480, 1440], onstart=0.0, precedes=0.2, pin=0.0, milestone=0.05,
                     efforts=[60, 120, 240, 480], ntasks=(4, 9), nres=(1, 3), rleave=0.0, vac=0.0, gleave=0.0),
    # chains in which edges also carry a maximum gap (maxgapduration) - a best-effort delay of the predecessor; the lower
    # bounds of C04 hold whatever it does
    "maxgapdeps": dict(maxgap=0.5, dep=0.85, nest=0.4, contdep=0.3, nres=(2, 3), ntasks=(3, 7), gap=[0, 0, 60, 120], onstart=0.1, rbook=0.4, rleave=0.2,
                       efforts=[120, 240, 480, 960], prio=0.5),
    # backward projects with more than ten tasks: full ids that are string prefixes of one another (t1 / t10 ... t13)
    "alapmany": dict(alap=1.0, nest=0.15, ntasks=(11, 14), dep=0.6, gap=[0, 0, 60, 480], onstart=0.0, precedes=0.2, pin=0.0, milestone=0.05,
                     efforts=[60, 120, 240, 480], nres=(1, 3), rleave=0.0, vac=0.0, gleave=0.0),
    # gaps in days, some as calendar time (gapduration 1d = 24 h) and some as working time (gaplength 1d = 8 h)
    "gaplenmix": dict(gaplenmix=0.4, dep=0.9, gap=[1440, 1440, 2880, 0], ntasks=(4, 8), nres=(1, 3), nest=0.3, contdep=0.2, onstart=0.05,
                      efforts=[120, 240, 480], prio=0.5, rleave=0.0, vac=0.0, gleave=0.0),
    # shutdowns that straddle the project start or end, work right at the start (ASAP) and at the end (ALAP)
    "gstraddle": dict(gstraddle=0.9, gleave=0.0, vac=0.0, rleave=0.0, ntasks=(1, 4), nres=(1, 2), efforts=[240, 480, 960], dep=0.3, prio=0.5,
                      taskalap=0.3, dur=[("w", 3), ("w", 4)]),
    # forward tasks that carry a deadline ('end') next to their work
    "fwdend": dict(fwdend=0.6, ntasks=(2, 6), nres=(1, 2), dep=0.5, efforts=[60, 120, 240, 480, 90], gap=[0, 0, 60], prio=0.5, nest=0.3),
    # several sub-slot backward tasks before one deadline on one resource
    "alapsub": dict(alap=1.0, nres=(1, 1), ntasks=(3, 6), efforts=[20, 30, 45, 60, 90, 100, 150], dep=0.15, gap=[0, 0, 30], onstart=0.0, pin=0.0,
                    milestone=0.0, prio=0.9, rleave=0.0, vac=0.0, gleave=0.0, dur=[("d", 3), ("d", 5)]),
    "taskalap": dict(taskalap=0.5, dep=0.4, onstart=0.0, pin=0.0, efforts=[60, 120, 240, 90], ntasks=(1, 5), milestone=0.0),
    "trees": dict(topdup=0.3, group=0.5, galloc=0.2, dupid=0.3, contstart=0.3, nest=0.8, depth=4, ntasks=(3, 10), dep=0.3, milestone=0.15, pin=0.15, contdep=0.3, unsched=0.3),
    # nested containers with windows of their own and leaves that cannot be scheduled
    # containers with a window of their own whose last child ends earlier, and tasks that depend on such a container
    # calendars of their own on resources of projects that begin at a time of day (06:00, 13:00, ...)
    "hoursmid": dict(midstart=0.9, hours=0.8, shift=0.3, tz=0.2, xmid=0.3, rleave=0.2, vac=0.2, efforts=[120, 480, 960, 1440], ntasks=(2, 5), nres=(1, 3),
                     G=[3600, 3600, 1800, 900], dur=[("w", 2), ("w", 4)]),
    "windeps": dict(contwindow=0.7, contstart=0.1, nest=0.85, depth=3, ntasks=(3, 8), dep=0.3, contdep=0.7, milestone=0.05, pin=0.05, nres=(1, 3)),
    "wintrees": dict(contwindow=0.5, contstart=0.2, nest=0.85, depth=3, ntasks=(3, 8), dep=0.2, milestone=0.1, pin=0.1, unsched=0.8, nres=(1, 2)),
}


def alapslot0(ctx, n):
    """backward projects that begin at a working instant and whose work fills the first day exactly: the task of
    lowest priority - one slot or less of work - is pushed back into slot 0 of the project"""
    rng = ctx.rng
    out = []
    for i in range(n):
        G = rng.choice([3600, 3600, 1800])
        slots = 8 * 3600 // G                                    # Monday 09:00-17:00
        last = rng.choice([G // 60, G // 60, G // 120, (G // 60) * 3 // 4])
        rest = slots - 1
        parts = []
        while rest > 0:
            k = rng.randint(1, rest)
            parts.append(k)
            rest -= k
        tasks = [{"id": f"t{j}", "effort": k * (G // 60), "alloc": ["r0"], "prio": 900 - 50 * j} for j, k in enumerate(parts[:6])]
        tasks.append({"id": "low", "effort": last, "alloc": ["r0"], "prio": 50})
        for t in tasks:                                          # one deadline for all: Monday 17:00
            t["end"] = MON + 17 * 3600
        rng.shuffle(tasks)
        out.append({"start": MON + 9 * 3600, "dur": ("d", rng.choice([1, 1, 2])), "G": G, "tz": "Etc/UTC", "vac": [], "gleaves": [], "shifts": {},
                    "alap": True, "resources": [{"id": "r0", "eff": "1.0", "leaves": []}], "tasks": tasks, "_family": "alapslot0", "_i": i})
    return out


SPECIAL = {"alapslot0": alapslot0}


def family(ctx, name, n):
    if name in SPECIAL:
        return SPECIAL[name](ctx, n)
    cfg = dict(BASE)
    cfg.update(FAMILIES[name])
    out = []
    for i in range(n):
        ap = gen(ctx.rng, cfg)
        ap["_family"] = name
        ap["_i"] = i
        out.append(ap)
    return out


def hours_table(rng, cfg, G):
    gm = max(1, G // 60)
    tbl = []
    if cfg.get("_overlap"):
        # a morning block on every working day and an afternoon block on some of them only: written (render_hours,
        # mode "overlap") as one line naming all the days and further lines naming single days again
        days = sorted(rng.sample(range(7), rng.randint(3, 6)))
        a = rng.choice([7, 8, 9])
        A = ((a, 0), (a + rng.choice([3, 4]), 0))
        B = ((13, 0), (rng.choice([15, 16, 17]), 0))
        some = set(rng.sample(days, rng.randint(1, len(days) - 1)))
        return [(d, [A] + ([B] if d in some else [])) for d in days]
    days = sorted(rng.sample(range(7), rng.randint(3, 7)))
    shared = {}                                   # several days often share one interval list (day ranges / lists)
    npat = rng.choice([1, 2, 2, 7])
    for d in days:
        key = rng.randrange(npat)
        if key in shared:
            tbl.append((d, list(shared[key])))
            continue
        ivs = []
        if rng.random() < cfg["xmid"]:
            a = rng.choice([18, 20, 22, 23])
            b = rng.choice([2, 4, 6])
            ivs.append(((a, 0), (b, 0)))
        else:
            a = rng.choice([6, 8, 9, 13])
            ln = rng.choice([2, 3, 4, 8])
            ivs.append(((a, 0), (min(24, a + ln), 0)))
            if rng.random() < 0.4 and a + ln + 1 < 22:
                a2 = a + ln + 1
                ivs.append(((a2, 0), (min(24, a2 + rng.choice([1, 2, 3])), 0)))
            if rng.random() < 0.2:
                ivs.reverse()
        if gm < 60 and rng.random() < 0.5:
            (a, _), (b, _) = ivs[0]
            ivs[0] = ((a, gm % 60 if gm < 60 else 0), (b, 0))
        if (ivs[0][1][0], ivs[0][1][1]) == (24, 0) and ivs[0][0][0] >= 24:
            continue
        shared[key] = list(ivs)
        tbl.append((d, ivs))
    return tbl


def gen(rng, cfg):
    if cfg.get("overlaplines"):
        cfg = dict(cfg, _overlap=rng.random() < cfg["overlaplines"])
    G = rng.choice(cfg["G"])
    start = rng.choice(cfg["starts"])
    if rng.random() < cfg["midstart"]:
        start += rng.choice([9, 13, 17]) * 3600
    ap = {"start": start, "dur": rng.choice(cfg["dur"]), "G": G, "tz": "Etc/UTC", "vac": [], "gleaves": [], "shifts": {},
          "resources": [], "tasks": []}
    if rng.random() < cfg["alap"]:
        ap["alap"] = True
    if cfg["hours"] or cfg["shift"]:
        ap["dayranges"] = rng.random() < 0.5        # written as day ranges / lists instead of one directive per day
        if cfg.get("_overlap"):
            ap["dayranges"] = "overlap"             # shared intervals on one line, the rest per day: lines overlap in days
    day0 = start - start % 86400
    if rng.random() < cfg.get("phours", 0.0):
        ap["phours"] = hours_table(rng, cfg, G)      # working hours in the project header
    if rng.random() < cfg["vac"]:
        a = day0 + rng.randint(0, 9) * 86400
        ap["vac"].append((a, None if rng.random() < 0.5 else a + rng.randint(1, 3) * 86400))
    if ap["vac"] and rng.random() < 0.5:
        # a second and third holiday, written out of chronological order
        for _ in range(rng.randint(1, 2)):
            a = day0 + rng.randint(0, 12) * 86400
            ap["vac"].insert(rng.randrange(len(ap["vac"]) + 1), (a, None if rng.random() < 0.6 else a + rng.randint(1, 2) * 86400))
    if rng.random() < cfg.get("midvac", 0.0):
        a = day0 + rng.randint(0, 2) * 86400 + rng.choice([9, 10, 13]) * 3600
        ap["vac"].append((a, a + rng.choice([1, 3, 5]) * 1800))
    if rng.random() < cfg.get("straddle", 0.0):
        # (year-end starts are Mondays nine days before 31 December) a vacation that begins in the old year
        # and ends in the new one
        a = day0 + (7 + rng.randint(0, 2)) * 86400
        ap["vac"].append((a, a + rng.randint(3, 6) * 86400))
    if rng.random() < cfg.get("gstraddle", 0.0):
        # a company shutdown that begins before the project start and ends inside, or begins inside and runs past the end
        hor_ = {"w": 7, "d": 1}[ap["dur"][0]] * ap["dur"][1]
        if rng.random() < 0.5:
            ap["gleaves"].append((day0 - rng.randint(2, 10) * 86400, day0 + rng.randint(1, 3) * 86400))
        else:
            ap["gleaves"].append((day0 + (hor_ - rng.randint(1, 4)) * 86400, day0 + (hor_ + rng.randint(2, 9)) * 86400))
        ap["gleave_kind"] = rng.choice(["holiday", "project", "sick", "special", "annual"])
    elif rng.random() < cfg["gleave"]:
        a = day0 + rng.randint(0, 6) * 86400 + rng.choice([0, 11 * 3600, 13 * 3600])
        ap["gleaves"].append((a, None if a % 86400 == 0 and rng.random() < 0.5 else a + rng.choice([2 * 3600, 86400, 4 * 3600])))
        # every leave type blocks; "project" is stored with type index 0
        ap["gleave_kind"] = rng.choice(["holiday", "project", "project", "sick", "special", "unpaid", "annual", "unemployed"])
    # ---- resources
    nres = rng.randint(*cfg["nres"])
    leaves_r = []
    nshift = 0
    for i in range(nres):
        r = {"id": f"r{i}", "eff": rng.choice(cfg["effs"]), "leaves": []}
        if rng.random() < cfg["shift"]:
            sid = f"s{nshift}"
            nshift += 1
            ap["shifts"][sid] = hours_table(rng, cfg, G)
            r["shift"] = sid
        elif rng.random() < cfg["hours"]:
            r["hours"] = hours_table(rng, cfg, G)
        if (r.get("shift") or r.get("hours") is not None) and rng.random() < cfg["tz"]:
            r["tz"] = rng.choice(DST_ZONES + ODD_ZONES)
        if rng.random() < cfg["rleave"]:
            a = day0 + rng.randint(0, 8) * 86400
            kind = rng.choice(["annual", "sick", "vacation", "special"])
            if rng.random() < cfg.get("monthleave", 0.0):
                # a leave of one or two calendar months: it ends on the same day of the month on which it begins
                import datetime as _dt
                d0 = _dt.datetime(1970, 1, 1) + _dt.timedelta(seconds=a)
                k = rng.choice([1, 1, 2])
                y, m = d0.year + (d0.month - 1 + k) // 12, (d0.month - 1 + k) % 12 + 1
                try:
                    d1 = d0.replace(year=y, month=m)
                    r["leaves"].append((a, int((d1 - _dt.datetime(1970, 1, 1)).total_seconds()), kind))
                except ValueError:
                    r["leaves"].append((a, a + 30 * 86400, kind))
            else:
                r["leaves"].append((a, None if rng.random() < 0.5 else a + rng.randint(1, 2) * 86400, kind))
        if rng.random() < cfg.get("midslot", 0.0):
            # a leave that ends (and may begin) inside a slot, early in the project where the work is
            a = day0 + rng.randint(0, 2) * 86400 + rng.choice([9, 9, 10, 13]) * 3600 + rng.choice([0, 0, 900, 1800])
            r["leaves"].append((a, a + rng.choice([1, 3, 5, 9]) * 1800 + rng.choice([0, 0, 900]), rng.choice(["annual", "sick", "special", "vacation"])))
        if rng.random() < cfg["rbook"]:
            # a blocking booking of the resource: calendar time from a date, in every unit the grammar knows
            a = day0 + rng.randint(0, 9) * 86400 + rng.choice([0, 9, 11, 13]) * 3600
            mins, txt = rng.choice(cfg.get("book_units") or [(120, "2h"), (360, "6h"), (90, "90min"), (1440, "1d"), (2880, "2d"), (10080, "1w"), (20160, "2w"), (30.4167 * 1440, "1m"),
                                                               (150, "2.5h"), (270, "4.5h"), (720, "0.5d"), (2160, "1.5d")])
            r["bookings"] = [(a, mins, txt)]
        if rng.random() < cfg["rdaily"]:
            r["dailymax"] = rng.choice([60, 120, 240, 360]) if G <= 3600 else 120
            if G <= 1800 and rng.random() < 0.4:
                r["dailymax"] = rng.choice([30, 90, 150, 210])          # limits that are no whole number of hours
        if rng.random() < cfg["rweekly"]:
            r["weeklymax"] = rng.choice([240, 480, 960, 1200])
        leaves_r.append(r)
    if nres >= 1 and rng.random() < cfg["group"]:
        g = {"id": "grp", "kids": leaves_r}
        if rng.random() < cfg.get("ghours", 0.0):
            # working hours written on the group (inline or as a shift) and inherited by the members without own hours
            if rng.random() < 0.5:
                g["hours"] = hours_table(rng, cfg, G)
            else:
                sid = f"s{nshift}"
                nshift += 1
                ap["shifts"][sid] = hours_table(rng, cfg, G)
                g["shift"] = sid
        if rng.random() < cfg["gdaily"] / max(cfg["group"], 0.01):
            g["dailymax"] = rng.choice([120, 180, 360, 480])
        if len(leaves_r) >= 2 and rng.random() < cfg.get("gnest", 0.0):
            # departments inside the group: what the group declares reaches members two and three levels down
            k = rng.randint(1, len(leaves_r) - 1)
            inner = {"id": "dept", "kids": leaves_r[k:]}
            if len(inner["kids"]) >= 2 and rng.random() < 0.5:
                inner["kids"] = [inner["kids"][0], {"id": "team", "kids": inner["kids"][1:]}]
            g["kids"] = leaves_r[:k] + [inner]
        ap["resources"] = [g]
    else:
        ap["resources"] = leaves_r
    rids = [r["id"] for r in leaves_r]
    grouped = ap["resources"] and "kids" in ap["resources"][0]
    # ---- tasks
    ntasks = rng.randint(*cfg["ntasks"])
    leaves_t = []          # (path, node)
    conts = []             # (path, node)
    counter = [0]

    local = {}

    def mkleaf(path_prefix):
        i = counter[0]
        counter[0] += 1
        n = {"id": f"t{i}"}
        if (path_prefix and rng.random() < cfg["dupid"]) or (not path_prefix and "topdup" in cfg and rng.random() < cfg["topdup"]):
            # local ids may repeat in different containers (siblings stay unique)
            k = local.get(path_prefix, 0)
            local[path_prefix] = k + 1
            n["id"] = f"w{k}"
        if rng.random() < cfg["milestone"]:
            n["milestone"] = True
        else:
            n["effort"] = rng.choice(cfg["efforts"])
            k = 2 if (len(rids) >= 2 and rng.random() < cfg["team"]) else 1
            n["alloc"] = rng.sample(rids, k)
            rest = [x for x in rids if x not in n["alloc"]]
            if rest and k == 1 and rng.random() < cfg["alt"]:
                n["alt"] = [rng.choice(rest)]
                if len(rest) >= 2 and cfg.get("alt2"):
                    n["alt"] = rng.sample(rest, rng.randint(2, min(3, len(rest))))     # several alternatives
            if grouped and rng.random() < cfg["galloc"]:
                # a resource group named in an allocation (alone, before or after a worker)
                n["alloc"] = rng.choice([["grp"], ["grp", rng.choice(rids)], [rng.choice(rids), "grp"]])
                n.pop("alt", None)
        if rng.random() < cfg["prio"]:
            n["prio"] = rng.choice([100, 300, 500, 700, 900])
        return n

    def build(prefix, depth, budget):
        nodes = []
        while budget[0] > 0:
            if depth < cfg["depth"] and rng.random() < cfg["nest"] and budget[0] >= 1:
                c = {"id": f"c{len(conts)}", "kids": []}
                p = prefix + (c["id"],)
                conts.append((p, c))
                if rng.random() < (cfg.get("contprio", 0.3) if depth == 0 or "contprio" not in cfg else 0.1):
                    c["prio"] = rng.choice([200, 800]) if "contprio" not in cfg else rng.choice([200, 400, 600, 800, 900])
                sub = [min(budget[0], rng.randint(1, 3))]
                budget[0] -= sub[0]
                c["kids"] = build(p, depth + 1, sub)
                budget[0] += sub[0]
                if c["kids"]:
                    nodes.append(c)
            else:
                n = mkleaf(prefix)
                budget[0] -= 1
                leaves_t.append((prefix + (n["id"],), n))
                nodes.append(n)
            if depth > 0 and rng.random() < 0.35:
                break
        return nodes
    ap["tasks"] = build((), 0, [ntasks])
    allnodes = leaves_t + conts
    order = {p: i for i, (p, _) in enumerate(leaves_t)}
    # ---- dependencies (acyclic: only to earlier leaves / containers made only of earlier leaves)
    def earlier_targets(p):
        me = order.get(p)
        if me is None:     # container: its first leaf
            firsts = [order[q] for q, _ in leaves_t if q[:len(p)] == p]
            me = min(firsts) if firsts else 0
        t = [q for q, _ in leaves_t if order[q] < me and q[:len(p)] != p]
        if rng.random() < cfg["contdep"]:
            for q, c in conts:
                ls = [order[x] for x, _ in leaves_t if x[:len(q)] == q]
                if ls and max(ls) < me and p[:len(q)] != q:
                    t.append(q)
        return t

    def mkdep(p):
        ts = earlier_targets(p)
        if not ts:
            return None
        d = {"to": list(rng.choice(ts)), "style": "rel" if rng.random() < cfg["rel"] else "abs"}
        g = rng.choice(cfg["gap"])
        if g:
            d["gap"] = g
        if rng.random() < cfg["onstart"]:
            d["onstart"] = True
        elif rng.random() < 0.1:
            d["onend"] = True            # the default kind, written out
        if cfg.get("gaplenmix") and rng.random() < cfg["gaplenmix"]:
            d.pop("gap", None)
            d["gaplen"] = 480 * rng.choice([1, 1, 2])          # working time, written "1d" / "2d"
            d["gaplen_days"] = True
        if cfg.get("maxgap") and rng.random() < cfg["maxgap"]:
            d["maxgap"] = rng.choice([60, 120, 480, 1440])     # a maximum gap to the predecessor as well
        return d
    for p, n in leaves_t + conts:
        if rng.random() < (cfg["dep"] if "kids" not in n else cfg["contdep"]):
            ds = [mkdep(p) for _ in range(rng.choice([1, 1, 2]))]
            ds = [d for d in ds if d]
            seen, uniq = set(), []
            for d in ds:
                if tuple(d["to"]) not in seen:
                    seen.add(tuple(d["to"]))
                    uniq.append(d)
            if uniq:
                n["deps"] = uniq
    # precedes: written on the earlier task, pointing at a later leaf
    for p, n in leaves_t:
        if rng.random() < cfg["precedes"]:
            later = [q for q, _ in leaves_t if order[q] > order[p]]
            if later:
                q = rng.choice(later)
                d = {"to": list(q), "style": "rel" if rng.random() < cfg["rel"] else "abs"}
                if rng.random() < 0.4:
                    d["gap"] = rng.choice([60, 120])
                n.setdefault("precedes", []).append(d)
    # pinned starts, dated containers
    hor = {"w": 7, "d": 1}[ap["dur"][0]] * ap["dur"][1]
    for p, n in leaves_t:
        if rng.random() < cfg["pin"] and not ap.get("alap"):
            n["start"] = day0 + rng.randint(0, max(1, hor // 2)) * 86400 + rng.choice([9, 10, 14]) * 3600
    for p, c in conts:
        if rng.random() < cfg["contstart"] and not ap.get("alap"):
            c["start"] = day0 + rng.randint(0, 5) * 86400
    for p, n in leaves_t:
        # a forward task with work and an 'end' of its own: a deadline, not a date to report
        if "effort" in n and rng.random() < cfg.get("fwdend", 0.0) and not ap.get("alap") and not n.get("sched"):
            n["end"] = day0 + rng.randint(max(2, hor // 2), hor + 5) * 86400 + rng.choice([0, 12, 17]) * 3600
    for p, n in leaves_t:
        # a leaf given by its dates alone: start and end, no effort (placed by the pre-pass like a dated milestone)
        if "milestone" in n and rng.random() < cfg.get("window", 0.0) and not ap.get("alap"):
            del n["milestone"]
            n["start"] = day0 + rng.randint(0, max(1, hor // 2)) * 86400 + rng.choice([0, 9, 14]) * 3600
            n["end"] = n["start"] + rng.randint(1, 6) * 86400
    for p, c in conts:
        # a container with a window of its own (start and end written on it)
        if rng.random() < cfg.get("contwindow", 0.0) and not ap.get("alap"):
            c["start"] = day0 + rng.randint(0, 4) * 86400
            c["end"] = c["start"] + rng.randint(3, 10) * 86400
    # task / container limits
    for p, n in allnodes:
        if "milestone" in n:
            continue
        if rng.random() < cfg["tdaily"]:
            n["dailymax"] = rng.choice([60, 120, 240])
            if rng.random() < cfg["tlimres"]:
                n["limit_res"] = [rng.choice(rids)]
        elif rng.random() < cfg["tweekly"]:
            n["weeklymax"] = rng.choice([240, 480, 600])
    # ALAP: deadlines on sinks and enclosing containers
    if ap.get("alap"):
        has_succ = set()
        for p, n in allnodes:
            for d in n.get("deps", []) or []:
                has_succ.add(tuple(d["to"]))
            for d in n.get("precedes", []) or []:
                has_succ.add(p)
        endday = day0 + (hor - rng.randint(1, 5)) * 86400
        for p, n in leaves_t:
            covered = p in has_succ or any(p[:k] in has_succ for k in range(1, len(p)))
            if not covered and rng.random() < 0.6:
                n["end"] = endday - rng.randint(0, 3) * 86400 + 17 * 3600
        for p, c in conts:
            if rng.random() < 0.35 and p not in has_succ:
                # container deadlines earlier than the deadlines of tasks outside: a child whose successor
                # lies outside the container is then bounded by the container, not by the successor
                c["end"] = endday - rng.choice([0, 0, 2, 4, 7, 9]) * 86400 + 17 * 3600
    if cfg["taskalap"]:
        has_succ = set()
        for p, n in allnodes:
            for d in n.get("deps", []) or []:
                has_succ.add(tuple(d["to"]))
        for p, n in leaves_t:
            if p not in has_succ and "effort" in n and rng.random() < cfg["taskalap"] and not n.get("start"):
                n["sched"] = "alap"
                n["end"] = day0 + rng.randint(5, 12) * 86400 + rng.choice([12, 17]) * 3600
    if cfg.get("unsched"):
        # a resource that never works makes its tasks unschedulable
        if rng.random() < cfg["unsched"]:
            ap["resources"].append({"id": "idle", "eff": "1.0", "leaves": [(day0, day0 + 500 * 86400, "annual")]})
            for p, n in leaves_t:
                if "effort" in n and rng.random() < 0.25:
                    n["alloc"] = ["idle"]
                    n.pop("alt", None)
    return ap


def small_universe(ctx, sample=None):
    """every project of a small bounded universe (C07): 3 leaf tasks, 2 resources, efforts of 1 or 2 slots,
    every dependency subset, two priorities, an optional daily limit and an optional leave"""
    import itertools
    out = []
    edges = [(0, 1), (0, 2), (1, 2)]
    combos = itertools.product(itertools.product((60, 120), repeat=3), itertools.product((0, 1), repeat=3),
                               itertools.product((None, 800), repeat=3), itertools.product((0, 1), repeat=3),
                               (None, 60), (False, True))
    combos = list(combos)
    if sample is not None:
        combos = ctx.rng.sample(combos, min(sample, len(combos)))
    for i, (eff, dep, prio, alloc, lim, leave) in enumerate(combos):
        ap = {"start": MON, "dur": ("w", 2), "G": 3600, "tz": "Etc/UTC", "vac": [], "gleaves": [], "shifts": {},
              "resources": [{"id": "r0", "eff": "1.0", "leaves": []}, {"id": "r1", "eff": "1.0", "leaves": []}], "tasks": [],
              "_family": "universe", "_i": i}
        if lim:
            ap["resources"][0]["dailymax"] = lim
        if leave:
            ap["resources"][0]["leaves"].append((MON, None, "annual"))
        for t in range(3):
            n = {"id": f"t{t}", "effort": eff[t], "alloc": [f"r{alloc[t]}"]}
            if prio[t]:
                n["prio"] = prio[t]
            ds = [{"to": [f"t{a}"], "style": "abs"} for k, (a, b) in enumerate(edges) if b == t and dep[k]]
            if ds:
                n["deps"] = ds
            ap["tasks"].append(n)
        out.append(ap)
    return out


def prio_family(ctx, n):
    """priority situations: a high-priority task that becomes ready only when a container completes,
    next to ready lower-priority work on the same resources (C07, C09)"""
    rng = ctx.rng
    out = []
    for i in range(n):
        nres = rng.randint(1, 2)
        ap = {"start": MON, "dur": ("w", 4), "G": 3600, "tz": "Etc/UTC", "vac": [], "gleaves": [], "shifts": {},
              "resources": [{"id": f"r{k}", "eff": "1.0", "leaves": []} for k in range(nres)], "tasks": [],
              "_family": "prio", "_i": i}
        rid = lambda: f"r{rng.randrange(nres)}"
        top = []
        kids = [{"id": f"k{j}", "effort": rng.choice([60, 120, 240]), "alloc": [rid()], "prio": rng.choice([None, 300, 500, 700])}
                for j in range(rng.randint(1, 3))]
        for kd in kids:
            if kd["prio"] is None:
                del kd["prio"]
        cont = {"id": "cont", "kids": kids}
        if rng.random() < 0.4:
            cont = {"id": "outer", "kids": [cont]}
        top.append(cont)
        cpath = ["outer", "cont"] if cont["id"] == "outer" else ["cont"]
        top.append({"id": "high", "effort": rng.choice([60, 120, 180]), "alloc": [rid()], "prio": rng.choice([800, 900]),
                    "deps": [{"to": cpath if rng.random() < 0.7 else cpath[:1], "style": rng.choice(["abs", "rel"])}]})
        for j in range(rng.randint(1, 3)):
            t = {"id": f"o{j}", "effort": rng.choice([60, 120, 240, 480]), "alloc": [rid()], "prio": rng.choice([100, 200, 400, 600])}
            if rng.random() < 0.3:
                t["deps"] = [{"to": cpath + [kids[0]["id"]], "style": "abs"}]
            top.append(t)
        rng.shuffle(top)
        ap["tasks"] = top
        out.append(ap)
    return out
