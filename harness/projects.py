"""Abstract projects: generators, .tjp renderer, independent calendar, dependency edges, and the
property oracles evaluated on the implementation's observations.

An abstract project (AP) is a plain dict; everything the oracles need (edges, calendars, efforts)
is derived from the AP, never from the implementation's parse."""
import copy
import datetime as _dt
import json
from zoneinfo import ZoneInfo

import common

E = _dt.datetime(1970, 1, 1)
DAYN = ["mon", "tue", "wed", "thu", "fri", "sat", "sun"]
MON = 1736121600          # 2025-01-06 00:00 (a Monday)


def dt(t):
    return E + _dt.timedelta(seconds=t)


def fmt_date(t):
    d = dt(t)
    if d.hour == 0 and d.minute == 0:
        return d.strftime("%Y-%m-%d")
    return d.strftime("%Y-%m-%d-%H:%M")


def fmt_dur(minutes):
    if minutes % 60 == 0:
        return f"{minutes // 60}h"
    return f"{minutes}min"


# ----------------------------------------------------------------------------- tree helpers
def walk(nodes, path=()):
    for n in nodes:
        p = path + (n["id"],)
        yield p, n
        if "kids" in n:
            yield from walk(n["kids"], p)


def leaves_under(node, path):
    if "kids" not in node:
        return [path]
    out = []
    for p, n in walk(node["kids"], path):
        if "kids" not in n:
            out.append(p)
    return out


def task_index(ap):
    return {p: n for p, n in walk(ap["tasks"])}


def res_index(ap):
    return {p: n for p, n in walk(ap["resources"])}


def fid(p):
    return ".".join(p)


# ----------------------------------------------------------------------------- renderer
def ref_string(src, to, style):
    if style == "abs":
        return ".".join(to)
    k = 0
    while k < len(src) - 1 and k < len(to) - 1 and src[k] == to[k]:
        k += 1
    # base = ancestor of src at depth k (k == 0: root); bangs = len(src) - k
    return "!" * (len(src) - k) + ".".join(to[k:])


def render_hours(tbl, ind, ranges=False):
    """one directive per weekday, or (ranges) one per distinct interval list with day ranges ('mon - wed'),
    day lists ('mon - wed, fri') and wrap-around ranges ('sat - mon')"""
    out = []
    # (corpus cases come back from JSON with lists in place of tuples)
    tbl = [(wd, [(tuple(x[0]), tuple(x[1])) for x in ivs]) for wd, ivs in tbl]
    if ranges == "overlap":
        # the intervals that all working days share on one line (day list), the rest of each day on lines of its
        # own: several lines name the same day and their intervals add up
        merged = {}
        for wd, ivs in tbl:
            if ivs:
                merged.setdefault(wd, [])
                merged[wd] += [x for x in ivs if x not in merged[wd]]
        days = sorted(merged)
        common = [x for x in merged[days[0]] if all(x in merged[d] for d in days)] if len(days) > 1 else []
        fmt = lambda ivs: ", ".join(f"{a:02d}:{b:02d} - {c:02d}:{d:02d}" for (a, b), (c, d) in ivs)
        if common:
            out.append(f"{ind}workinghours {', '.join(DAYN[d] for d in days)} {fmt(common)}")
        for d in days:
            rest = [x for x in merged[d] if x not in common]
            for x in rest:
                out.append(f"{ind}workinghours {DAYN[d]} {fmt([x])}")
        return out
    if not ranges:
        for wd, ivs in tbl:
            if not ivs:
                continue
            rng = ", ".join(f"{a:02d}:{b:02d} - {c:02d}:{d:02d}" for (a, b), (c, d) in ivs)
            out.append(f"{ind}workinghours {DAYN[wd]} {rng}")
        return out
    groups = {}
    for wd, ivs in tbl:
        if ivs:
            groups.setdefault(tuple(ivs), []).append(wd)
    for ivs, days in groups.items():
        days = sorted(set(days))
        runs = []
        for d in days:
            if runs and runs[-1][1] == d - 1:
                runs[-1][1] = d
            else:
                runs.append([d, d])
        if len(runs) > 1 and runs[0][0] == 0 and runs[-1][1] == 6:      # ... sun, mon ...: one wrap-around range
            last = runs.pop()
            runs[0][0] = last[0]
        specs = [DAYN[a] if a == b else f"{DAYN[a]} - {DAYN[b]}" for a, b in runs]
        rng = ", ".join(f"{a:02d}:{b:02d} - {c:02d}:{d:02d}" for (a, b), (c, d) in ivs)
        out.append(f"{ind}workinghours {', '.join(specs)} {rng}")
    return out


def fmt_limit(minutes, key):
    """a limit value in one of the units the grammar accepts - hours, minutes, working days (8 h) and working weeks
    (40 h) - chosen by the node and the value (the same text on every run); days and weeks only where the decimal
    number is exact"""
    import random
    unit = random.Random(key).choice(["h", "h", "min", "d", "w"])
    if unit == "min":
        return f"{minutes}min"
    if unit in ("d", "w"):
        per = 480 if unit == "d" else 2400
        txt = f"{minutes / per:.3f}".rstrip("0").rstrip(".")
        if "." not in txt or len(txt.split(".")[1]) <= 3:
            if abs(float(txt) * per - minutes) < 1e-9 and float(txt) > 0:
                return txt + unit
    return fmt_dur(minutes)


def render_limits(n, ind):
    parts = []
    for k in ("dailymax", "weeklymax"):
        if n.get(k) is not None:
            flt = ""
            if n.get("limit_res"):
                flt = " { resources " + ", ".join(n["limit_res"]) + " }"
            parts.append(f"{k} {fmt_limit(n[k], str(n.get('id')) + k + str(n[k]))}{flt}")
    return [f"{ind}limits {{ " + " ".join(parts) + " }"] if parts else []


def fmt_gap(minutes):
    """gap durations are calendar time: whole days and weeks are written in those units"""
    if minutes and minutes % 10080 == 0:
        return f"{minutes // 10080}w"
    if minutes and minutes % 1440 == 0:
        return f"{minutes // 1440}d"
    return fmt_dur(minutes)


def render_deps(n, path, key):
    if not n.get(key):
        return []
    items = []
    for d in n[key]:
        opts = []
        if d.get("gap"):
            opts.append(f"gapduration {fmt_gap(d['gap'])}")
        if d.get("gaplen"):
            # working time; with 'gaplen_days' written in days of 8 working hours ("1d"), the same text that a
            # gapduration of 24 hours has
            opts.append(f"gaplength {d['gaplen'] // 480}d" if d.get("gaplen_days") and d["gaplen"] % 480 == 0 else f"gaplength {fmt_dur(d['gaplen'])}")
        if d.get("maxgap"):
            opts.append(f"maxgapduration {fmt_gap(d['maxgap'])}")
        if d.get("onstart"):
            opts.append("onstart")
        if d.get("onend"):
            opts.append("onend")
        o = (" { " + " ".join(opts) + " }") if opts else ""
        items.append(ref_string(path, tuple(d["to"]), d.get("style", "abs")) + o)
    return [("depends " if key == "deps" else "precedes ") + ", ".join(items)]


def render(ap, rename=None, extra_tail=""):
    R = rename or (lambda kind, x: x)
    L = []
    durk, durn = ap["dur"]
    hdr = [f'timezone "{ap.get("tz", "Etc/UTC")}"']
    if ap.get("G", 3600) != 3600:
        hdr.append(f"timingresolution {ap['G'] // 60}min")
    if ap.get("alap"):
        hdr.append("scheduling alap")
    if ap.get("timeformat"):
        hdr.append(f'timeformat "{ap["timeformat"]}"')
    for s in ap.get("scenario_lines", []):
        hdr.append(s)
    if ap.get("phours") is not None:
        # working hours declared for the whole project: the calendar of resources without hours / shift of their own
        hdr += [x.strip() for x in render_hours(ap["phours"], "", ap.get("dayranges"))]
    L.append(f'project prj "P" {fmt_date(ap["start"])} +{durn}{durk} {{ ' + " ".join(hdr) + " }")
    for (a, b) in ap.get("vac", []):
        L.append(f'vacation "v" {fmt_date(a)}' + (f" - {fmt_date(b)}" if b is not None else ""))
    for (a, b) in ap.get("gleaves", []):
        L.append(f'leaves {ap.get("gleave_kind", "holiday")} "h" {fmt_date(a)}' + (f" - {fmt_date(b)}" if b is not None else ""))
    for sid, tbl in ap.get("shifts", {}).items():
        L.append(f'shift {R("shift", sid)} "{sid}" {{')
        L += render_hours(tbl, "  ", ap.get("dayranges"))
        L.append("}")

    def rres(n, ind):
        L.append(f'{ind}resource {R("res", n["id"])} "{n["id"]}" {{')
        i2 = ind + "  "
        if n.get("eff") not in (None, "1", "1.0"):
            L.append(f"{i2}efficiency {n['eff']}")
        if n.get("rate") is not None:
            L.append(f"{i2}rate {n['rate']}")
        if n.get("tz"):
            L.append(f'{i2}timezone "{n["tz"]}"')
        if n.get("shift"):
            L.append(f'{i2}workinghours {R("shift", n["shift"])}')
        elif n.get("hours") is not None:
            L.extend(render_hours(n["hours"], i2, ap.get("dayranges")))
        for lv in n.get("leaves", []):
            a, b, kind = lv
            if kind == "vacation":
                L.append(f"{i2}vacation {fmt_date(a)}" + (f" - {fmt_date(b)}" if b is not None else ""))
            else:
                L.append(f"{i2}leaves {kind} {fmt_date(a)}" + (f" - {fmt_date(b)}" if b is not None else ""))
        for (a, mins, txt) in n.get("bookings", []):
            L.append(f'{i2}booking "busy" {fmt_date(a)} +{txt}')
        L.extend(render_limits(n, i2))
        for k in n.get("kids", []):
            rres(k, i2)
        L.append(f"{ind}}}")
    for n in ap["resources"]:
        rres(n, "")

    def rtask(n, path, ind):
        L.append(f'{ind}task {R("task", n["id"])} "{n["id"]}" {{')
        i2 = ind + "  "
        if n.get("prio") is not None:
            L.append(f"{i2}priority {n['prio']}")
        if n.get("sched"):
            L.append(f"{i2}scheduling {n['sched']}")
        if n.get("start") is not None:
            L.append(f"{i2}start {fmt_date(n['start'])}")
        if n.get("end") is not None:
            L.append(f"{i2}end {fmt_date(n['end'])}")
        if n.get("milestone"):
            L.append(f"{i2}milestone")
        if n.get("effort") is not None:
            L.append(f"{i2}effort {fmt_dur(n['effort'])}")
        if n.get("contiguous"):
            L.append(f"{i2}flags contiguous")
        for (sc, key, val) in n.get("sc_attrs", []):
            L.append(f"{i2}{sc}:{key} {fmt_dur(val) if key == 'effort' else fmt_date(val)}")
        if n.get("alloc"):
            alt = ""
            if n.get("alt"):
                alt = " { alternative " + ", ".join(R("res", x) for x in n["alt"]) + " }"
            L.append(f"{i2}allocate " + ", ".join(R("res", x) for x in n["alloc"]) + alt)
        for key in ("deps", "precedes"):
            for ln in render_deps(renamed_deps(n, key, R), tuple(R("task", x) for x in path), key):
                L.append(i2 + ln)
        L.extend(render_limits({**n, "limit_res": [R("res", x) for x in n.get("limit_res", [])]}, i2))
        for k in n.get("kids", []):
            rtask(k, path + (k["id"],), i2)
        L.append(f"{ind}}}")
    for n in ap["tasks"]:
        rtask(n, (n["id"],), "")
    return "\n".join(L) + "\n" + extra_tail


def renamed_deps(n, key, R):
    out = []
    for d in n.get(key, []) or []:
        d2 = dict(d)
        d2["to"] = [R("task", x) for x in d["to"]]
        out.append(d2)
    return {key: out}


# ----------------------------------------------------------------------------- calendar spec
def hours_spec(tbl, wd, m):
    d = {}
    for k, l in tbl:
        d.setdefault(k, []).extend(l)
    for (a, b), (c, e) in d.get(wd, []):
        s_, e_ = a * 60 + b, c * 60 + e
        if e_ <= s_:
            if m >= s_:
                return True
        elif s_ <= m < e_:
            return True
    for (a, b), (c, e) in d.get((wd - 1) % 7, []):
        s_, e_ = a * 60 + b, c * 60 + e
        if e_ <= s_ and m < e_:
            return True
    return False


def day_interval(a, b):
    """interval of a vacation/leave as the text means it: a single date covers that whole day"""
    if b is None or b == a:
        return a, a + 86400
    return a, b


_TZ = {}


def local_parts(t, tz):
    """weekday and minute-of-day of instant t (project clock = UTC) in zone tz"""
    if not tz:
        return (t // 86400 + 3) % 7, (t % 86400) // 60
    z = _TZ.get(tz) or _TZ.setdefault(tz, ZoneInfo(tz))
    loc = dt(t).replace(tzinfo=_dt.timezone.utc).astimezone(z)
    return loc.weekday(), loc.hour * 60 + loc.minute


def own_or_inherited_hours(ap, rnode):
    """the hours table of a leaf resource: its own (inline or shift), else that of the nearest enclosing group that
    declares one; None when neither does (then the project's hours / the built-in default apply)"""
    if rnode.get("shift"):
        return ap["shifts"][rnode["shift"]]
    if rnode.get("hours") is not None:
        return rnode["hours"]
    cache = ap.setdefault("_inh_hours", {})
    if rnode["id"] not in cache:
        found = None

        def rec(nodes, inherited):
            nonlocal found
            for n in nodes:
                mine = ap["shifts"][n["shift"]] if n.get("shift") else (n["hours"] if n.get("hours") is not None else inherited)
                if n["id"] == rnode["id"] and "kids" not in n:
                    found = inherited
                rec(n.get("kids", []), mine)
        rec(ap["resources"], None)
        cache[rnode["id"]] = found
    return cache[rnode["id"]]


def working(ap, rnode, t):
    """is instant t working time for the leaf resource (declared hours, leaves, vacations, holidays)"""
    for (a, b) in ap.get("vac", []):
        lo, hi = day_interval(a, b)
        if lo <= t < hi:
            return False
    for (a, b) in ap.get("gleaves", []):
        lo, hi = day_interval(a, b)
        if lo <= t < hi:
            return False
    for (a, b, kind) in rnode.get("leaves", []):
        lo, hi = day_interval(a, b)
        if lo <= t < hi:
            return False
    for (a, mins, _txt) in rnode.get("bookings", []):       # a blocking booking: calendar time from its start
        if a <= t < a + mins * 60:
            return False
    tbl = own_or_inherited_hours(ap, rnode)
    if tbl is not None:
        wd, m = local_parts(t, rnode.get("tz"))
        return hours_spec(tbl, wd, m)
    wd, m = (t // 86400 + 3) % 7, (t % 86400) // 60
    if ap.get("phours") is not None:
        return hours_spec(ap["phours"], wd, m)          # the project's own hours, on the project clock
    return wd < 5 and 9 * 60 <= m < 17 * 60


def aligned(ap):
    """are all calendar boundaries multiples of the slot length (then a slot is homogeneous)"""
    G = ap.get("G", 3600)
    if ap["start"] % G:
        return False
    tabs = list(ap.get("shifts", {}).values()) + [n["hours"] for _, n in walk(ap["resources"]) if n.get("hours") is not None]   # (walk visits groups too)
    if ap.get("phours") is not None:
        tabs.append(ap["phours"])
    for tbl in tabs:
        for _, l in tbl:
            for (a, b), (c, d) in l:
                if ((a * 60 + b) * 60) % G or ((c * 60 + d) * 60) % G:
                    return False
    for (a, b) in ap.get("vac", []) + ap.get("gleaves", []):
        if a % G or (b or 0) % G:
            return False
    for _, n in walk(ap["resources"]):
        for (a, b, k) in n.get("leaves", []):
            if a % G or (b or 0) % G:
                return False
        for (a, mins, _txt) in n.get("bookings", []):
            if a % G or (mins * 60) % G:
                return False
        if n.get("tz") and G > 900:
            z = n["tz"]
            if any(x in z for x in ("Kolkata", "Kathmandu", "St_Johns", "Adelaide", "Chatham")) and G > 900:
                return False
    return True


# ----------------------------------------------------------------------------- dependency edges
def all_edges(ap):
    """{task path: [(pred path, gap seconds, onstart)]} - own, inherited from every ancestor, and
    created by 'precedes' on the other task"""
    idx = task_index(ap)
    own = {p: [] for p in idx}
    for p, n in idx.items():
        for d in n.get("deps", []) or []:
            own[p].append((tuple(d["to"]), (d.get("gap") or 0) * 60, bool(d.get("onstart")), d.get("gaplen")))
        for d in n.get("precedes", []) or []:
            own[tuple(d["to"])].append((p, (d.get("gap") or 0) * 60, bool(d.get("onstart")), d.get("gaplen")))
    full = {}
    for p in idx:
        acc = []
        for k in range(len(p), 0, -1):
            acc += own[p[:k]]
        full[p] = acc
    return full


# ----------------------------------------------------------------------------- running the implementation
def schedule_all(ctx, aps, texts=None, **kw):
    cases = []
    for i, ap in enumerate(aps):
        c = {"text": texts[i] if texts else render(ap), "timeout": kw.get("timeout", 60)}
        c.update({k: v for k, v in kw.items() if k in ("ledger", "reschedule")})
        cases.append(c)
    return common.run_workers(ctx, "w_sched", cases, extra_env=kw.get("env"), hashseed=kw.get("hashseed", "0"))


def compare_cython_blocked(ctx):
    import gens
    aps = gens.family(ctx, "hours", ctx.n(40, 250)) + gens.family(ctx, "core", ctx.n(40, 250)) + gens.family(ctx, "hoursmid", ctx.n(40, 250))
    a = schedule_all(ctx, aps, ledger=False)
    b = schedule_all(ctx, aps, ledger=False, env={"VERIF_BLOCK_CYTHON": "1"})
    bad = []
    for ap, x, y in zip(aps, a, b):
        ox = json.dumps(x.get("obs"), sort_keys=True) if x.get("ok") else x.get("exc")
        oy = json.dumps(y.get("obs"), sort_keys=True) if y.get("ok") else y.get("exc")
        if ox != oy:
            bad.append({"what": "whole project schedules differently with the compiled extensions blocked",
                        "project": render(ap), "loaded": x.get("obs") or x, "blocked": y.get("obs") or y})
    return {"n": len(aps), "bad": bad[:3]}


# ----------------------------------------------------------------------------- encoding for the Coq model
class NotCore(Exception):
    pass


def effective_attr(ap, n, key, sc_id):
    """the value of a scenario-specific attribute in scenario sc_id: written for that scenario, else for its nearest
    enclosing scenario (ap['scen_parent']: scenario id -> parent id), else the plain value"""
    par = ap.get("scen_parent") or {}
    s = sc_id
    while s is not None:
        vals = [v for (sc, k, v) in n.get("sc_attrs", []) if sc == s and k == key]
        if vals:
            return vals[-1]
        s = par.get(s)
    return n.get(key)


def has_maxgap(ap):
    """an edge with a maximum gap: the predecessor may be delayed (best effort) - outside every model dialect"""
    return any(d.get("maxgap") for _, n in walk(ap["tasks"]) for key in ("deps", "precedes") for d in (n.get(key) or []))


def encode_core(ap, obs_end):
    """flat-integer encoding of a core-dialect project for ocaml/scheddriver.ml ('sched ...').
    Raises NotCore when the project leaves the dialect of Model/Sched.v."""
    if has_maxgap(ap):
        raise NotCore("maxgapduration")
    G = ap.get("G", 3600)
    S = ap["start"]
    backward = bool(ap.get("alap"))          # read backwards by Model/Alap.v ('alap ...' line)
    if S % G:
        raise NotCore("unaligned start")
    upper = (obs_end - S) // G
    if upper > 1500:
        raise NotCore("horizon too long for the unary-number model run")
    ridx = res_index(ap)
    rleaf = [(p, n) for p, n in ridx.items() if "kids" not in n]
    rnum = {n["id"]: i for i, (p, n) in enumerate(rleaf)}
    limits = []            # (value, period, only)

    def add_limits(n):
        ids = []
        for kind, per in (("dailymax", 86400), ("weeklymax", 604800)):
            if n.get(kind) is not None:
                only = -1
                if n.get("limit_res"):
                    if len(n["limit_res"]) != 1:
                        raise NotCore("multi-resource limit filter")
                    only = rnum[n["limit_res"][0]]
                limits.append((int((n[kind] / 60.0) / (G / 3600.0)), per, only))
                ids.append(len(limits) - 1)
        return ids
    rlim = {p: add_limits(n) for p, n in ridx.items()}
    out = [upper, S, G, len(rleaf)]
    if not aligned(ap):
        raise NotCore("calendar not aligned to the resolution")
    for p, n in rleaf:
        ls = []
        for k in range(len(p), 0, -1):
            ls += rlim[p[:k]]
        if n.get("tz"):
            # zone conversion is an oracle (zoneinfo): the calendar is passed as explicit per-slot flags
            work = [1 if working(ap, n, S + s * G) else 0 for s in range(upper + 1)]
            out += [0, len(work)] + work + [len(ls)] + ls
        else:
            # the calendar is computed INSIDE the Coq model (Model/Calendar.v) from the hours table and
            # the blocked intervals
            tbl = own_or_inherited_hours(ap, n)
            if tbl is None:
                tbl = ap.get("phours")          # hours declared in the project header
            offs = [day_interval(a, b) for a, b in ap.get("vac", []) + ap.get("gleaves", [])]
            offs += [day_interval(a, b) for a, b, _k in n.get("leaves", [])]
            offs += [(a, a + mins * 60) for a, mins, _t in n.get("bookings", [])]
            out += [1, 1 if tbl is not None else 0]
            if tbl is not None:
                merged = {}
                for wd, l in tbl:
                    merged.setdefault(wd, []).extend(l)
                out.append(len(merged))
                for wd, l in merged.items():
                    out += [wd, len(l)]
                    for (a, b), (c, d) in l:
                        out += [a, b, c, d]
            out.append(len(offs))
            for lo, hi in offs:
                out += [lo, hi]
            out += [len(ls)] + ls
    tidx = task_index(ap)
    order = list(tidx)
    tnum = {p: i for i, p in enumerate(order)}
    tlim = {p: add_limits(n) for p, n in tidx.items()}
    out += [len(limits)]
    for v, per, only in limits:
        out += [v, per, only]
    edges = all_edges(ap)
    if backward:
        # successor edges: declared on a task or container X ("X depends Y" / "Y precedes X") they bind Y and,
        # by inheritance, everything below Y; the target X stays a task or container
        own_succ = {p: [] for p in tidx}
        for p, n in tidx.items():
            for d in n.get("deps", []) or []:
                own_succ[tuple(d["to"])].append((p, (d.get("gap") or 0) * 60, bool(d.get("onstart")), d.get("gaplen") or d.get("maxgap")))
            for d in n.get("precedes", []) or []:
                own_succ[p].append((tuple(d["to"]), (d.get("gap") or 0) * 60, bool(d.get("onstart")), d.get("gaplen") or d.get("maxgap")))
        edges = {p: [e for k in range(len(p), 0, -1) for e in own_succ[p[:k]]] for p in tidx}
    out.append(len(order))
    for p in order:
        n = tidx[p]
        leaf = "kids" not in n
        if backward and (n.get("start") is not None or n.get("sched")):
            raise NotCore("start / task-level mode in a backward project")
        if not backward and n.get("end") is not None and n.get("effort") is None:
            raise NotCore("task or container given by its dates (start and end, no effort)")
        kids = [tnum[p + (k["id"],)] for k in n.get("kids", [])]
        lvs = [tnum[x] for x in leaves_under(n, p)]
        prio = 500
        for k in range(len(p), 0, -1):
            if tidx[p[:k]].get("prio") is not None:
                prio = tidx[p[:k]]["prio"]
                break
        need, team = 0, []
        if leaf and n.get("effort") is not None:
            if n.get("alt") or n.get("sched") or (n.get("end") is not None and not backward):
                raise NotCore("alternatives / task-level mode / end")
            if any(x not in rnum for x in n["alloc"]):
                raise NotCore("resource group in an allocation")
            team = [rnum[x] for x in n["alloc"]]
            eff = max(float(ridx[[q for q in ridx if q[-1] == x][0]].get("eff") or 1.0) for x in n["alloc"])
            need_f = n["effort"] * 60.0 / (G * eff)
            if abs(need_f - round(need_f)) > 1e-9 or round(need_f) < 1:
                raise NotCore("effort is not a whole number of slots")
            need = int(round(need_f))
        deps = []
        for (q, gap, onstart, gaplen) in edges[p]:
            if gaplen or gap % G or (backward and onstart):
                raise NotCore("gap is not a whole number of slots / edge kind outside the dialect")
            deps.append((tnum[q], 1 if onstart else 0, gap // G))
        pin = -1
        if backward:
            if n.get("end") is not None and leaf:
                if (n["end"] - S) % G or n["end"] < S or n["end"] > S + upper * G:
                    raise NotCore("pinned end not on a slot boundary of the horizon")
                pin = (n["end"] - S) // G
            lb = upper
            for k in range(len(p) - 1, 0, -1):      # the earliest deadline of the enclosing containers
                e = tidx[p[:k]].get("end")
                if e is not None:
                    if (e - S) % G or e < S:
                        raise NotCore("container end not aligned")
                    lb = min(lb, (e - S) // G)
        else:
            if n.get("start") is not None and leaf:
                if (n["start"] - S) % G or n["start"] < S:
                    raise NotCore("pinned start not on a slot boundary of the horizon")
                pin = (n["start"] - S) // G
            lb = 0
            for k in range(len(p) - 1, 0, -1):
                s = tidx[p[:k]].get("start")
                if s is not None:
                    if (s - S) % G:
                        raise NotCore("container start not aligned")
                    lb = max(0, (s - S) // G)
                    break
        tl = []
        for k in range(len(p), 0, -1):
            tl += tlim[p[:k]]
        out += [1 if leaf else 0, len(kids)] + kids + [len(lvs)] + lvs + [prio, need, len(team)] + team
        out += [len(deps)] + [x for d in deps for x in d] + [pin, lb, len(tl)] + tl
    return ("alap " if backward else "sched ") + " ".join(str(x) for x in out), order, [fid(p) for p, _ in rleaf]


def model_results(ap, obs, line_order, out=None):
    """run the extracted model; returns ({task: (sched, start_s, end_s)}, set of (task, res, slot))"""
    line, order, rnames = line_order
    if out is None:
        out = common.run_driver("scheddriver", [line])[0]
    if out.startswith("ERROR") or "|" not in out:
        return None, out
    left, right = out.split("|")
    G, S = ap.get("G", 3600), ap["start"]
    res = {}
    for p, tok in zip(order, left.split()):
        if tok == "-":
            res[fid(p)] = (False, None, None)
        else:
            a, b = tok.split(":")
            res[fid(p)] = (True, S + int(a) * G, S + int(b) * G)
    bk = set()
    for tok in right.strip().split(";"):
        if tok:
            t, r, s = tok.split(",")
            bk.add((fid(order[int(t)]), rnames[int(r)], int(s)))
    return res, bk


def compare_model(ap, obs, enc=None, out=None):
    """disagreements between the extracted Coq model and the implementation on one core project"""
    sc = obs["scenarios"][0]
    if enc is None:
        try:
            enc = encode_core(ap, obs["end"])
        except NotCore as ex:
            return None, str(ex)
    res, bk = model_results(ap, obs, enc, out)
    if res is None:
        return [{"what": "model driver failed", "detail": bk}], None
    dis = []
    for t, st in sc["tasks"].items():
        m = res.get(t)
        i = (st["sched"], st["start"] if st["sched"] else None, st["end"] if st["sched"] else None)
        if m != i:
            dis.append({"what": "task dates differ", "task": t, "model": m, "impl": i})
    G = obs["G"]
    ib = set()
    for r, slots in sc["ledger"].items():
        for s, ents in slots.items():
            for t, x in ents:
                if x > 1e-3:
                    ib.add((t, r, int(s)))
                    if abs(x - G) > 1e-3:
                        dis.append({"what": "partial slot booked in a core-dialect project", "resource": r, "slot": int(s), "entry": [t, x]})
    if ib != bk:
        dis.append({"what": "booked (task, resource, slot) sets differ", "only_model": sorted(bk - ib)[:6], "only_impl": sorted(ib - bk)[:6]})
    return dis, None


# ----------------------------------------------------------------------------- sub-slot dialect (Model/SubSlot.v)
def encode_sd(ap, obs_end):
    """flat-integer encoding of a forward project without alternatives for ocaml/scheddriver.ml:
    'sd ...' (Model/SubSlot.v) when every effort task allocates one resource - limits of resources, groups, tasks
    and containers included -, 'sdt ...' (Model/SubSlotTeam.v) when there are teams (limits included as well).
    Efforts, efficiencies and gaps are arbitrary (exact rationals).  Raises NotCore outside that dialect."""
    from fractions import Fraction
    if has_maxgap(ap):
        raise NotCore("maxgapduration")
    G = ap.get("G", 3600)
    S = ap["start"]
    if ap.get("alap") or S % G:
        raise NotCore("backward project / unaligned start")
    if not aligned(ap):
        raise NotCore("calendar not aligned to the resolution")
    upper = (obs_end - S) // G
    if upper > 4000:
        raise NotCore("horizon too long for the unary-number model run")
    ridx = res_index(ap)
    rleaf = [(p, n) for p, n in ridx.items() if "kids" not in n]
    rnum = {n["id"]: i for i, (p, n) in enumerate(rleaf)}
    tidx = task_index(ap)
    order = list(tidx)
    tnum = {p: i for i, p in enumerate(order)}
    teams = any("kids" not in n and n.get("effort") is not None and len(n.get("alloc", [])) > 1 for n in tidx.values())
    limits = []            # (value, period, only)

    def add_limits(n):
        ids = []
        for kind, per in (("dailymax", 86400), ("weeklymax", 604800)):
            if n.get(kind) is not None:
                only = -1
                if n.get("limit_res"):
                    if len(n["limit_res"]) != 1:
                        raise NotCore("multi-resource limit filter")
                    only = rnum[n["limit_res"][0]]
                limits.append((int((n[kind] / 60.0) / (G / 3600.0)), per, only))
                ids.append(len(limits) - 1)
        return ids
    rlim = {p: add_limits(n) for p, n in ridx.items()}
    out = [upper, S, G, len(rleaf)]
    for p, n in rleaf:
        work = [1 if working(ap, n, S + s * G) else 0 for s in range(upper + 1)]
        e = Fraction(str(n.get("eff") or "1.0"))
        ls = []
        for k in range(len(p), 0, -1):
            ls += rlim[p[:k]]
        out += [len(work)] + work + [e.numerator, e.denominator, len(ls)] + ls
    tlim = {p: add_limits(n) for p, n in tidx.items()}
    out += [len(limits)]
    for v, per, only in limits:
        out += [v, per, only]
    edges = all_edges(ap)
    out.append(len(order))
    for p in order:
        n = tidx[p]
        leaf = "kids" not in n
        if n.get("sched") or n.get("end") is not None:
            raise NotCore("task-level mode / end")
        lvs = [tnum[x] for x in leaves_under(n, p)]
        prio = 500
        for k in range(len(p), 0, -1):
            if tidx[p[:k]].get("prio") is not None:
                prio = tidx[p[:k]]["prio"]
                break
        mile, eff_s, team = 1, 0, []
        if leaf and n.get("effort") is not None:
            if n.get("alt") or any(x not in rnum for x in n["alloc"]) or len(set(n["alloc"])) != len(n["alloc"]):
                raise NotCore("alternative / group allocation")
            mile, eff_s, team = 0, n["effort"] * 60, [rnum[x] for x in n["alloc"]]
        deps = []
        for (q, gap, onstart, gaplen) in edges[p]:
            if gaplen:
                raise NotCore("gaplength")
            deps.append((tnum[q], 1 if onstart else 0, gap))
        pin = -1
        if n.get("start") is not None and leaf:
            if n["start"] < S:
                raise NotCore("pinned start before the project start")
            if (n["start"] - S) % G and not mile:
                raise NotCore("pinned start of an effort task inside a slot")
            pin = n["start"] - S
        lb = 0
        for k in range(len(p) - 1, 0, -1):
            s = tidx[p[:k]].get("start")
            if s is not None:
                lb = max(0, s - S)
                break
        tl = []
        for k in range(len(p), 0, -1):
            tl += tlim[p[:k]]
        out += [1 if leaf else 0, len(lvs)] + lvs + [prio, mile, eff_s, 1]
        out += ([len(team)] + team) if teams else [team[0] if team else 0]
        out += [len(deps)] + [x for d in deps for x in d] + [pin, lb, len(tl)] + tl
    return ("sdt " if teams else "sd ") + " ".join(str(x) for x in out), order, [fid(p) for p, _ in rleaf]


def compare_sd(ap, obs, enc=None, out=None):
    """disagreements between the extracted sub-slot model and the implementation (dates to the second, ledger
    seconds to the millisecond); (None, why) outside the dialect"""
    sc = obs["scenarios"][0]
    if enc is None:
        try:
            enc = encode_sd(ap, obs["end"])
        except NotCore as ex:
            return None, str(ex)
    line, order, rnames = enc
    if out is None:
        out = common.run_driver("scheddriver", [line])[0]
    if out.startswith("ERROR") or "|" not in out:
        return [{"what": "model driver failed", "detail": out[:300]}], None
    left, right = out.split("|")
    S = ap["start"]
    dis = []
    for p, tok in zip(order, left.split()):
        st = sc["tasks"].get(fid(p))
        m = (False, None, None) if tok == "-" else (True, S + int(tok.split(":")[0]), S + int(tok.split(":")[1]))
        i = (st["sched"], st["start"] if st["sched"] else None, st["end"] if st["sched"] else None)
        if m != i:
            dis.append({"what": "task dates differ (sub-slot model)", "task": fid(p), "model": m, "impl": i})
    ml, il = {}, {}
    for tok in right.strip().split(";"):
        if tok:
            t, r, s, x = tok.split(",")
            if float(x) > 1e-3:
                k = (fid(order[int(t)]), rnames[int(r)], int(s))
                ml[k] = ml.get(k, 0.0) + float(x)
    for r, slots in sc["ledger"].items():
        for s, ents in slots.items():
            for t, x in ents:
                if x > 1e-3:
                    il[(t, r, int(s))] = il.get((t, r, int(s)), 0.0) + x
    for k in sorted(set(ml) | set(il)):
        if abs(ml.get(k, 0.0) - il.get(k, 0.0)) > 1e-3:
            dis.append({"what": "ledger seconds differ (sub-slot model)", "task_resource_slot": list(k), "model": ml.get(k), "impl": il.get(k)})
    return dis, None


def compare_many(pairs):
    """model-vs-implementation comparison of many (abstract project, observation) pairs: slot-granularity model
    (forward or backward) where the project is in its dialect, else the second-granularity model; the driver runs
    are spread over several processes.  Returns [(disagreements | None, why | None, kind)]"""
    encs = []
    for ap, obs in pairs:
        try:
            encs.append(("slot", encode_core(ap, obs["end"])))
            continue
        except NotCore as ex:
            why = str(ex)
        try:
            enc = encode_sd(ap, obs["end"])
            encs.append(("team" if enc[0].startswith("sdt") else "second", enc))
        except NotCore as ex2:
            encs.append((None, why + " / " + str(ex2)))
    idx = [i for i, (k, _) in enumerate(encs) if k]
    outs = common.run_driver_parallel("scheddriver", [encs[i][1][0] for i in idx])
    res = [(None, e[1], None) if e[0] is None else None for e in encs]
    for i, o in zip(idx, outs):
        (ap, obs), (kind, enc) = pairs[i], encs[i]
        d, why = (compare_model if kind == "slot" else compare_sd)(ap, obs, enc, o)
        res[i] = (d, why, kind)
    return res
