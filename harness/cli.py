"""Running the real 'plan' entry point as a subprocess with a private cwd and TMPDIR."""
import hashlib
import os
import shutil
import subprocess
import tempfile

import common


def listing(d):
    out = []
    for root, dirs, files in os.walk(d):
        for x in dirs + files:
            out.append(os.path.relpath(os.path.join(root, x), d))
    return sorted(out)


class Box:
    """a private working directory and TMPDIR for one or several CLI runs"""

    def __init__(self, ctx):
        self.ctx = ctx
        self.root = tempfile.mkdtemp(prefix="box_", dir=ctx.scratch)
        self.cwd = os.path.join(self.root, "cwd")
        self.tmp = os.path.join(self.root, "tmp")
        os.makedirs(self.cwd)
        os.makedirs(self.tmp)

    def put(self, name, data):
        p = os.path.join(self.cwd, name)
        with open(p, "wb") as f:
            f.write(data if isinstance(data, bytes) else data.encode())
        return p

    def env(self):
        return common.impl_env(self.ctx, extra={"TMPDIR": self.tmp, "HOME": self.root, "NO_COLOR": "1"})

    def popen(self, args, stdin=None):
        cmd = [common.PY, "-c", "import sys; from scriptplan.cli.plan import main; sys.exit(main())"] + list(args)
        return subprocess.Popen(cmd, cwd=self.cwd, env=self.env(), stdin=subprocess.PIPE if stdin is not None else subprocess.DEVNULL,
                                stdout=subprocess.PIPE, stderr=subprocess.PIPE)

    def run(self, args, stdin=None, timeout=120):
        p = self.popen(args, stdin)
        try:
            out, err = p.communicate(stdin, timeout=timeout)
        except subprocess.TimeoutExpired:
            p.kill()
            out, err = p.communicate()
            return {"rc": "timeout", "out": out, "err": err}
        return {"rc": p.returncode, "out": out, "err": err}

    def close(self):
        shutil.rmtree(self.root, ignore_errors=True)


def sha(data):
    return hashlib.sha256(data if isinstance(data, bytes) else data.encode()).hexdigest()
