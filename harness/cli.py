"""Running the real 'plan' entry point as a subprocess with a private cwd and TMPDIR."""
import hashlib
import os
import shutil
import subprocess
import tempfile

import common


def listing(d):
    out = []
    for root, dirs, files in os.walk(d):
        for x in dirs + files:
            out.append(os.path.relpath(os.path.join(root, x), d))
    return sorted(out)


class Box:
    """a private working directory and TMPDIR for one or several CLI runs"""

    def __init__(self, ctx):
        self.ctx = ctx
        self.root = tempfile.mkdtemp(prefix="box_", dir=ctx.scratch)
        self.cwd = os.path.join(self.root, "cwd")
        self.tmp = os.path.join(self.root, "tmp")
        os.makedirs(self.cwd)
        os.makedirs(self.tmp)

    def put(self, name, data):
        p = os.path.join(self.cwd, name)
        with open(p, "wb") as f:
            f.write(data if isinstance(data, bytes) else data.encode())
        return p

    def env(self):
        return common.impl_env(self.ctx, extra={"TMPDIR": self.tmp, "HOME": self.root, "NO_COLOR": "1"})

    def popen(self, args, stdin=None):
        cmd = [common.PY, "-c", "import sys; from scriptplan.cli.plan import main; sys.exit(main())"] + list(args)
        return subprocess.Popen(cmd, cwd=self.cwd, env=self.env(), stdin=subprocess.PIPE if stdin is not None else subprocess.DEVNULL,
                                stdout=subprocess.PIPE, stderr=subprocess.PIPE)

    def run(self, args, stdin=None, timeout=120):
        p = self.popen(args, stdin)
        try:
            out, err = p.communicate(stdin, timeout=timeout)
        except subprocess.TimeoutExpired:
            p.kill()
            out, err = p.communicate()
            return {"rc": "timeout", "out": out, "err": err}
        return {"rc": p.returncode, "out": out, "err": err}

    def run_traced(self, args, stdin=None, timeout=180):
        """run under strace and return, besides the usual result, the sequence of creations / removals of the
        run's own temporary names directly under TMPDIR, in the vocabulary of Model/Cli.v:
        0 = copy of stdin (plan_stdin_*), 1 = combined file (plan_auto_*), 2 = private output directory (plan_output_*)"""
        import re
        tf = os.path.join(self.root, "strace.%d.txt" % len(os.listdir(self.root)))
        if shutil.which("strace") is None:
            r = self.run(args, stdin, timeout)
            r["fsops"] = None
            return r
        cmd = ["strace", "-f", "-o", tf, "-e", "trace=openat,open,creat,mkdir,mkdirat,rmdir,unlink,unlinkat,rename,renameat,renameat2",
               common.PY, "-c", "import sys; from scriptplan.cli.plan import main; sys.exit(main())"] + list(args)
        p = subprocess.Popen(cmd, cwd=self.cwd, env=self.env(), stdin=subprocess.PIPE if stdin is not None else subprocess.DEVNULL,
                             stdout=subprocess.PIPE, stderr=subprocess.PIPE)
        try:
            out, err = p.communicate(stdin, timeout=timeout)
        except subprocess.TimeoutExpired:
            p.kill()
            out, err = p.communicate()
            return {"rc": "timeout", "out": out, "err": err, "fsops": None}
        ops, other = [], []
        kinds = (("plan_stdin_", 0), ("plan_auto_", 1), ("plan_output_", 2))
        try:
            lines = open(tf, errors="replace").read().split("\n")
            if not any("execve" in x or "openat" in x for x in lines):
                lines = None            # strace could not attach (ptrace not permitted): no trace to compare
        except OSError:
            lines = None
        if lines is not None:
            for ln in lines:
                m = re.search(r'(openat|open|creat|mkdir|mkdirat|rmdir|unlink|unlinkat|rename\w*)\((?:AT_FDCWD, )?"([^"]*)"(.*)\) = (-?\d+)', ln)
                if not m or int(m.group(4)) < 0:
                    continue
                call, path, rest = m.group(1), m.group(2), m.group(3)
                if os.path.dirname(path) != self.tmp:
                    continue
                name = os.path.basename(path)
                k = next((v for pre, v in kinds if name.startswith(pre)), None)
                creating = call in ("mkdir", "mkdirat", "creat") or (call in ("open", "openat") and "O_CREAT" in rest)
                removing = call in ("rmdir", "unlink", "unlinkat")
                if k is None:
                    if (creating or removing) and not re.fullmatch(r"[a-z0-9_]{8}", name):
                        other.append(call + " " + name)        # (8-character names: tempfile's writability probe)
                    continue
                if creating and ("C%d" % k) not in ops:
                    ops.append("C%d" % k)
                elif removing:
                    ops.append("R%d" % k)
        try:
            os.remove(tf)
        except OSError:
            pass
        return {"rc": p.returncode, "out": out, "err": err, "fsops": None if lines is None else ops, "other_names": other}

    def close(self):
        shutil.rmtree(self.root, ignore_errors=True)


def sha(data):
    return hashlib.sha256(data if isinstance(data, bytes) else data.encode()).hexdigest()
