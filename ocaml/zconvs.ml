open Sched
let rec pos_of_int (n : int) : positive =
  if n = 1 then XH else if n land 1 = 0 then XO (pos_of_int (n lsr 1)) else XI (pos_of_int (n lsr 1))
let z_of_int (n : int) : z = if n = 0 then Z0 else if n > 0 then Zpos (pos_of_int n) else Zneg (pos_of_int (-n))
let rec int_of_pos (p : positive) : int = match p with XH -> 1 | XO q -> 2 * int_of_pos q | XI q -> 2 * int_of_pos q + 1
let int_of_z (x : z) : int = match x with Z0 -> 0 | Zpos p -> int_of_pos p | Zneg p -> - (int_of_pos p)
let rec nat_of_int (n : int) : nat = if n <= 0 then O else S (nat_of_int (n - 1))
let rec int_of_nat (n : nat) : int = match n with O -> 0 | S m -> 1 + int_of_nat m
