(* conversions between OCaml ints and the extracted Coq numbers *)
open Gen
let rec pos_of_int (n : int) : positive =
  if n = 1 then XH else if n land 1 = 0 then XO (pos_of_int (n lsr 1)) else XI (pos_of_int (n lsr 1))
let z_of_int (n : int) : z = if n = 0 then Z0 else if n > 0 then Zpos (pos_of_int n) else Zneg (pos_of_int (-n))
let rec int_of_pos (p : positive) : int = match p with XH -> 1 | XO q -> 2 * int_of_pos q | XI q -> 2 * int_of_pos q + 1
let int_of_z (x : z) : int = match x with Z0 -> 0 | Zpos p -> int_of_pos p | Zneg p -> - (int_of_pos p)
