(* Driver for the extracted small models (coq/Extract/ExtractMisc.v).  One request per line, flat integers.
   resolve  forest nfrom from.. nbang nids ids..   forest = ntop tree.., tree = id nkids tree..; nbang = 0: absolute
            answer: position k.k.k or -
   eff      n parent.. ov.. base i                 (-1 = none)   answer: value
   report   leaf_only ncols ntitles title.. ntasks [is_leaf cell..]..
            answer: csv rows c,c;c,c | json records, per record and title the dict value v,v;v,v
   plan     ch [0 file, 1 stdin] inp [0 missing, 1 not a file, 2 empty, 3 content, 4 undecodable] fmt [0 json, 1 csv] auto
            engine [0 failed | 1 nfiles [name fmt content]..]
            answer: exit stdout [- | doc code | S doc code when stamped with the hash of the input] diag
   trace    ch inp engine_ok   answer: ops C2 C1 R2 R1 | names left *)
open Misc
let toks = ref [||] and pos = ref 0
let next () = let t = !toks.(!pos) in incr pos; t
let geti () = int_of_string (next ())
let rec nat_of_int (n : int) : nat = if n <= 0 then O else S (nat_of_int (n - 1))
let rec int_of_nat (n : nat) : int = match n with O -> 0 | S m -> 1 + int_of_nat m
let getn () = nat_of_int (geti ())
let getlist f = let n = geti () in List.init n (fun _ -> f ())
let rec gettree () = let i = getn () in let k = getlist gettree in Node (i, k)
let show_pos = function None -> "-" | Some [] -> "." | Some l -> String.concat "." (List.map (fun k -> string_of_int (int_of_nat k)) l)
let run_resolve () =
  let forest = getlist gettree in
  let from = getlist getn in
  let nb = geti () in
  let ids = getlist getn in
  show_pos (if nb = 0 then resolve_abs forest ids else resolve_rel forest from (nat_of_int nb) ids)
let run_eff () =
  let n = geti () in
  let parent = Array.init n (fun _ -> geti ()) in
  let ov = Array.init n (fun _ -> geti ()) in
  let base = geti () in
  let i = geti () in
  let get a k = let k = int_of_nat k in if k < n && a.(k) >= 0 then Some a.(k) else None in
  let v = eff (fun k -> match get parent k with Some x -> Some (nat_of_int x) | None -> None) (fun k -> get ov k) base (nat_of_int n) (nat_of_int i) in
  string_of_int v
let run_report () =
  let leaf_only = geti () <> 0 in
  let ncols = geti () in
  let titles = getlist geti in
  let tasks = getlist (fun () -> let l = geti () <> 0 in let cells = Array.init ncols (fun _ -> geti ()) in (l, cells)) in
  let b = body (fun (l, _) -> l) (fun (_, c) j -> c.(int_of_nat j)) leaf_only (nat_of_int ncols) tasks in
  let csv = to_csv titles (fun h -> h) b in
  let js = to_json titles b in
  let srow r = String.concat "," (List.map string_of_int r) in
  let srec r = String.concat "," (List.map (fun h -> match dict_last (fun a b -> a = b) h r with Some v -> string_of_int v | None -> "-") titles) in
  String.concat ";" (List.map srow csv) ^ " | " ^ String.concat ";" (List.map srec js)
let run_plan () =
  let ch = if geti () = 0 then FromFile else FromStdin in
  let inp = match geti () with 0 -> Missing | 1 -> NotAFile | 2 -> EmptyInput | 4 -> Undecodable | _ -> Content [nat_of_int 7] in
  let f = if geti () = 0 then Json else Csv in
  let auto = getn () in
  let eng = if geti () = 0 then EngineFailed else
      EngineOk (getlist (fun () -> let nm = getn () in let fm = if geti () = 0 then Json else Csv in let c = getn () in ((nm, fm), [c]))) in
  (* symbolic hash and stamp: the stamped document is marked by a leading 999 followed by the hash *)
  let hash b = nat_of_int 555 :: b in
  let stamp h doc = nat_of_int 999 :: (h @ doc) in
  let r = plan_report hash stamp ch inp f auto (fun _ -> eng) in
  let ex = match r.r_exit with E0 -> 0 | E1 -> 1 | E2 -> 2 in
  let out = match r.r_stdout with
    | None -> "-"
    | Some l -> (match List.map int_of_nat l with
        | 999 :: 555 :: 7 :: [c] -> "S" ^ string_of_int c
        | [c] -> string_of_int c
        | _ -> "?") in
  Printf.sprintf "%d %s %d" ex out (if r.r_diag then 1 else 0)
let run_trace () =
  let ch = if geti () = 0 then FromFile else FromStdin in
  let inp = match geti () with 0 -> Missing | 1 -> NotAFile | 2 -> EmptyInput | 4 -> Undecodable | _ -> Content [] in
  let ok = geti () <> 0 in
  let ops = trace ch inp ok in
  let s = String.concat " " (List.map (function Create n -> "C" ^ string_of_int (int_of_nat n) | Remove n -> "R" ^ string_of_int (int_of_nat n)) ops) in
  s ^ " | " ^ String.concat " " (List.map (fun n -> string_of_int (int_of_nat n)) (apply_ops ops []))
let () =
  try
    while true do
      let line = input_line stdin in
      toks := Array.of_list (List.filter (fun s -> s <> "") (String.split_on_char ' ' line)); pos := 0;
      let f = next () in
      let out = try (match f with "resolve" -> run_resolve () | "eff" -> run_eff () | "report" -> run_report ()
                                  | "plan" -> run_plan () | "trace" -> run_trace () | _ -> "UNKNOWN")
        with e -> "ERROR " ^ Printexc.to_string e in
      print_endline out
    done
  with End_of_file -> ()
