(* Line-oriented driver for the extracted regenerated functions (Gen/).
   Input:  <function> <int> ...        (lists are prefixed by their length)
   Output: one line per input line: the result, "RAISE <exn>" for exceptional results. *)
open Gen
open Zconv
let toks = ref [||] and pos = ref 0
let next () = let t = !toks.(!pos) in incr pos; t
let geti () = int_of_string (next ())
let getz () = z_of_int (geti ())
let getb () = geti () <> 0
let getlist f = let n = geti () in List.init n (fun _ -> f ())
let show_res f r = match r with Ok a -> f a | Raise IndexError -> "RAISE IndexError" | Raise ValueError -> "RAISE ValueError" | Raise OutOfFuel -> "RAISE OutOfFuel"
let sz x = string_of_int (int_of_z x)
let sb b = if b then "1" else "0"
let sivs l = String.concat " " (List.map (fun (a, b) -> sz a ^ ":" ^ sz b) l)
let pred v = match v with Some x -> int_of_z x = 1 | None -> false
let getiv () = let a = getz () in let b = getz () in let c = getz () in let d = getz () in ((a, b), (c, d))
let gettbl () = getlist (fun () -> let k = getz () in let l = getlist getiv in (k, l))
let () =
  try
    while true do
      let line = input_line stdin in
      toks := Array.of_list (List.filter (fun s -> s <> "") (String.split_on_char ' ' line)); pos := 0;
      let f = next () in
      let out = match f with
        | "size" -> let s = getz () in let e = getz () in let g = getz () in sz (scoreboard_size s e g)
        | "i2d_py" | "i2d_cy" ->
          let s = getz () in let e = getz () in let r = getz () in let n = getz () in let i = getz () in let fl = getb () in
          show_res sz ((if f = "i2d_py" then scoreboard_idxToDate_py else scoreboard_idxToDate_cy) s e r n i fl)
        | "d2i_py" | "d2i_cy" ->
          let s = getz () in let e = getz () in let r = getz () in let n = getz () in let t = getz () in let fl = getb () in
          show_res sz ((if f = "d2i_py" then scoreboard_dateToIdx_py else scoreboard_dateToIdx_cy) s e r n t fl)
        | "collect_py" | "collect_cy" ->
          let s = getz () in let e = getz () in let r = getz () in let n = getz () in
          let sbl = getlist getz in let t1 = getz () in let t2 = getz () in let md = getz () in
          show_res sivs ((if f = "collect_py" then scoreboard_collectIntervals_py else scoreboard_collectIntervals_cy) s e r n sbl (t1, t2) md pred)
        | "pd2i_py" | "pd2i_cy" ->
          let s = getz () in let g = getz () in let t = getz () in
          sz ((if f = "pd2i_py" then project_dateToIdx_py else project_dateToIdx_cy) s g t true)
        | "pi2d_py" | "pi2d_cy" ->
          let s = getz () in let g = getz () in let i = getz () in
          sz ((if f = "pi2d_py" then project_idxToDate_py else project_idxToDate_cy) s g i)
        | "psize_py" -> let s = getz () in let e = getz () in let g = getz () in sz (project_scoreboardSize_nosb s e g)
        | "psize_cy" -> let s = getz () in let e = getz () in let g = getz () in sz (scoreboard_size_cy s e g)
        | "iswork_cy" -> let i = getz () in let s = getz () in let g = getz () in let a = getz () in let b = getz () in sb (is_working_time_fast i s g a b)
        | "onshift_py" | "onshift_cy" ->
          let tbl = gettbl () in let dt = getz () in
          sb ((if f = "onshift_py" then workingHours_onShift_local_py else workingHours_onShift_local_cy) tbl dt)
        | "chk_cy" -> let m = getz () in let wd = getz () in let tbl = gettbl () in let c = getb () in sb (check_working_hours_fast m wd tbl c)
        | "daily_py" | "daily_cy" ->
          let tbl = gettbl () in let wd = getz () in
          sz ((if f = "daily_py" then workingHours_get_daily_minutes_py else workingHours_get_daily_minutes_cy) tbl wd)
        | "limidx" -> let s = getz () in let g = getz () in let p = getz () in let i = getz () in sz (limit_idx_to_sb_idx s g p i)
        | _ -> "UNKNOWN " ^ f in
      print_endline out
    done
  with End_of_file -> ()
