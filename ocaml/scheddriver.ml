(* Driver for the extracted scheduler model (one project per line) and ledger model.
   sched <flat ints>   ->  per task "s:e" or "-" , then "|" , then bookings "t,r,s" sorted
   ledger G_num G_den nops (kind a b c)*  -> used and entries as floats *)
open Sched
open Zconvs
(* the ledger functions are extracted at top level: run, step, empty *)
let toks = ref [||] and pos = ref 0
let next () = let t = !toks.(!pos) in incr pos; t
let geti () = int_of_string (next ())
let getn () = nat_of_int (geti ())
let getlist f = let n = geti () in List.init n (fun _ -> f ())
let q_of num den = { qnum = z_of_int num; qden = pos_of_int den }
(* exact rationals are reduced first; numerator and denominator are converted bit by bit (they may exceed 63 bits) *)
let rec float_of_pos (p : positive) : float = match p with XH -> 1. | XO q -> 2. *. float_of_pos q | XI q -> 2. *. float_of_pos q +. 1.
let float_of_zz (x : z) : float = match x with Z0 -> 0. | Zpos p -> float_of_pos p | Zneg p -> -. (float_of_pos p)
let float_of_q q = let q = qred q in float_of_zz q.qnum /. float_of_pos q.qden
let run_sched alap =
  let upper = getn () in
  let start = z_of_int (geti ()) in let g = z_of_int (geti ()) in
  let getiv () = let a = z_of_int (geti ()) in let b = z_of_int (geti ()) in let c = z_of_int (geti ()) in let d = z_of_int (geti ()) in ((a, b), (c, d)) in
  let res = getlist (fun () ->
      let kind = geti () in
      if kind = 0 then (let w = getlist (fun () -> geti () <> 0) in let l = getlist getn in mk_resource w l)
      else begin
        (* calendar computed inside the model: hours table (or default), blocked intervals *)
        let has = geti () <> 0 in
        let tbl = if has then Some (getlist (fun () -> let k = z_of_int (geti ()) in let l = getlist getiv in (k, l))) else None in
        let off = getlist (fun () -> let a = z_of_int (geti ()) in let b = z_of_int (geti ()) in (a, b)) in
        let l = getlist getn in
        mk_resource_cal tbl off start g upper l
      end) in
  let lims = getlist (fun () -> let v = getn () in let per = z_of_int (geti ()) in let o = geti () in
                        mk_limit v start g per (if o < 0 then None else Some (nat_of_int o))) in
  let tasks = getlist (fun () ->
      let leaf = geti () <> 0 in let kids = getlist getn in let leaves = getlist getn in
      let prio = z_of_int (geti ()) in let need = getn () in let team = getlist getn in
      let deps = getlist (fun () -> let t = getn () in let o = geti () <> 0 in let gp = getn () in
                           { d_task = t; d_onstart = o; d_gap = gp }) in
      let pin = geti () in let lb = getn () in let tl = getlist getn in
      { t_leaf = leaf; t_kids = kids; t_leaves = leaves; t_prio = prio; t_need = need; t_team = team; t_deps = deps;
        t_pin = (if pin < 0 then None else Some (nat_of_int pin)); t_lb = lb; t_limits = tl }) in
  let p = { p_tasks = tasks; p_res = res; p_limits = lims; p_upper = upper } in
  (* 'alap': the project is read backwards (Model/Alap.v); the mirroring happens inside the extracted model *)
  let results = if alap then alap_results p else all_results p in
  let booked = if alap then alap_bookings p else all_bookings p in
  let rs = List.map (fun d -> match d with
      | Some (s, e) -> Printf.sprintf "%d:%d" (int_of_nat s) (int_of_nat e) | None -> "-") results in
  let bs = List.sort compare (List.map (fun b -> (int_of_nat b.b_task, int_of_nat b.b_res, int_of_nat b.b_slot)) booked) in
  String.concat " " rs ^ " | " ^ String.concat ";" (List.map (fun (t, r, s) -> Printf.sprintf "%d,%d,%d" t r s) bs)
(* sub-slot scheduler (Model/SubSlot.v):
   sd upper start G nres [nwork flags.. eff_num eff_den nlims lims..].. nlimits [value period only]..
      ntasks [leaf nleaves leaves.. prio mile effort_num effort_den res ndeps [task onstart gap].. pin(-1 none) lb nlims lims..]..
   answer: per task "s:e" (seconds) or "-" | ledger entries t,r,slot,seconds *)
let run_sd () =
  let upper = geti () in
  let start = z_of_int (geti ()) in
  let g = geti () in
  let res = getlist (fun () ->
      let w = Array.of_list (getlist (fun () -> geti () <> 0)) in
      let en = geti () in let ed = geti () in
      let l = getlist getn in
      { sr_work = (fun s -> let i = int_of_nat s in i < Array.length w && w.(i)); sr_eff = q_of en ed; sr_limits = l }) in
  let lims = getlist (fun () -> let v = getn () in let per = z_of_int (geti ()) in let o = geti () in
                        mk_slimit v start (z_of_int g) per (if o < 0 then None else Some (nat_of_int o))) in
  let tasks = getlist (fun () ->
      let leaf = geti () <> 0 in let leaves = getlist getn in
      let prio = z_of_int (geti ()) in let mile = geti () <> 0 in
      let en = geti () in let ed = geti () in let r = getn () in
      let deps = getlist (fun () -> let t = getn () in let o = geti () <> 0 in let gp = z_of_int (geti ()) in
                           { sd_task = t; sd_onstart = o; sd_gap = gp }) in
      let pin = geti () in let lb = z_of_int (geti ()) in
      let tl = getlist getn in
      { s_leaf = leaf; s_leaves = leaves; s_prio = prio; s_mile = mile; s_effort = q_of en ed; s_res = r; s_deps = deps;
        s_pin = (if pin < 0 then None else Some (z_of_int pin)); s_lb = lb; s_limits = tl }) in
  let p = { sp_tasks = tasks; sp_res = res; sp_limits = lims; sp_upper = nat_of_int upper; sp_G = z_of_int g } in
  let (st, results) = sall_results p in
  let rs = List.map (fun d -> match d with
      | Some (s, e) -> Printf.sprintf "%d:%d" (int_of_z s) (int_of_z e) | None -> "-") results in
  let buf = Buffer.create 256 in
  let keys = List.sort_uniq compare (List.map (fun (r, s) -> (int_of_nat r, int_of_nat s)) st.stouched) in
  List.iter (fun (r, s) ->
      let c = st.cells (nat_of_int r) (nat_of_int s) in
      List.iter (fun (t, x) -> Buffer.add_string buf (Printf.sprintf "%d,%d,%d,%.6f;" (int_of_nat t) r s (float_of_q x))) c.entries) keys;
  String.concat " " rs ^ " | " ^ Buffer.contents buf
(* the same for teams (Model/SubSlotTeam.v): sdt ... per task: ... effort_num effort_den nteam team.. ndeps ... *)
let run_sdt () =
  let upper = geti () in
  let start = z_of_int (geti ()) in
  let g = geti () in
  let res = getlist (fun () ->
      let w = Array.of_list (getlist (fun () -> geti () <> 0)) in
      let en = geti () in let ed = geti () in
      let l = getlist getn in
      { sr_work = (fun s -> let i = int_of_nat s in i < Array.length w && w.(i)); sr_eff = q_of en ed; sr_limits = l }) in
  let lims = getlist (fun () -> let v = getn () in let per = z_of_int (geti ()) in let o = geti () in
                        mk_slimit v start (z_of_int g) per (if o < 0 then None else Some (nat_of_int o))) in
  let tasks = getlist (fun () ->
      let leaf = geti () <> 0 in let leaves = getlist getn in
      let prio = z_of_int (geti ()) in let mile = geti () <> 0 in
      let en = geti () in let ed = geti () in let team = getlist getn in
      let deps = getlist (fun () -> let t = getn () in let o = geti () <> 0 in let gp = z_of_int (geti ()) in
                           { sd_task = t; sd_onstart = o; sd_gap = gp }) in
      let pin = geti () in let lb = z_of_int (geti ()) in
      let tl = getlist getn in
      { tt_leaf = leaf; tt_leaves = leaves; tt_prio = prio; tt_mile = mile; tt_effort = q_of en ed; tt_team = team; tt_deps = deps;
        tt_pin = (if pin < 0 then None else Some (z_of_int pin)); tt_lb = lb; tt_limits = tl }) in
  let p = { tp_tasks = tasks; tp_res = res; tp_limits = lims; tp_upper = nat_of_int upper; tp_G = z_of_int g } in
  let (st, results) = tall_results p in
  let rs = List.map (fun d -> match d with
      | Some (s, e) -> Printf.sprintf "%d:%d" (int_of_z s) (int_of_z e) | None -> "-") results in
  let buf = Buffer.create 256 in
  let keys = List.sort_uniq compare (List.map (fun (r, s) -> (int_of_nat r, int_of_nat s)) st.stouched) in
  List.iter (fun (r, s) ->
      let c = st.cells (nat_of_int r) (nat_of_int s) in
      List.iter (fun (t, x) -> Buffer.add_string buf (Printf.sprintf "%d,%d,%d,%.6f;" (int_of_nat t) r s (float_of_q x))) c.entries) keys;
  String.concat " " rs ^ " | " ^ Buffer.contents buf
let run_ledger () =
  let gn = geti () in let gd = geti () in
  let ops = getlist (fun () ->
      let k = geti () in let a = geti () in let b = geti () in let c = geti () in
      match k with
      | 0 -> Offset (q_of a b)
      | 1 -> Book (nat_of_int a, if c = 0 then None else Some (q_of b c))
      | _ -> Finish (nat_of_int a, q_of b c)) in
  let cell = run (q_of gn gd) ops in
  Printf.sprintf "%.6f | %s" (float_of_q cell.used)
    (String.concat ";" (List.map (fun (t, x) -> Printf.sprintf "%d,%.6f" (int_of_nat t) (float_of_q x)) cell.entries))
let () =
  try
    while true do
      let line = input_line stdin in
      toks := Array.of_list (List.filter (fun s -> s <> "") (String.split_on_char ' ' line)); pos := 0;
      let f = next () in
      let out = try (match f with "sched" -> run_sched false | "alap" -> run_sched true | "sd" -> run_sd () | "sdt" -> run_sdt () | "ledger" -> run_ledger () | _ -> "UNKNOWN") with e -> "ERROR " ^ Printexc.to_string e in
      print_endline out
    done
  with End_of_file -> ()
