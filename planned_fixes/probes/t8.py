from h import *
print("--- ALAP simple chain with end on last")
p,_=run('''
project p "P" 2025-01-06 +2w { timezone "Etc/UTC" scheduling alap }
resource r "R" {}
task a "A" { effort 4h allocate r }
task b "B" { effort 4h allocate r depends !a }
task c "C" { effort 90min allocate r depends !b end 2025-01-10-17:00 }
'''); ledger(p)
print("--- ALAP two tasks competing, sub-slot")
p,_=run('''
project p "P" 2025-01-06 +1w { timezone "Etc/UTC" scheduling alap }
resource r "R" {}
task a "A" { effort 90min allocate r }
task b "B" { effort 90min allocate r }
'''); ledger(p)
print("--- task-level ALAP in ASAP project with gap")
p,_=run('''
project p "P" 2025-01-06 +2w { timezone "Etc/UTC" }
resource r "R" {}
resource q "Q" {}
task a "A" { effort 4h allocate r }
task b "B" { effort 3h allocate q depends !a { gapduration 2h } scheduling alap end 2025-01-10-17:00 }
'''); ledger(p)
