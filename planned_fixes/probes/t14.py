from h import *
p,_=run('''
project p "P" 2025-01-06 +8w { timezone "Etc/UTC" }
resource r0 "r0" { }
task a "a" { effort 2h allocate r0 }
task c "c" { depends a { gapduration 2h }
  task k "k" { effort 1h allocate r0 }
}
''')
k=p.tasks['c.k']; a=p.tasks['a']
for d in k.get('depends',0): 
    t=d['task'] if isinstance(d,dict) else d
    print('dep task is a?', t is a, 'same project?', t.project is p, t.fullId)
