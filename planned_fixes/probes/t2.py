from h import *
print("--- A: two tasks share a slot (no dep)")
p,_ = run('''
project p "P" 2025-01-06 +2w { timezone "Etc/UTC" }
resource r "R" {}
task t0 "T0" { effort 90min allocate r }
task t2 "T2" { effort 2h allocate r priority 100 }
'''); ledger(p)
print("--- B: three tasks each 20min, independent, same resource")
p,_ = run('''
project p "P" 2025-01-06 +2w { timezone "Etc/UTC" }
resource r "R" {}
task a "A" { effort 20min allocate r }
task b "B" { effort 20min allocate r }
task c "C" { effort 20min allocate r }
task d "D" { effort 20min allocate r }
'''); ledger(p)
print("--- C: chain of 20min tasks")
p,_ = run('''
project p "P" 2025-01-06 +2w { timezone "Etc/UTC" }
resource r "R" {}
task a "A" { effort 20min allocate r }
task b "B" { effort 20min allocate r depends !a }
task c "C" { effort 20min allocate r depends !b }
task d "D" { effort 20min allocate r depends !c}
'''); ledger(p)
print("--- D: team ending mid-slot")
p,_ = run('''
project p "P" 2025-01-06 +2w { timezone "Etc/UTC" }
resource r1 "R1" {}
resource r2 "R2" {}
task a "A" { effort 90min allocate r1, r2 }
task b "B" { effort 1h allocate r1 }
task c "C" { effort 1h allocate r2 }
'''); ledger(p)
