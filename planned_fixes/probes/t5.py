from h import *
print("--- C03 float accumulation: 73min at 1min resolution, eff 1.0; and others")
for eff_s, effort in [("1.0","73min"),("1.0","7min"),("0.7","49min"),("1.3","91min"), ("1.0","1.1h"), ("0.9","2.7h"), ("1.0","0.7h")]:
    p,out = run(f'''
project p "P" 2025-01-06 +2w {{ timezone "Etc/UTC" timingresolution 1min }}
resource r "R" {{ efficiency {eff_s} }}
task a "A" {{ effort {effort} allocate r }}
''', show=False)
    rs = p.resources['r'].data[0]
    tot = sum(s for l in rs.slotTaskUsage.values() for _,s in l)
    print(eff_s, effort, out[0][2:], 'booked s', tot, 'slots', len(rs.slotTaskUsage), 'effort attr', p.tasks['a'].get('effort',0), 'credited', tot/3600*float(eff_s))
print("--- C02 single-day resource leave / vacation")
p,out = run('''
project p "P" 2025-01-06 +2w { timezone "Etc/UTC" }
resource r "R" { leaves annual 2025-01-06 }
resource q "Q" { vacation 2025-01-06 }
resource s "S" { leaves annual 2025-01-06 - 2025-01-07 }
task a "A" { effort 2h allocate r }
task b "B" { effort 2h allocate q }
task c "C" { effort 2h allocate s }
''')
print("--- C02 global leaves single and vacation")
p,out = run('''
project p "P" 2025-01-06 +2w { timezone "Etc/UTC" }
leaves holiday "H" 2025-01-06
vacation "V" 2025-01-07
resource r "R" { }
task a "A" { effort 2h allocate r }
''')
print("--- C04 inherited start from container ignoring deps")
p,out = run('''
project p "P" 2025-01-06 +4w { timezone "Etc/UTC" }
resource r "R" { }
resource q "Q" { }
task pre "Pre" { effort 16h allocate r }
task box "Box" {
  start 2025-01-06
  task a "A" { effort 2h allocate q depends pre }
}
''')
print("--- C04 container dependency")
p,out = run('''
project p "P" 2025-01-06 +4w { timezone "Etc/UTC" }
resource r "R" { }
resource q "Q" { }
task pre "Pre" { effort 16h allocate r }
task box "Box" {
  depends pre
  task a "A" { effort 2h allocate q }
}
''')
