from h import *
for start, in [("2027-01-01",),("2027-01-08",)]:
    print('--- start', start)
    p,_=run(f'''
project p "P" {start} +4w {{ timezone "Etc/UTC" }}
resource r "R" {{ limits {{ weeklymax 8h }} }}
task a "A" {{ effort 16h allocate r }}
''')
