from h import *
print("--- C15 absolute ref vs nested same id declared earlier")
p,out = run('''
project p "P" 2025-01-06 +4w { timezone "Etc/UTC" }
resource r "R" { }
resource q "Q" { }
task grp "G" {
  task x "nested x" { effort 1h allocate q }
}
task x "root x" { effort 16h allocate r }
task y "Y" { effort 2h allocate q depends x }
''')
print("--- same, renamed nested x -> z")
p,out = run('''
project p "P" 2025-01-06 +4w { timezone "Etc/UTC" }
resource r "R" { }
resource q "Q" { }
task grp "G" {
  task z "nested x" { effort 1h allocate q }
}
task x "root x" { effort 16h allocate r }
task y "Y" { effort 2h allocate q depends x }
''')
print("--- C15 relative vs absolute path")
p,out = run('''
project p "P" 2025-01-06 +4w { timezone "Etc/UTC" }
resource r "R" { }
resource q "Q" { }
task g "G" {
  task a "A" { effort 16h allocate r }
  task b "B" { effort 2h allocate q depends g.a }
  task c "C" { effort 2h allocate q depends !a }
  task h "H" { task d "D" { effort 1h allocate q depends !!a } }
}
''')
print("--- resource nested lookup by id; resource in group")
p,out = run('''
project p "P" 2025-01-06 +4w { timezone "Etc/UTC" }
resource team "T" { resource r "R" { } resource q "Q" {} }
task a "A" { effort 4h allocate r }
task b "B" { effort 4h allocate team }
''')
ledger(p)
