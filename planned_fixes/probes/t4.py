import sys; sys.path.insert(0,'/repo')
from datetime import datetime, timedelta
from scriptplan.scheduler.scoreboard import Scoreboard
import scriptplan.scheduler.scoreboard as sbm
from scriptplan.utils.time import TimeInterval
print('cython', sbm._USE_CYTHON)
s = Scoreboard(datetime(2025,1,6), datetime(2025,1,6,10), 3600, None)
print('size', s.size)
for i in [0,1,2,5,6]: s[i] = 1
pred = lambda v: v == 1
iv = TimeInterval(datetime(2025,1,6,0), datetime(2025,1,6,10))
for m in (3600, 7200):
    r = s.collectIntervals(iv, m, pred)
    print(m, [(s.dateToIdx(x.start), s.dateToIdx(x.end)) for x in r])
sbm._USE_CYTHON = False
for m in (3600, 7200):
    r = s.collectIntervals(iv, m, pred)
    print('py', m, [(s.dateToIdx(x.start), s.dateToIdx(x.end)) for x in r])
# window inside
iv = TimeInterval(datetime(2025,1,6,1), datetime(2025,1,6,6))
r = s.collectIntervals(iv, 3600, pred)
print('win1-6', [(s.dateToIdx(x.start), s.dateToIdx(x.end)) for x in r])
# C13 daily hours
from scriptplan.core import working_hours as whm
from scriptplan._cython.working_hours_cy import calculate_daily_hours
iv = [((8,13),(11,59))]
print(calculate_daily_hours(iv), (11*60+59-8*60-13)/60.0)
import inspect
print(TimeInterval.__init__.__doc__)
