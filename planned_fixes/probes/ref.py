import random, io, contextlib, datetime as dt, sys
from h import *
H=3600
START=dt.datetime(2025,1,6)
def working_default(t):  # Mon-Fri 9-17
    return t.weekday()<5 and 9<=t.hour<17
def gen(rng):
    nr=rng.randint(1,3); nt=rng.randint(2,8)
    R=[]
    for i in range(nr):
        R.append(dict(id=f"r{i}", dailymax=rng.choice([None,None,2,4]), leave=rng.choice([None,None,(1,2)])))  # leave: day offsets [a,b)
    T=[]
    for i in range(nt):
        deps=[(j, rng.choice([0,0,1,3])) for j in range(i) if rng.random()<0.3]
        T.append(dict(id=f"t{i}", effort=rng.choice([1,2,3,5,8,13]), alloc=rng.sample(range(nr), rng.choice([1,1,2]) if nr>1 else 1),
                      prio=rng.choice([100,500,500,900]), deps=deps, start=rng.choice([None]*5+[rng.randint(0,5)])))
    return R,T
def render(R,T):
    L=['project p "P" 2025-01-06 +8w { timezone "Etc/UTC" }']
    for r in R:
        body=""
        if r['dailymax']: body+=f" limits {{ dailymax {r['dailymax']}h }}"
        if r['leave']:
            a,b=r['leave']; body+=f" leaves annual {(START+dt.timedelta(days=a)).strftime('%Y-%m-%d')} - {(START+dt.timedelta(days=b)).strftime('%Y-%m-%d')}"
        L.append(f'resource {r["id"]} "{r["id"]}" {{{body} }}')
    for t in T:
        d=""
        if t['deps']:
            d=" depends "+", ".join(f"{T[j]['id']}"+(f" {{ gapduration {g}h }}" if g else "") for j,g in t['deps'])
        s=f" start {(START+dt.timedelta(days=t['start'],hours=9)).strftime('%Y-%m-%d-%H:%M')}" if t['start'] is not None else ""
        L.append(f'task {t["id"]} "{t["id"]}" {{ effort {t["effort"]}h allocate {", ".join(R[i]["id"] for i in t["alloc"])} priority {t["prio"]}{d}{s} }}')
    return "\n".join(L)
def ref(R,T,nslots):
    booked=[set() for _ in R]; daycnt=[{} for _ in R]
    def t_of(s): return START+dt.timedelta(hours=s)
    def working(ri,s):
        t=t_of(s)
        if not working_default(t): return False
        lv=R[ri]['leave']
        if lv and START+dt.timedelta(days=lv[0])<=t<START+dt.timedelta(days=lv[1]): return False
        return True
    def ok(ri,s):
        if not working(ri,s) or s in booked[ri]: return False
        dm=R[ri]['dailymax']
        if dm and daycnt[ri].get(t_of(s).date(),0)>=dm: return False
        return True
    res={}
    order=sorted(range(len(T)), key=lambda i:(-T[i]['prio'], i))
    remaining=list(order)
    while remaining:
        pick=None
        for i in remaining:
            if all(j in res and res[j][0] for j,_ in T[i]['deps']): pick=i; break
        if pick is None: break
        remaining.remove(pick); t=T[pick]
        if t['start'] is not None: bound=START+dt.timedelta(days=t['start'],hours=9)
        else:
            bound=START
            for j,g in t['deps']:
                b=res[j][2]+dt.timedelta(hours=g)
                if b>bound: bound=b
        s=int((bound-START).total_seconds()//H); need=t['effort']; first=None; last=None
        while need>0 and s<=nslots:
            if all(ok(ri,s) for ri in t['alloc']):
                for ri in t['alloc']:
                    booked[ri].add(s); d=t_of(s).date(); daycnt[ri][d]=daycnt[ri].get(d,0)+1
                if first is None: first=s
                last=s; need-=1
            s+=1
        if need>0: res[pick]=(False,None,None)
        else: res[pick]=(True,t_of(first),t_of(last+1))
    return {T[i]['id']:res.get(i,(False,None,None)) for i in range(len(T))}
rng=random.Random(int(sys.argv[1]) if len(sys.argv)>1 else 5)
bad=0; N=int(sys.argv[2]) if len(sys.argv)>2 else 200
for it in range(N):
    R,T=gen(rng); txt=render(R,T)
    with contextlib.redirect_stderr(io.StringIO()):
        try: p=ProjectFileParser().parse(txt)
        except Exception as e: print("EXC",type(e).__name__,e); print(txt); bad+=1; continue
    nslots=p.dateToIdx(p['end'])
    impl={t.fullId:(bool(t.get('scheduled',0)), t.get('start',0) if t.get('scheduled',0) else None, t.get('end',0) if t.get('scheduled',0) else None) for t in p.tasks}
    r=ref(R,T,nslots)
    if impl!=r:
        bad+=1
        if bad<=3:
            print("DIFF"); print(txt)
            for k in r:
                if impl[k]!=r[k]: print(" ",k,"impl",impl[k],"ref",r[k])
print("cases",N,"bad",bad)
