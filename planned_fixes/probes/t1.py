from h import *
# C01/C06: T0 ends mid-slot, T1 short starts and ends in same shared slot, T2 follows
txt = '''
project p "P" 2025-01-06 +2w {
  timezone "Etc/UTC"
}
resource r "R" {}
task t0 "T0" { effort 90min allocate r }
task t1 "T1" { effort 10min allocate r depends !t0 }
task t2 "T2" { effort 2h allocate r priority 100 }
'''
p, out = run(txt)
ledger(p)
