from h import *
p,_=run('''
project p "P" 2025-01-05 +2w { timezone "Etc/UTC" }
resource r "R" { workinghours mon 22:00 - 06:00 }
task a "A" { effort 12h allocate r }
''')
ledger(p)
