from h import *
p,_=run('''
project p "P" 2025-01-06 +2w { timezone "Etc/UTC" }
leaves holiday "H" 2025-01-06-11:00 - 2025-01-06-13:00
resource r "R" {}
resource q "Q" {}
task a "A" { effort 90min allocate r }
task b "B" { effort 2h allocate q depends !a { gapduration 60min } }
task c "C" { effort 4h allocate r depends !a }
''')
ledger(p)
