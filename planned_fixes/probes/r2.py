import random, io, contextlib
from h import *
def res(txt):
    with contextlib.redirect_stderr(io.StringIO()):
        p = ProjectFileParser().parse(txt)
    return p
def dates(p, sc): return {t.fullId:(t.get('scheduled',sc), t.get('start',sc), t.get('end',sc)) for t in p.tasks}
rng=random.Random(7)
bad=0
for it in range(80):
    nt=rng.randint(2,6)
    hdr1='project p "P" 2025-01-06 +8w { timezone "Etc/UTC" }'
    hdr2='project p "P" 2025-01-06 +8w { timezone "Etc/UTC" scenario plan "Plan" { scenario s1 "S1" { scenario s2 "S2" } scenario s3 "S3" } }'
    body=['resource r0 "r0" { limits { dailymax 4h } }','resource r1 "r1" {}']
    ov={}
    tl=[]; tl_plain=[]; tl_s1=[]
    for i in range(nt):
        deps=[f"t{j}" for j in range(i) if rng.random()<0.3]
        d=(" depends "+", ".join(deps)) if deps else ""
        e=rng.choice([2,4,8,12]); e1=rng.choice([None,None,3,16])
        al=rng.choice(["r0","r1","r0, r1"])
        o=f" s1:effort {e1}h" if e1 else ""
        tl.append(f'task t{i} "t{i}" {{ effort {e}h{o} allocate {al}{d} }}')
        tl_plain.append(f'task t{i} "t{i}" {{ effort {e}h allocate {al}{d} }}')
        tl_s1.append(f'task t{i} "t{i}" {{ effort {e1 or e}h allocate {al}{d} }}')
    multi=res("\n".join([hdr2]+body+tl))
    plain=res("\n".join([hdr1]+body+tl_plain))
    s1=res("\n".join([hdr1]+body+tl_s1))
    ids=[s.id for s in multi.scenarios]
    ok = dates(multi,0)==dates(plain,0) and dates(multi,ids.index('s1'))==dates(s1,0) and dates(multi,ids.index('s3'))==dates(plain,0)
    # s2 is child of s1 : without overrides same as its parent?
    s2same = dates(multi,ids.index('s2'))==dates(multi,ids.index('s1'))
    if not ok or not s2same:
        bad+=1
        if bad<=2:
            print("C16 DIFF ok",ok,"s2same",s2same, ids); print("\n".join([hdr2]+body+tl))
            for i in range(len(ids)): print(ids[i], dates(multi,i))
            print('plain',dates(plain,0)); print('s1',dates(s1,0))
print("C16 bad",bad)
