# containers: inherited depends / priority; group limits
import random, io, contextlib, datetime as dt, sys
from h import *
import ref as base
H=3600; START=base.START
def gen(rng):
    nr=rng.randint(1,2)
    R=[dict(id=f"r{i}", dailymax=rng.choice([None,2,4]), leave=None) for i in range(nr)]
    grp_daily=rng.choice([None,None,3])
    # two-level: containers c0..ck each with leaves; container-level deps on earlier container or leaf, container priority
    nc=rng.randint(1,3); C=[]; T=[]
    for c in range(nc):
        cdeps=[]
        if T and rng.random()<0.5: cdeps=[(rng.randrange(len(T)), rng.choice([0,2]))]
        cpr=rng.choice([None,None,100,900])
        n=rng.randint(1,3); kids=[]
        for k in range(n):
            i=len(T)
            local=[(j, 0) for j in kids if rng.random()<0.4]
            T.append(dict(id=f"c{c}.t{i}", lid=f"t{i}", cont=c, effort=rng.choice([1,2,4,6]), alloc=[rng.randrange(nr)],
                          prio=rng.choice([None,None,300,700]), own=local, deps=None, start=None))
            kids.append(i)
        C.append(dict(id=f"c{c}", deps=cdeps, prio=cpr, kids=kids))
    for t in T:
        c=C[t['cont']]
        t['deps']=t['own']+c['deps']
        t['eprio']=t['prio'] if t['prio'] is not None else (c['prio'] if c['prio'] is not None else 500)
    return R,C,T,grp_daily
def render(R,C,T,gd):
    L=['project p "P" 2025-01-06 +8w { timezone "Etc/UTC" }']
    gl=f" limits {{ dailymax {gd}h }}" if gd else ""
    L.append(f'resource team "team" {{{gl}')
    for r in R:
        body=f" limits {{ dailymax {r['dailymax']}h }}" if r['dailymax'] else ""
        L.append(f'  resource {r["id"]} "{r["id"]}" {{{body} }}')
    L.append('}')
    for c in C:
        d=""
        if c['deps']:
            d=" depends "+", ".join(T[j]['id']+(f" {{ gapduration {g}h }}" if g else "") for j,g in c['deps'])
        pr=f" priority {c['prio']}" if c['prio'] is not None else ""
        L.append(f'task {c["id"]} "{c["id"]}" {{{pr}{d}')
        for i in c['kids']:
            t=T[i]
            dd=(" depends "+", ".join("!"+T[j]['lid'] for j,_ in t['own'])) if t['own'] else ""
            pp=f" priority {t['prio']}" if t['prio'] is not None else ""
            L.append(f'  task {t["lid"]} "{t["lid"]}" {{ effort {t["effort"]}h allocate {R[t["alloc"][0]]["id"]}{pp}{dd} }}')
        L.append('}')
    return "\n".join(L)
def ref(R,T,gd,nslots):
    booked=[set() for _ in R]; daycnt=[{} for _ in R]; gcnt={}
    def t_of(s): return START+dt.timedelta(hours=s)
    def ok(ri,s):
        t=t_of(s)
        if not base.working_default(t) or s in booked[ri]: return False
        dm=R[ri]['dailymax']
        if dm and daycnt[ri].get(t.date(),0)>=dm: return False
        if gd and gcnt.get(t.date(),0)>=gd: return False
        return True
    res={}
    order=sorted(range(len(T)), key=lambda i:(-T[i]['eprio'], i))
    remaining=list(order)
    while remaining:
        pick=None
        for i in remaining:
            if all(j in res and res[j][0] for j,_ in T[i]['deps']): pick=i; break
        if pick is None: break
        remaining.remove(pick); t=T[pick]
        bound=START
        for j,g in t['deps']:
            b=res[j][2]+dt.timedelta(hours=g)
            if b>bound: bound=b
        s=int((bound-START).total_seconds()//H); need=t['effort']; first=last=None
        while need>0 and s<=nslots:
            if all(ok(ri,s) for ri in t['alloc']):
                for ri in t['alloc']:
                    booked[ri].add(s); d=t_of(s).date(); daycnt[ri][d]=daycnt[ri].get(d,0)+1; gcnt[d]=gcnt.get(d,0)+1
                if first is None: first=s
                last=s; need-=1
            s+=1
        res[pick]=(True,t_of(first),t_of(last+1)) if need==0 else (False,None,None)
    return {T[i]['id']:res.get(i,(False,None,None)) for i in range(len(T))}
rng=random.Random(int(sys.argv[1])); N=int(sys.argv[2]); bad=0
for it in range(N):
    R,C,T,gd=gen(rng); txt=render(R,C,T,gd)
    with contextlib.redirect_stderr(io.StringIO()):
        try: p=ProjectFileParser().parse(txt)
        except Exception as e: print("EXC",type(e).__name__,e); print(txt); bad+=1; continue
    impl={t.fullId:(bool(t.get('scheduled',0)), t.get('start',0) if t.get('scheduled',0) else None, t.get('end',0) if t.get('scheduled',0) else None) for t in p.tasks if t.leaf()}
    r=ref(R,T,gd,p.dateToIdx(p['end']))
    if impl!=r:
        bad+=1
        if bad<=2:
            print("DIFF"); print(txt)
            for k in r:
                if impl[k]!=r[k]: print(" ",k,"impl",impl[k],"ref",r[k])
print("cases",N,"bad",bad)
