from h import *
import json
txt='''
project p "P" 2025-01-06 +2w { timezone "Etc/UTC" timeformat "%Y-%m-%d %H:%M" }
resource r "R" { rate 100.0 efficiency 0.5 }
resource q "Q" { rate 10.0 }
task g "G" {
  task a "A" { effort 90min allocate r }
  task b "B" { effort 2h allocate r, q depends !a }
}
task u "U" { effort 1h allocate r depends !u }
taskreport rep "rep" { formats json, csv columns id, name, start, end, cost, effort, id leaftasksonly true }
taskreport rep2 "rep2" { formats json columns id, start, scheduled, priority }
'''
p = ProjectFileParser().parse(txt)
from scriptplan.report import ReportContext
for rep in p.reports:
    ctx = ReportContext(p, rep); ctx.push()
    rep.generate_intermediate_format()
    print(json.dumps(rep.to_json(), indent=None))
    print(rep.to_csv())
    ctx.pop()
ledger(p)
