from h import *
print("--- project ALAP with gap")
p,_=run('''
project p "P" 2025-01-06 +2w { timezone "Etc/UTC" scheduling alap }
resource r "R" {}
resource q "Q" {}
task a "A" { effort 4h allocate r }
task b "B" { effort 3h allocate q depends !a { gapduration 2h } end 2025-01-10-17:00 }
''')
print("--- project ALAP container dep inherited")
p,_=run('''
project p "P" 2025-01-06 +2w { timezone "Etc/UTC" scheduling alap }
resource r "R" {}
resource q "Q" {}
task a "A" { effort 4h allocate r }
task box "Box" { depends !a  end 2025-01-10-17:00
  task b "B" { effort 3h allocate q }
}
''')
