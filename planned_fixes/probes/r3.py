import random, io, contextlib
from h import *
def res(txt):
    with contextlib.redirect_stderr(io.StringIO()):
        return ProjectFileParser().parse(txt)
rng=random.Random(3)
def tree(depth, prefix, leaves):
    out=[]
    n=rng.randint(1,3)
    for i in range(n):
        tid=f"{prefix}{i}"
        if depth>0 and rng.random()<0.5:
            out.append(f'task {tid} "{tid}" {{ ' + " ".join(tree(depth-1, tid+"_", leaves)) + ' }')
        else:
            kind=rng.random()
            if kind<0.15: body='effort 2h allocate nowork'      # unschedulable
            elif kind<0.25: body='milestone'
            else: body=f'effort {rng.choice([1,2,5,9])}h allocate r{rng.randint(0,1)}'
            leaves.append(tid)
            out.append(f'task {tid} "{tid}" {{ {body} }}')
    return out
bad=0
for it in range(100):
    leaves=[]
    txt='project p "P" 2025-01-06 +8w { timezone "Etc/UTC" }\nresource r0 "r0" {}\nresource r1 "r1" {}\nresource nowork "n" { leaves annual 2025-01-01 - 2026-01-01 }\n'+"\n".join(tree(3,"t",leaves))
    p=res(txt)
    for t in p.tasks:
        if t.leaf(): continue
        kids=t.children
        allk=all(k.get('scheduled',0) for k in kids)
        sch=t.get('scheduled',0)
        ok = (bool(sch)==bool(allk))
        if sch and allk:
            ok = ok and t.get('start',0)==min(k.get('start',0) for k in kids) and t.get('end',0)==max(k.get('end',0) for k in kids)
        if not ok:
            bad+=1
            if bad<3: print("C10 DIFF", t.fullId, sch, allk, t.get('start',0), t.get('end',0), [(k.fullId,k.get('scheduled',0),k.get('start',0),k.get('end',0)) for k in kids]); print(txt)
    for r in p.resources:
        rs=r.data[0]
        for idx,l in rs.slotTaskUsage.items():
            for tk,s in l:
                if not tk.leaf() or not r.leaf(): bad+=1; print("nonleaf booking")
print("C10 bad",bad)
