from h import *
import traceback, time
def tryrun(name, txt, sc=None):
    print('---', name)
    t=time.time()
    try:
        p = ProjectFileParser().parse(txt)
        for i in range(p.scenarioCount()) if sc is None else sc:
            for t_ in p.tasks:
                print(' ', i, t_.fullId, t_.get('scheduled', i), t_.get('start', i), t_.get('end', i))
    except BaseException as e:
        print('EXC', type(e).__name__, str(e)[:200])
    print('  t=%.2f'%(time.time()-t))
tryrun('cycle', '''
project p "P" 2025-01-06 +2w { timezone "Etc/UTC" }
resource r "R" {}
task a "A" { effort 1h allocate r depends !b }
task b "B" { effort 1h allocate r depends !a }
task c "C" { effort 1h allocate r }
''')
tryrun('self dep', '''
project p "P" 2025-01-06 +2w { timezone "Etc/UTC" }
resource r "R" {}
task a "A" { effort 1h allocate r depends !a }
''')
tryrun('never-working resource', '''
project p "P" 2025-01-06 +2w { timezone "Etc/UTC" }
shift s "S" { workinghours mon 0:00 - 0:00 }
resource r "R" { leaves annual 2025-01-01 - 2026-01-01 }
task a "A" { effort 1h allocate r }
''')
tryrun('start beyond end', '''
project p "P" 2025-01-06 +2w { timezone "Etc/UTC" }
resource r "R" {}
task a "A" { effort 1h allocate r start 2026-01-01 }
task b "B" { effort 1h allocate r depends !a }
''')
tryrun('start before project', '''
project p "P" 2025-01-06 +2w { timezone "Etc/UTC" }
resource r "R" {}
task a "A" { effort 1h allocate r start 2024-01-01 }
''')
tryrun('gap beyond end', '''
project p "P" 2025-01-06 +1w { timezone "Etc/UTC" }
resource r "R" {}
task a "A" { effort 1h allocate r }
task b "B" { effort 1h allocate r depends !a { gapduration 100d } }
''')
tryrun('zero effort', '''
project p "P" 2025-01-06 +1w { timezone "Etc/UTC" }
resource r "R" {}
task a "A" { effort 0h allocate r }
task b "B" { effort 1h allocate r depends !a }
''')
tryrun('gaplength', '''
project p "P" 2025-01-06 +1w { timezone "Etc/UTC" }
resource r "R" {}
task a "A" { effort 1h allocate r }
task b "B" { effort 1h allocate r depends !a { gaplength 100d } }
''')
tryrun('scenarios', '''
project p "P" 2025-01-06 +4w { timezone "Etc/UTC"
  scenario plan "Plan" { scenario delayed "Delayed" }
}
resource r "R" { limits { dailymax 4h } }
task a "A" { effort 8h delayed:effort 16h allocate r }
task b "B" { effort 8h allocate r depends !a }
''')
