from h import *
import datetime as dt
print("--- C05a: dailymax beyond declared project end")
p,_ = run('''
project p "P" 2025-01-06 +1w { timezone "Etc/UTC" }
resource r "R" { limits { dailymax 2h } }
task a "A" { effort 40h allocate r }
''')
from collections import Counter
rs = p.resources['r'].data[0]
c = Counter()
for idx,l in rs.slotTaskUsage.items():
    c[p.idxToDate(idx).date()] += sum(s for _,s in l)/3600
for d in sorted(c): print(d, c[d])
print('project end', p['end'])
print("--- C05b: weeklymax, project starts Sunday 13 days")
p,_ = run('''
project p "P" 2025-01-05 +13d { timezone "Etc/UTC" }
resource r "R" { limits { weeklymax 4h } }
task a "A" { effort 10h allocate r }
''')
rs = p.resources['r'].data[0]
c = Counter()
for idx,l in rs.slotTaskUsage.items():
    c[p.idxToDate(idx).isocalendar()[:2]] += sum(s for _,s in l)/3600
for d in sorted(c): print(d, c[d])
print('project end', p['end'])
