import random, sys, os
from h import *
import io, contextlib
def gen(rng, nt=6, nr=2, res=60, sub=False):
    R=[f"r{i}" for i in range(nr)]
    lines=[f'project p "P" 2025-01-06 +6w {{ timezone "Etc/UTC" timingresolution {res}min }}']
    for r in R:
        eff = rng.choice(["1.0","1.0","0.5","2.0"]) if sub else "1.0"
        lim = rng.choice(["", "", " limits { dailymax 4h }"])
        lines.append(f'resource {r} "{r}" {{ efficiency {eff}{lim} }}')
    tasks=[]
    for i in range(nt):
        deps = [f"t{j}" for j in range(i) if rng.random()<0.3]
        eff = rng.choice([20,30,45,60,90,120,150,480]) if sub else rng.choice([60,120,180,480])
        prio = rng.choice([100,500,500,900])
        al = rng.sample(R, rng.choice([1,1,1,2]) if nr>1 else 1)
        d = (" depends " + ", ".join(deps)) if deps else ""
        tasks.append(f'task t{i} "t{i}" {{ effort {eff}min allocate {", ".join(al)} priority {prio}{d} }}')
    return lines, tasks
def res(txt):
    with contextlib.redirect_stderr(io.StringIO()):
        p = ProjectFileParser().parse(txt)
    return p, {t.fullId:(t.get('scheduled',0), t.get('start',0), t.get('end',0)) for t in p.tasks}
bad9=0; n=0
rng=random.Random(1)
for it in range(150):
    lines,tasks=gen(rng, nt=rng.randint(2,7), nr=rng.randint(1,3))
    base="\n".join(lines+tasks)
    intr=f'task zz "zz" {{ effort {rng.choice([60,120,600])}min allocate r0 priority 1 }}'
    pos=rng.randint(0,len(tasks))
    with_="\n".join(lines+tasks[:pos]+[intr]+tasks[pos:])
    _,a=res(base); _,b=res(with_)
    n+=1
    if any(a[k]!=b[k] for k in a):
        bad9+=1
        if bad9<=2: print("C09 DIFF\n", with_, "\n", a, "\n", b)
print("C09 cases",n,"diffs",bad9)
# C12 reschedule + repeated
bad12=0
for it in range(60):
    lines,tasks=gen(rng, nt=rng.randint(2,7), nr=rng.randint(1,3), sub=True)
    txt="\n".join(lines+tasks)
    p,a=res(txt)
    with contextlib.redirect_stderr(io.StringIO()):
        p.schedule()
    b={t.fullId:(t.get('scheduled',0), t.get('start',0), t.get('end',0)) for t in p.tasks}
    _,c=res(txt)
    if a!=b or a!=c:
        bad12+=1; print("C12 DIFF", txt, a, b, c)
print("C12 diffs", bad12)
