import sys, os
sys.path.insert(0, os.environ.get('SPROOT','/repo'))
from scriptplan.parser.tjp_parser import ProjectFileParser
def run(text, sc=0, show=True):
    p = ProjectFileParser().parse(text)
    out = []
    for t in p.tasks:
        out.append((t.fullId, t.get('scheduled', sc), t.get('start', sc), t.get('end', sc)))
    if show:
        for o in out: print(o)
    return p, out
def ledger(p, sc=0):
    for r in p.resources:
        rs = r.data[sc]
        if rs is None: continue
        for idx in sorted(rs.slotTaskUsage):
            print(r.fullId, idx, p.idxToDate(idx), [(t.fullId, s) for t, s in rs.slotTaskUsage[idx]], 'used', rs.slotSecondsUsed.get(idx))
